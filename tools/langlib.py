"""Running core-language programs on the real engines and on the extracted models; shared by C01-C06."""
import os, sys, tempfile, shutil, subprocess, hashlib
from concurrent.futures import ThreadPoolExecutor
HERE = os.path.dirname(os.path.abspath(__file__))
sys.path.insert(0, HERE)
import vlib, progen

VM_FUEL = 5_000_000
REF_FUEL = 200000


def obs(rc, out, err=''):
    """canonical observation of a real run: (class, exit, stdout-bytes-hex)."""
    if rc == -9:
        return ('timeout', None, out)
    if rc < 0:
        return ('signal%d' % -rc, None, out)
    return ('exit', rc, out)


def run_cmd(cmd, timeout=20, env=None, cwd=None):
    try:
        r = subprocess.run(cmd, capture_output=True, timeout=timeout, env=env, cwd=cwd)
        return r.returncode, r.stdout, r.stderr
    except subprocess.TimeoutExpired as e:
        return -9, e.stdout or b'', e.stderr or b''


def run_vm(b, path, fuel=VM_FUEL, timeout=20):
    env = dict(os.environ, NANOLANG_VERIF_FUEL=str(fuel))
    rc, o, e = run_cmd([b.bin('nano_virt'), path, '--run'], timeout, env)
    cls = 'exit'
    es = e.decode('utf-8', 'replace')
    if rc == -9:
        cls = 'timeout'
    elif rc < 0:
        cls = 'signal%d' % -rc
    elif 'instruction budget exhausted' in es:
        cls = 'outoffuel'
    elif 'error: type check failed' in es or 'parser failed' in es or 'Type checking failed' in es:
        cls = 'rejected'
    elif 'codegen failed' in es or 'verification failed' in es:
        cls = 'internal'
    return dict(cls=cls, rc=rc, out=o, err=es[-1500:])


def compile_native(b, path, outbin, timeout=120):
    rc, o, e = run_cmd([b.bin('nanoc'), path, '-o', outbin], timeout)
    es = (o + e).decode('utf-8', 'replace')
    if rc == 0 and os.path.exists(outbin):
        return dict(ok=True, log=es[-1500:])
    cls = 'compile-failed'
    if 'C compilation failed' in es:
        cls = 'cc-failed'
    elif 'Shadow test' in es and 'FAILED' in es:
        cls = 'shadow-failed'
    elif 'ype check' in es or 'TYPE' in es or 'Parsing failed' in es:
        cls = 'rejected'
    elif rc == -9:
        cls = 'timeout'
    return dict(ok=False, cls=cls, rc=rc, log=es[-2500:])


def run_native(b, path, workdir, timeout=20):
    outbin = os.path.join(workdir, os.path.basename(path) + '.bin')
    c = compile_native(b, path, outbin)
    if not c['ok']:
        return dict(cls=c['cls'], rc=c['rc'], out=b'', err=c['log'])
    rc, o, e = run_cmd([outbin], timeout)
    try:
        os.unlink(outbin)
    except OSError:
        pass
    cls = 'exit' if rc >= 0 else ('timeout' if rc == -9 else 'signal%d' % -rc)
    return dict(cls=cls, rc=rc, out=o, err=e.decode('utf-8', 'replace')[-1500:])


def parse_model(line):
    f = line.split()
    if not f:
        return dict(cls='error', out=b'', rc=None)
    if f[0] == 'done':
        z = int(f[1], 16)
        return dict(cls='exit', rc=z, out=bytes.fromhex(f[2]) if f[2] != '-' else b'')
    if f[0] == 'fault':
        return dict(cls='fault-' + f[1], rc=None, out=bytes.fromhex(f[2]) if f[2] != '-' else b'')
    if len(f) == 3:
        try:
            return dict(cls=f[0] + '-' + f[1], rc=None, out=bytes.fromhex(f[2]) if f[2] != '-' else b'', raw=line)
        except ValueError:
            pass
    return dict(cls=f[0], rc=None, out=b'', raw=line)


def model_many(nvref, cmd, sexps, fuel=REF_FUEL):
    lines = ['%s %d %s' % (cmd, fuel, s) for s in sexps]
    out = vlib.run_lines(nvref, lines, timeout=900)
    return [parse_model(l) for l in out]


def pmap(fn, items, workers=16):
    with ThreadPoolExecutor(workers) as ex:
        return list(ex.map(fn, items))


class Work:
    """scratch directory under /verif/build/work (never /tmp for anything registered), removed on exit"""
    def __init__(self, tag):
        base = os.path.join(vlib.BUILD, 'work')
        os.makedirs(base, exist_ok=True)
        self.dir = tempfile.mkdtemp(prefix=tag + '-', dir=base)
    def __enter__(self):
        return self.dir
    def __exit__(self, *a):
        shutil.rmtree(self.dir, ignore_errors=True)
