#!/usr/bin/env python3
"""seedtest.py <patch.diff> <ID> [<ID> ...] [--tier quick] [--seed N] [--keep]
Run the checks of the given properties against /repo's HEAD + a seeded patch WITHOUT touching /repo:
a scratch worktree of /repo gets the patch, a scratch copy of /verif (own build dir, own generated files) runs the checks
with VERIF_REPO pointing at the worktree.  Prints each check's verdict lines; exit 0 iff at least one check raised a VIOLATION.
(When nobody else is using /repo the same can be done in place: git -C /repo apply p; run; git -C /repo checkout -- .)"""
import sys, os, subprocess, tempfile, shutil, argparse, json

def sh(cmd, **kw):
    return subprocess.run(cmd, shell=isinstance(cmd, str), capture_output=True, text=True, **kw)

def main():
    ap = argparse.ArgumentParser()
    ap.add_argument('patch'); ap.add_argument('ids', nargs='+')
    ap.add_argument('--tier', default='quick'); ap.add_argument('--seed', default='1'); ap.add_argument('--keep', action='store_true')
    ap.add_argument('--base', default='HEAD', help='commit of /repo to apply the patch to')
    a = ap.parse_args()
    tag = os.path.basename(os.path.dirname(os.path.abspath(a.patch))) or 'x'
    wt = tempfile.mkdtemp(prefix='seedwt-%s-' % tag, dir='/tmp')
    vc = tempfile.mkdtemp(prefix='seedverif-%s-' % tag, dir='/tmp')
    os.rmdir(wt)
    caught = False
    try:
        r = sh(['git', '-C', '/repo', 'worktree', 'add', '--detach', wt, a.base])
        if r.returncode:
            print(r.stderr); return 2
        r = sh(['git', '-C', wt, 'apply', os.path.abspath(a.patch)])
        if r.returncode:
            r = sh(['git', '-C', wt, 'apply', '--3way', os.path.abspath(a.patch)])
        if r.returncode:
            print('patch does not apply:', r.stderr); return 2
        sh(['rsync', '-a', '--exclude', 'build', '--exclude', 'replays/*.json', '/verif/', vc + '/'])
        # stale extraction stamps: force re-extraction in the copy
        sh('rm -f %s/coq/NV/Extract/*.vo' % vc)
        for pid in a.ids:
            env = dict(os.environ, VERIF_REPO=wt, VERIF_SEED=a.seed)
            r = sh(['python3', 'tools/check.py', pid, '--tier', a.tier], cwd=vc, env=env, timeout=3600)
            lines = [l for l in r.stdout.splitlines() if l.startswith('VIOLATION') or l.startswith('[' + pid)]
            known = sum(1 for l in r.stdout.splitlines() if l.startswith('KNOWN-FINDING'))
            print('== %s: exit %d (%d known-finding lines)' % (pid, r.returncode, known))
            if any(l.startswith('VIOLATION') for l in lines):
                caught = True
            lines = [l for l in lines if l.startswith('VIOLATION')][:6] + [l for l in lines if not l.startswith('VIOLATION')][-2:]
            for l in lines:
                print('   ', l)
                if l.startswith('VIOLATION'):
                    rp = l.split('replay=')[1].split()[0]
                    try:
                        d = json.load(open(rp))
                        print('       ->', (d.get('what') or str(d.get('theorem_or_correspondence')))[:260])
                    except Exception:
                        pass
            if r.returncode not in (0, 1):
                print(r.stderr[-1500:])
    finally:
        if not a.keep:
            sh(['git', '-C', '/repo', 'worktree', 'remove', '--force', wt])
            shutil.rmtree(vc, ignore_errors=True)
        else:
            print('kept', wt, vc)
    return 0 if caught else 1

if __name__ == '__main__':
    sys.exit(main())
