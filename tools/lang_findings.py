"""Minimal witness programs (progen AST) for language-layer defects, keyed as in known_findings.json.
Each is replayed on the real engines by the C01/C02/C04 checks; a witness that diverges from the reference and
whose key is listed as an OPEN finding prints KNOWN-FINDING, one that is listed as FIXED (or not listed) and diverges
is a VIOLATION.  Keys name the construct, the engines are decided by running."""

def fn(name, params, ret, body):
    return dict(name=name, params=params, ret=ret, body=body, effect=True)

def seq(*ss):
    out = ss[-1]
    for s in reversed(ss[:-1]):
        out = ('seq', s, out)
    return out

def prog(fns, globals_=()):
    return dict(globals=list(globals_), fns=fns, main=0)

N = lambda z: ('num', z)
V = lambda x: ('var', x)
P = lambda e: ('print', True, e)

# f1(v2:int) -> bool / int : prints its argument
SIDE_B = fn(1, [(2, 'int')], 'bool', seq(P(V(2)), ('ret', ('bool', True))))
SIDE_I = fn(1, [(2, 'int')], 'int', seq(P(V(2)), ('ret', V(2))))

WITNESSES = {
    # and/or must not evaluate the right operand when the left decides (spec 8.5)
    'lang:shortcircuit-and': prog([SIDE_B, fn(0, [], 'int', seq(('let', False, 3, 'bool', ('bin', 'and', ('bool', False), ('call', 1, [N(7)]))),
                                                                P(V(3)), ('ret', N(0))))]),
    'lang:shortcircuit-or': prog([SIDE_B, fn(0, [], 'int', seq(('let', False, 3, 'bool', ('bin', 'or', ('bool', True), ('call', 1, [N(7)]))),
                                                               P(V(3)), ('ret', N(0))))]),
    # continue inside for must advance to the next element
    'lang:continue-in-for': prog([fn(0, [], 'int', seq(('for', 1, N(0), N(5), seq(('if', ('bin', 'eq', V(1), N(2)), ('continue',), ('skip',)), P(V(1)))),
                                                       ('ret', N(0))))]),
    # a let inside a block stops shadowing when the block ends (spec 8.2)
    'lang:block-shadow': prog([fn(0, [], 'int', seq(('let', False, 1, 'int', N(1)),
                                                    ('if', ('bool', True), seq(('let', False, 1, 'int', N(2)), P(V(1))), ('skip',)),
                                                    P(V(1)), ('ret', N(0))))]),
    # arguments are evaluated left to right (spec 4.9)
    'lang:arg-order': prog([SIDE_I, fn(3, [(4, 'int'), (5, 'int'), (6, 'int')], 'int', ('ret', ('bin', 'add', V(4), ('bin', 'add', V(5), V(6))))),
                            fn(0, [], 'int', seq(P(('call', 3, [('call', 1, [N(1)]), ('call', 1, [N(2)]), ('call', 1, [N(3)])])), ('ret', N(0))))]),
    # unary minus applied to a negative literal: the C text must not read `--5`
    'lang:neg-of-negative-literal': prog([fn(0, [], 'int', seq(P(('un', 'neg', N(-5))), ('ret', N(0))))]),
    # comparison nested in a comparison: the C text needs parentheses
    'lang:nested-comparison': prog([fn(0, [], 'int', seq(P(('bin', 'eq', ('bool', False), ('bin', 'eq', N(1), N(2)))),
                                                         P(('bin', 'eq', ('bin', 'lt', N(1), N(2)), ('bin', 'lt', N(3), N(4)))), ('ret', N(0))))]),
    # constant expression that wraps: 64-bit wrapping integers are defined behaviour of the language
    'lang:constant-overflow': prog([fn(0, [], 'int', seq(P(('bin', 'mul', N(9223372036854775807), N(2))), ('ret', N(0))))]),
    # comparing a variable with itself
    'lang:self-comparison': prog([fn(0, [], 'int', seq(('let', False, 1, 'int', N(3)), P(('bin', 'eq', V(1), V(1))), P(('bin', 'lt', V(1), V(1))), ('ret', N(0))))]),
    # shadowing let whose initialiser reads the shadowed variable
    'lang:self-ref-shadow': prog([fn(0, [], 'int', seq(('let', False, 1, 'int', N(1)),
                                                       ('if', ('bool', True), seq(('let', False, 1, 'int', ('bin', 'add', V(1), N(1))), P(V(1))), ('skip',)),
                                                       P(V(1)), ('ret', N(0))))]),
    # a second let of the same name in the same block
    'lang:same-scope-redeclare': prog([fn(0, [], 'int', seq(('let', False, 1, 'int', N(1)), ('let', False, 1, 'int', N(2)), P(V(1)), ('ret', N(0))))]),
    # assert whose condition contains the % operator
    'lang:assert-percent': prog([fn(0, [], 'int', seq(('let', False, 1, 'int', N(7)), ('assert', ('bin', 'eq', ('bin', 'mod', V(1), N(2)), N(1))), P(V(1)), ('ret', N(0))))]),
    # '??!' inside a string literal is a C trigraph
    'lang:string-trigraph': prog([fn(0, [], 'int', seq(P(('str', b'a??!b')), ('ret', N(0))))]),
    # a string literal longer than the transpiler's 2048-byte formatting buffer
    'lang:native-long-string-literal': prog([fn(0, [], 'int', seq(P(('str', bytes((97 + i % 26) for i in range(2100)))), P(('str', bytes((65 + i % 26) for i in range(4200)))), ('ret', N(0))))]),
    # an and/or with one CONSTANT operand still evaluates its other operand (spec 8.5: only the RIGHT operand may be skipped):
    # in an assert, an if condition and a while condition; the effect is a print and a counter in a mut local of a helper's caller
    'lang:assert-or-true-keeps-effect': prog([SIDE_B, fn(0, [], 'int', seq(('for', 3, N(0), N(3), ('assert', ('bin', 'or', ('call', 1, [V(3)]), ('bool', True)))),
                                                                           ('assert', ('bin', 'and', ('call', 1, [N(7)]), ('bool', True))), P(N(99)), ('ret', N(0))))]),
    'lang:assert-and-false-keeps-effect': prog([SIDE_B, fn(0, [], 'int', seq(P(N(1)), ('assert', ('bin', 'and', ('call', 1, [N(8)]), ('bool', False))), P(N(2)), ('ret', N(0))))]),
    'lang:if-constant-operand-keeps-effect': prog([SIDE_B, fn(0, [], 'int', seq(('if', ('bin', 'and', ('call', 1, [N(20)]), ('bool', False)), P(N(1)), P(N(2))),
                                                                                ('if', ('bin', 'or', ('call', 1, [N(21)]), ('bool', True)), P(N(3)), P(N(4))),
                                                                                ('if', ('bin', 'and', ('call', 1, [N(22)]), ('bin', 'eq', N(1), N(2))), P(N(5)), P(N(6))),
                                                                                ('let', True, 4, 'int', N(0)),
                                                                                ('while', ('bin', 'and', ('call', 1, [V(4)]), ('bin', 'lt', V(4), N(2))), ('set', 4, ('bin', 'add', V(4), N(1)))),
                                                                                ('ret', N(0))))]),
    # infix chains: one precedence, strictly left to right (spec 4.3): written without parentheses in the infix spelling
    'lang:infix-chain-left-to-right': prog([fn(0, [], 'int', seq(('let', False, 1, 'bool', ('bool', True)), ('let', False, 2, 'bool', ('bool', False)),
                                                                  P(('bin', 'or', ('bin', 'and', V(1), V(2)), V(1))), P(('bin', 'and', ('bin', 'or', V(1), V(2)), V(2))),
                                                                  P(('bin', 'eq', ('bin', 'or', V(2), V(1)), V(2))), P(('bin', 'sub', ('bin', 'sub', N(10), N(3)), N(2))),
                                                                  P(('bin', 'mul', ('bin', 'add', N(2), N(3)), N(4))), P(('bin', 'lt', ('bin', 'add', N(1), N(2)), N(4))),
                                                                  ('ret', N(0))))]),
    # a void function whose code ends with the RET of a conditional return: the last BYTE is RET, but the end is reachable
    'lang:fall-off-function-end': prog([fn(1, [(2, 'bool')], 'void', ('if', V(2), ('ret', None), ('skip',))),
                                        fn(0, [], 'int', seq(P(N(1)), ('expr', ('call', 1, [('bool', False)])), P(N(2)), ('ret', N(7))))]),
    # output printed before an out-of-range (at a i) must reach stdout: the run stops AT the access, not before what preceded it
    'lang:native-oob-output-lost': prog([fn(0, [], 'int', seq(('let', False, 1, 'arr', ('arr', [N(1), N(2), N(3)])), P(('at', V(1), N(0))),
                                                              P(('at', V(1), N(3))), P(N(99)), ('ret', N(0))))]),
    # (at e i) where e is a call: at : (array<int>, int) -> int, so the element is an int whatever expression yields the array
    'lang:at-of-call-untyped': prog([fn(1, [(2, 'int')], 'arr', seq(P(V(2)), ('ret', ('arr', [V(2), ('bin', 'add', V(2), N(1))])))),
                                     fn(0, [], 'int', seq(P(('at', ('call', 1, [N(10)]), N(1))), ('ret', N(0))))]),
    # the bounds of (range lo hi) are evaluated once, before the first iteration (spec 5.4); the body assigns the variable the
    # upper bound reads, and the bound's evaluation prints
    'lang:for-bound-reevaluated': prog([fn(1, [(2, 'int')], 'int', seq(P(('bin', 'add', N(100), V(2))), ('ret', V(2)))),
                                        fn(0, [], 'int', seq(('let', True, 3, 'int', N(2)),
                                                             ('for', 4, N(0), ('call', 1, [V(3)]), seq(P(V(4)), ('set', 3, N(4)))),
                                                             ('ret', N(0))))]),
    # an array literal with more than 65535 elements: every element counts (the bytecode's ARR_LITERAL has a 16-bit count operand)
    'lang:array-literal-count-u16': prog([fn(0, [], 'int', seq(('let', False, 1, 'arr', ('arr', [N(i % 7) for i in range(65537)])),
                                                               P(('len', V(1))), P(('at', V(1), N(65536))), ('ret', N(0))))]),
    # run-time overflow (through variables): wraps
    'lang:runtime-overflow': prog([fn(0, [], 'int', seq(('let', False, 1, 'int', N(9223372036854775807)), P(('bin', 'add', V(1), N(1))),
                                                        P(('bin', 'mul', V(1), V(1))), P(('un', 'neg', ('bin', 'sub', ('un', 'neg', V(1)), N(1)))), ('ret', N(0))))]),
}

# ---- strings as computed values: operands outside the domain on which the two engines agree (the reference faults there:
# Lang/Ref.v FStrDomain, so these are C01 findings: engine against engine)
_S = lambda b: ('str', b)
WITNESSES.update({
    # char_at outside 0 <= i < length: VM -1, native 0 and a message on stderr (STDLIB: "Error if index out of bounds"; SPECIFICATION: nothing)
    'lang:char-at-out-of-range': prog([fn(0, [], 'int', seq(P(('s2', 'charat', _S(b'abc'), N(3))), P(('s2', 'charat', _S(b'abc'), N(-1))), ('ret', N(0))))]),
    # str_substring: the VM narrows start and length to 32 bits unsigned (start 2^32+1 reads from 1, length -1 is 2^32-1: the rest of
    # the string); native computes in int64 and answers "" for both
    'lang:str-substring-u32': prog([fn(0, [], 'int', seq(P(('s2', 'plus', _S(b'<'), ('s2', 'plus', ('substr', _S(b'hello'), N(4294967297), N(2)), _S(b'>')))),
                                                        P(('s2', 'plus', _S(b'<'), ('s2', 'plus', ('substr', _S(b'hello'), N(1), N(-1)), _S(b'>')))), ('ret', N(0))))]),
})

# replayed on the two real engines only (C01): the extracted models recurse over strings as lists, 2^20 bytes deep
ENGINE_WITNESSES = {
    # native string helpers measure their operands with strnlen(s, 1 MiB): a 2 MiB string + "b" has length 1048577 natively, 2097153 on the VM
    'lang:native-string-1mib': prog([fn(0, [], 'int', seq(('let', True, 1, 'str', _S(b'abcdefgh' * 128)),
                                                         ('for', 2, N(0), N(11), ('set', 1, ('s2', 'plus', V(1), V(1)))),
                                                         P(('s1', 'len', V(1))), P(('s1', 'len', ('s2', 'plus', V(1), _S(b'b')))), ('ret', N(0))))]),
}
