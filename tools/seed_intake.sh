#!/bin/bash
# seed_intake.sh <ID> <worktree> <n> [extra IDs to run]: confirm a seeded change, archive it as seeded/<ID>-<n>/, run the checks against it.
set -u
ID=$1; WT=$2; N=$3; shift 3; EXTRA="$*"
D=/verif/seeded/$ID-$N; mkdir -p $D
CONF=$(bash /verif/tools/seed_confirm.sh $WT 2>&1); echo "$CONF" | tail -8
cp -r $WT/SEEDED/* $D/ 2>/dev/null
SUITE=$(echo "$CONF" | grep -A1 "with change: test suite" | tail -1)
RES=$(echo "$CONF" | tail -1)
OUT=$(python3 /verif/tools/seedtest.py $D/patch.diff $ID $EXTRA 2>&1); echo "$OUT" | tail -14
python3 - "$ID" "$D" "$SUITE" "$RES" "$OUT" <<'PY'
import sys,json,re
pid,d,suite,res,out=sys.argv[1:6]
caught=sorted(set(re.findall(r'VIOLATION property=(C\d+)',out)))
json.dump({"property":pid,"origin":"fresh sub-agent given only the property text (plus a one-line note of the first-round change to avoid) and a scratch worktree of /repo",
 "confirmed":{"how":"tools/seed_confirm.sh","suite_with_change":suite.strip(),"result":res.strip()},
 "checks_run":["python3 tools/seedtest.py %s/patch.diff ..."%d],"caught_by":caught,
 "first_violations":[l.strip() for l in out.splitlines() if l.strip().startswith('->')][:4]},open(d+'/meta.json','w'),indent=1)
print("ARCHIVED",d,"caught_by",caught)
PY
