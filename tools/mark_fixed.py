#!/usr/bin/env python3
"""mark_fixed.py <key> <commit>: turn an open finding (known_findings.json or known_findings.d/*.json) into a fixed: record."""
import sys, json, glob, os
V = os.path.dirname(os.path.dirname(os.path.abspath(__file__)))
key, commit = sys.argv[1], sys.argv[2]
n = 0
for f in [os.path.join(V, 'known_findings.json')] + sorted(glob.glob(os.path.join(V, 'known_findings.d', '*.json'))):
    d = json.load(open(f))
    ch = False
    for e in d:
        if e.get('key') == key and e.get('status') == 'open':
            e['status'] = 'fixed'; e['commit'] = commit
            e['record'] = 'fixed: property=%s %s %s' % (e['property'], commit, e.get('what', '')[:160])
            ch = True; n += 1
    if ch:
        json.dump(d, open(f, 'w'), indent=1)
print('marked', n)
