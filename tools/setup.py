#!/usr/bin/env python3
"""MANIFEST.setup_cmd: build the framework offline from files on disk (repo objects, generated .v, full Coq library, nvref binaries)."""
import os, sys, glob, time
HERE = os.path.dirname(os.path.abspath(__file__))
sys.path.insert(0, HERE)
import vlib, build_repo, gen_all

def main():
    t0 = time.time()
    for v in ('plain', 'asan'):
        build_repo.build(v, quiet=False)
    print('gen changed:', gen_all.gen_all(build_repo.build('plain')))
    vlib.sync_nanocore()
    vlib.coq_project()
    os.makedirs(os.path.join(vlib.BUILD, 'extract'), exist_ok=True)
    rc, o, e = vlib.sh(['make', '-k', '-j16'], cwd=vlib.COQ, timeout=3000)
    print(o[-2000:]); print(e[-4000:])
    bad = rc != 0
    for d in sorted(glob.glob(os.path.join(vlib.VERIF, 'extract', '*_driver.ml'))):
        name = os.path.basename(d)[:-len('_driver.ml')]
        try:
            print('nvref', name, vlib.build_nvref(name))
        except Exception as ex:
            print('nvref %s FAILED: %s' % (name, ex)); bad = True
    print('setup done in %.1fs, %s' % (time.time() - t0, 'WITH ERRORS' if bad else 'ok'))
    # a Coq failure here is not fatal for setup: each check reports its own broken obligations
    return 0

if __name__ == '__main__':
    sys.exit(main())
