#!/usr/bin/env python3
"""Run every translator tools/gen/gen_*.py against the current /repo build -> coq/NV/gen/*.v (rewritten only when changed)."""
import os, sys, importlib, glob
HERE = os.path.dirname(os.path.abspath(__file__))
sys.path.insert(0, HERE); sys.path.insert(0, os.path.join(HERE, 'gen'))
from build_repo import build

def gen_all(b=None, only=None):
    b = b or build('plain')
    changed = []
    for p in sorted(glob.glob(os.path.join(HERE, 'gen', 'gen_*.py'))):
        name = os.path.splitext(os.path.basename(p))[0]
        if only and name not in only:
            continue
        m = importlib.import_module(name)
        if m.generate(b):
            changed.append(name)
    return changed

if __name__ == '__main__':
    print('changed:', gen_all())
