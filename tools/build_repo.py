#!/usr/bin/env python3
"""Out-of-tree build of /repo's *current working tree* into /verif/build/<variant>.

Nothing is written under /repo.  Objects are cached by content hash
(source bytes + all header bytes + flags), so an unchanged tree costs ~0.2 s and
a changed file recompiles only itself (a changed header recompiles all, ~5 s).

variants:  plain  = -O1 -g -DNANOLANG_VERIF
           asan   = plain + -fsanitize=address,undefined -fno-sanitize-recover=all
           tsan   = plain + -fsanitize=thread
           nohook = -O1 -g (guard off; used to show hooks are inert)

Usage:  build_repo.py [variant ...]      (default: plain)
Python: from build_repo import build; b = build('plain'); b.bin('nano_vm'); b.lib
"""
import hashlib, os, subprocess, sys, json, shutil
from concurrent.futures import ThreadPoolExecutor

REPO = os.environ.get('VERIF_REPO', '/repo')
VERIF = os.path.dirname(os.path.dirname(os.path.abspath(__file__)))
BUILD = os.path.join(VERIF, 'build')
GUARD = 'NANOLANG_VERIF'

BASE_FLAGS = ['-std=c99', '-g', '-O1', '-D_GNU_SOURCE', '-w', '-fno-omit-frame-pointer']
VARIANTS = {
    'plain': ['-D' + GUARD],
    'asan': ['-D' + GUARD, '-fsanitize=address,undefined', '-fno-sanitize-recover=all'],
    'tsan': ['-D' + GUARD, '-fsanitize=thread'],
    'nohook': [],
}
LINK_EXTRA = {
    'plain': [], 'nohook': [],
    'asan': ['-fsanitize=address,undefined'],
    'tsan': ['-fsanitize=thread'],
}

NANOISA = ['isa.c', 'nvm_format.c', 'assembler.c', 'disassembler.c', 'verifier.c']
NANOVM = ['value.c', 'heap.c', 'vm.c', 'vm_ffi.c', 'vm_builtins.c', 'cop_protocol.c']
VMD = ['vmd_protocol.c', 'vmd_client.c', 'vmd_server.c']
NANOVIRT = ['codegen.c', 'wrapper_gen.c']


def _make_vars():
    """Ask the repo's own Makefile for its source lists (no regex over the Makefile)."""
    ev = 'vp__pv: ; @echo $(COMMON_SOURCES) ; echo $(RUNTIME_SOURCES)'
    out = subprocess.run(['make', '-f', 'Makefile.gnu', '-s', '--eval', ev, 'vp__pv'],
                         cwd=REPO, capture_output=True, text=True, timeout=60).stdout
    lines = [l for l in out.splitlines() if l.startswith('src/')]
    if len(lines) < 2:
        raise RuntimeError('cannot read source lists from Makefile.gnu: ' + out)
    return lines[0].split(), lines[1].split()


def _sha(*parts):
    h = hashlib.sha256()
    for p in parts:
        h.update(p if isinstance(p, bytes) else p.encode())
        h.update(b'\0')
    return h.hexdigest()


def _headers_hash():
    h = hashlib.sha256()
    for root, _, files in sorted(os.walk(os.path.join(REPO, 'src'))):
        for f in sorted(files):
            # .c files that are #included by other .c files count as headers too
            if f.endswith('.h') or f == 'transpiler_iterative_v3_twopass.c' or f.endswith('.inc'):
                p = os.path.join(root, f)
                h.update(p.encode()); h.update(open(p, 'rb').read())
    return h.hexdigest()


class Built:
    def __init__(self, variant, root):
        self.variant = variant
        self.root = root
        self.obj = os.path.join(root, 'obj')
        self.bindir = os.path.join(root, 'bin')
        self.lib = os.path.join(root, 'libnano.a')
        self.cflags = BASE_FLAGS + VARIANTS[variant] + ['-I' + os.path.join(REPO, 'src'),
                                                         '-I' + os.path.join(REPO, 'src/nanoisa')]
        self.ldflags = ['-lm', '-rdynamic', '-lpthread', '-ldl'] + LINK_EXTRA[variant]

    def bin(self, name):
        return os.path.join(self.bindir, name)

    def link_probe(self, src, out=None, extra=()):
        """Compile a probe C file against the repo headers and link it with libnano.a."""
        out = out or os.path.join(self.root, 'probes', os.path.splitext(os.path.basename(src))[0])
        os.makedirs(os.path.dirname(out), exist_ok=True)
        key = _sha(open(src, 'rb').read(), open(self.lib, 'rb').read()[:0] , str(os.path.getmtime(self.lib)),
                   ' '.join(self.cflags), ' '.join(extra))
        stamp = out + '.key'
        if os.path.exists(out) and os.path.exists(stamp) and open(stamp).read() == key:
            return out
        cmd = ['cc'] + self.cflags + ['-I' + os.path.join(REPO, 'src/nanovm'), '-I' + os.path.join(REPO, 'src/nanovirt'),
                                       '-I' + os.path.join(REPO, 'src/runtime')] + list(extra) + \
              ['-o', out, src, self.lib] + self.ldflags
        r = subprocess.run(cmd, capture_output=True, text=True, timeout=300)
        if r.returncode != 0:
            raise RuntimeError('probe build failed: %s\n%s' % (' '.join(cmd), r.stderr[-4000:]))
        open(stamp, 'w').write(key)
        return out


def build(variant='plain', quiet=True):
    if variant not in VARIANTS:
        raise ValueError(variant)
    root = os.path.join(BUILD, variant)
    b = Built(variant, root)
    os.makedirs(b.obj, exist_ok=True); os.makedirs(b.bindir, exist_ok=True)
    common, runtime = _make_vars()
    groups = {
        'common': common, 'runtime': runtime,
        'nanoisa': ['src/nanoisa/' + f for f in NANOISA],
        'nanovm': ['src/nanovm/' + f for f in NANOVM],
        'vmd': ['src/nanovm/' + f for f in VMD],
        'nanovirt': ['src/nanovirt/' + f for f in NANOVIRT],
        'mains': ['src/main.c', 'src/nanovirt/main.c', 'src/nanovm/main.c', 'src/nanovm/cop_main.c',
                  'src/nanovm/vmd_main.c'],
    }
    hh = _headers_hash()
    flags = ' '.join(b.cflags)
    jobs = []
    objs = {}
    for g, srcs in groups.items():
        for s in srcs:
            o = os.path.join(b.obj, s[len('src/'):].replace('/', '__')[:-2] + '.o')
            objs[s] = o
            jobs.append((s, o))
    changed = []

    def one(job):
        s, o = job
        sp = os.path.join(REPO, s)
        key = _sha(open(sp, 'rb').read(), hh, flags)
        kf = o + '.key'
        if os.path.exists(o) and os.path.exists(kf) and open(kf).read() == key:
            return None
        r = subprocess.run(['cc'] + b.cflags + ['-c', sp, '-o', o], capture_output=True, text=True, timeout=600)
        if r.returncode != 0:
            return (s, r.stderr[-3000:])
        open(kf, 'w').write(key)
        changed.append(s)
        return None

    with ThreadPoolExecutor(16) as ex:
        errs = [e for e in ex.map(one, jobs) if e]
    if errs:
        raise RuntimeError('repo build failed (%s):\n%s' % (variant, '\n'.join('%s:\n%s' % e for e in errs)))

    def O(group):
        return [objs[s] for s in groups[group]]

    libobjs = O('common') + O('runtime') + O('nanoisa') + O('nanovm') + O('vmd') + O('nanovirt')
    if changed or not os.path.exists(b.lib):
        if os.path.exists(b.lib):
            os.unlink(b.lib)
        subprocess.run(['ar', 'rcs', b.lib] + libobjs, check=True)
    base = O('common') + O('runtime')
    links = {
        'nanoc': base + [objs['src/main.c']],
        'nano_virt': O('nanovirt') + O('nanovm') + O('nanoisa') + base + [objs['src/nanovirt/main.c']],
        'nano_vm': O('nanovm') + O('nanoisa') + base + [objs['src/nanovm/vmd_protocol.c'], objs['src/nanovm/vmd_client.c'],
                                                        objs['src/nanovm/main.c']],
        'nano_cop': O('nanovm') + O('nanoisa') + base + [objs['src/nanovm/cop_main.c']],
        'nano_vmd': O('nanovm') + O('nanoisa') + base + O('vmd') + [objs['src/nanovm/vmd_main.c']],
    }

    def link(item):
        name, os_ = item
        out = b.bin(name)
        if not changed and os.path.exists(out):
            return None
        r = subprocess.run(['cc'] + BASE_FLAGS + ['-o', out] + os_ + b.ldflags, capture_output=True, text=True, timeout=600)
        return (name, r.stderr[-3000:]) if r.returncode != 0 else None

    with ThreadPoolExecutor(8) as ex:
        errs = [e for e in ex.map(link, links.items()) if e]
    if errs:
        raise RuntimeError('repo link failed (%s):\n%s' % (variant, '\n'.join('%s:\n%s' % e for e in errs)))
    # nanoc derives its project root from dirname(dirname(realpath(argv0))) and compiles
    # src/runtime/*.c from there: give the out-of-tree root the directories it looks for.
    for d in ('src', 'modules', 'std', 'stdlib', 'schema'):
        lp = os.path.join(root, d)
        if not os.path.islink(lp) and os.path.exists(os.path.join(REPO, d)):
            os.symlink(os.path.join(REPO, d), lp)
    if not quiet:
        print('[build_repo] %s: %d recompiled' % (variant, len(changed)))
    b.recompiled = len(changed)
    return b


if __name__ == '__main__':
    vs = sys.argv[1:] or ['plain']
    for v in vs:
        build(v, quiet=False)
