#!/usr/bin/env python3
"""check.py <ID> [--tier quick|thorough] [--replay file] -- runs tools/props/<id>.py against /repo's working tree.
exit 0: property held on everything explored (KNOWN-FINDING lines allowed); exit 1: VIOLATION line printed."""
import sys, os, argparse, importlib, traceback, json
HERE = os.path.dirname(os.path.abspath(__file__))
sys.path.insert(0, HERE); sys.path.insert(0, os.path.join(HERE, 'props'))
import vlib

def main():
    ap = argparse.ArgumentParser()
    ap.add_argument('pid')
    ap.add_argument('--tier', default=os.environ.get('VERIF_TIER', 'quick'))
    ap.add_argument('--seed', default=None)
    ap.add_argument('--replay', default=None)
    a = ap.parse_args()
    pid = a.pid.upper()
    ck = vlib.Check(pid, a.tier if a.tier in ('quick', 'thorough') else 'quick', a.seed, a.replay)
    mod = importlib.import_module(pid.lower())
    try:
        if a.replay:
            rc = mod.replay(ck, json.load(open(a.replay)))
            sys.exit(rc)
        mod.run(ck)
    except Exception as e:
        # machinery failure (build of /repo broke, translator broke ...): the property is no longer shown to hold
        traceback.print_exc()
        ck.proof['broken'].append('machinery: %s' % str(e)[:500])
        if ck.proof['obligations'] == 0:
            ck.proof['obligations'] = max(1, len(vlib.theorems_of(pid)))
        ck.proof['discharged'] = min(ck.proof['discharged'], ck.proof['obligations'] - 1)
    sys.exit(ck.finish())

if __name__ == '__main__':
    main()
