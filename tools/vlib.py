"""Shared machinery of every check: repo build, translators, Coq build, extraction/nvref build,
proof-obligation accounting, verdict logic (VIOLATION / KNOWN-FINDING), replay + evidence files."""
import os, sys, re, json, time, glob, subprocess, hashlib, random, fcntl, shutil

HERE = os.path.dirname(os.path.abspath(__file__))
VERIF = os.path.dirname(HERE)
REPO = os.environ.get('VERIF_REPO', '/repo')
COQ = os.path.join(VERIF, 'coq')
BUILD = os.path.join(VERIF, 'build')
sys.path.insert(0, HERE); sys.path.insert(0, os.path.join(HERE, 'gen'))
import build_repo
import gen_all

COQ_TIMEOUT = int(os.environ.get('VERIF_COQ_TIMEOUT', '2400'))


class Lock:
    """One builder at a time (checks may be started concurrently)."""
    def __init__(self, name='build'):
        os.makedirs(BUILD, exist_ok=True)
        self.path = os.path.join(BUILD, '.%s.lock' % name)
    def __enter__(self):
        self.f = open(self.path, 'w'); fcntl.flock(self.f, fcntl.LOCK_EX); return self
    def __exit__(self, *a):
        fcntl.flock(self.f, fcntl.LOCK_UN); self.f.close()


def sh(cmd, timeout=600, cwd=None, env=None, input=None):
    """Run, never raise on timeout: returns (rc, stdout, stderr); rc = -9 on timeout."""
    try:
        r = subprocess.run(cmd, cwd=cwd, env=env, input=input, capture_output=True, timeout=timeout,
                           shell=isinstance(cmd, str))
        return r.returncode, r.stdout.decode('utf-8', 'replace'), r.stderr.decode('utf-8', 'replace')
    except subprocess.TimeoutExpired as e:
        return -9, (e.stdout or b'').decode('utf-8', 'replace'), (e.stderr or b'').decode('utf-8', 'replace') + '\n[timeout]'


# ----------------------------------------------------------------------------------------- Coq
def coq_project():
    """(Re)generate _CoqProject from the files present; run coq_makefile when the list changed."""
    vs = sorted(os.path.relpath(p, COQ) for p in glob.glob(os.path.join(COQ, 'NV', '**', '*.v'), recursive=True))
    text = '-Q NV NV\n-arg -w -arg -all\n' + '\n'.join(vs) + '\n'
    p = os.path.join(COQ, '_CoqProject')
    changed = not os.path.exists(p) or open(p).read() != text
    if changed:
        open(p, 'w').write(text)
    if changed or not os.path.exists(os.path.join(COQ, 'Makefile')):
        rc, o, e = sh(['coq_makefile', '-f', '_CoqProject', '-o', 'Makefile'], cwd=COQ, timeout=120)
        if rc != 0:
            raise RuntimeError('coq_makefile failed: ' + e)


def sync_nanocore():
    """T: copy /repo/formal/*.v (the repository's own NanoCore development) into NV/NanoCore, Stdlib->Coq."""
    src = os.path.join(REPO, 'formal')
    dst = os.path.join(COQ, 'NV', 'NanoCore')
    if not os.path.isdir(src):
        return
    os.makedirs(dst, exist_ok=True)
    for f in ('Syntax.v', 'Semantics.v', 'EvalFn.v', 'Determinism.v', 'Typing.v'):
        sp = os.path.join(src, f)
        if not os.path.exists(sp):
            continue
        t = open(sp).read().replace('From Stdlib Require', 'From Coq Require')
        t = re.sub(r'From NanoCore Require', 'From NV.NanoCore Require', t)
        # the repository's files carry their own extraction directives (nat => int, Z => big_int, ...): they are not part of
        # the semantics and must not leak into this framework's extraction (ExtrOcamlBasic only): comment them out
        t = re.sub(r'^(From Coq Require (Extraction|ExtrOcaml\w+)\.)$', r'(* \1 *)', t, flags=re.M)
        t = re.sub(r'^(Extraction Language OCaml\.)$', r'(* \1 *)', t, flags=re.M)
        t = re.sub(r'^(Extract (Inductive|Constant|Inlined Constant)[^.]*?\.)\s*$', lambda m: '(* ' + m.group(1).replace('(*', '( *').replace('*)', '* )') + ' *)', t, flags=re.M | re.S)
        t = '(* GENERATED: copy of /repo/formal/%s (From Stdlib -> From Coq; extraction directives commented out) -- do not edit *)\n' % f + t
        _wic(os.path.join(dst, f), t)


def _wic(path, text):
    if os.path.exists(path) and open(path).read() == text:
        return False
    open(path, 'w').write(text); return True


def coq_make(targets, jobs=16):
    """make -k the given .vo targets (paths relative to coq/).  Returns (ok, log)."""
    coq_project()
    os.makedirs(os.path.join(BUILD, 'extract'), exist_ok=True)
    rc, o, e = sh(['make', '-k', '-j%d' % jobs] + list(targets), cwd=COQ, timeout=COQ_TIMEOUT)
    return rc == 0, o + e


def theorems_of(pid):
    p = os.path.join(COQ, 'NV', 'Props', 'Properties_%s.v' % pid)
    if not os.path.exists(p):
        return []
    out = []
    for i, line in enumerate(open(p), 1):
        m = re.match(r'(Theorem|Example|Lemma|Corollary)\s+([A-Za-z0-9_\']+)', line)
        if m:
            out.append((m.group(2), m.group(1), i))
    return out


def print_assumptions(pid, names):
    """coqc a scratch file that Requires the compiled property file and prints each theorem's assumptions."""
    d = os.path.join(BUILD, 'assump'); os.makedirs(d, exist_ok=True)
    f = os.path.join(d, 'A_%s.v' % pid)
    body = 'From NV Require Import Props.Properties_%s.\n' % pid
    for n in names:
        body += 'Goal True. idtac "@@ %s". exact I. Qed.\nPrint Assumptions %s.\n' % (n, n)
    open(f, 'w').write(body)
    rc, o, e = sh(['coqc', '-Q', os.path.join(COQ, 'NV'), 'NV', '-w', '-all', f], cwd=d, timeout=600)
    res = {}
    cur = None
    for line in o.splitlines():
        if line.startswith('@@ '):
            cur = line[3:].strip(); res[cur] = []
        elif cur is not None and line.strip():
            res[cur].append(line.rstrip())
    return rc == 0, res


def build_nvref(name):
    """Extract (coq/NV/Extract/Ex<NAME>.v writes build/extract/ex_<name>.ml) and link extract/<name>_driver.ml."""
    ex = os.path.join(BUILD, 'extract'); os.makedirs(ex, exist_ok=True)
    ok, log = coq_make(['NV/Extract/Ex%s.vo' % name.upper()])
    ml = os.path.join(ex, 'ex_%s.ml' % name)
    if ok and not os.path.exists(ml):
        # .vo is current but its side effect (the .ml) is gone (fresh build dir): force the extraction to run again
        vo = os.path.join(COQ, 'NV', 'Extract', 'Ex%s.vo' % name.upper())
        if os.path.exists(vo):
            os.unlink(vo)
        ok, log = coq_make(['NV/Extract/Ex%s.vo' % name.upper()])
    if not ok or not os.path.exists(ml):
        raise RuntimeError('extraction of %s failed:\n%s' % (name, log[-3000:]))
    drv = os.path.join(ex, 'drv_%s.ml' % name)
    text = ('type ostring = string\nopen Ex_%s\n' % name) + open(os.path.join(VERIF, 'extract', 'nvio.ml')).read() + '\n' + \
        (open(os.path.join(VERIF, 'extract', 'nvio_z.ml')).read() if re.search(r'^type z =', open(ml).read(), re.M) else '') + '\n' + \
        open(os.path.join(VERIF, 'extract', '%s_driver.ml' % name)).read()
    out = os.path.join(BUILD, 'nvref_%s' % name)
    key = hashlib.sha256((text + open(ml).read()).encode()).hexdigest()
    kf = out + '.key'
    if os.path.exists(out) and os.path.exists(kf) and open(kf).read() == key:
        return out
    open(drv, 'w').write(text)
    rc, o, e = sh(['ocamlfind', 'ocamlopt', '-O3', '-w', '-a', '-I', ex, 'ex_%s.mli' % name, 'ex_%s.ml' % name,
                   'drv_%s.ml' % name, '-o', out], cwd=ex, timeout=600)
    if rc != 0:
        rc, o, e = sh(['ocamlfind', 'ocamlopt', '-w', '-a', '-I', ex, 'ex_%s.mli' % name, 'ex_%s.ml' % name,
                       'drv_%s.ml' % name, '-o', out], cwd=ex, timeout=600)
    if rc != 0:
        raise RuntimeError('ocaml build of nvref_%s failed:\n%s' % (name, (o + e)[-3000:]))
    open(kf, 'w').write(key)
    return out


def run_lines(binary, lines, timeout=600, env=None):
    """Feed lines to a line-protocol process; return its output lines."""
    rc, o, e = sh([binary] if isinstance(binary, str) else binary, timeout=timeout, input=('\n'.join(lines) + '\n').encode(), env=env)
    if rc != 0:
        raise RuntimeError('%s exited %s: %s' % (binary, rc, e[-2000:]))
    return o.splitlines()


# ----------------------------------------------------------------------------------------- Check

def _strip_coq_comments(t):
    out, depth, i, instr = [], 0, 0, False
    while i < len(t):
        if not instr and t.startswith('(*', i):
            depth += 1; i += 2; continue
        if not instr and depth and t.startswith('*)', i):
            depth -= 1; i += 2; continue
        c = t[i]
        if depth == 0:
            if c == '"':
                instr = not instr
            out.append(c)
        elif c == '\n':
            out.append(c)
        i += 1
    return ''.join(out)


def hygiene():
    """Scan every .v of the development (the copied NanoCore files included) for what the brief forbids: declared axioms,
    unfinished proofs, switched-off kernel checks, section-less Variable/Hypothesis.  Returns a list of 'file:line: text'."""
    bad = []
    root = os.path.join(COQ, 'NV')
    for dp, _, fs in os.walk(root):
        for f in fs:
            if not f.endswith('.v'):
                continue
            path = os.path.join(dp, f)
            t = _strip_coq_comments(open(path, encoding='utf-8', errors='replace').read())
            depth = 0
            for ln, line in enumerate(t.split('\n'), 1):
                s = line.strip()
                if re.match(r'Section\s+\w+\s*\.', s):
                    depth += 1
                elif re.match(r'End\s+\w+\s*\.', s) and depth > 0:
                    depth -= 1        # (Module ... End pairs never nest inside our sections)
                if re.search(r'(^|\s)(Axiom|Axioms|Parameter|Parameters|Conjecture|Admitted\s*\.|Admit\s+Obligations|Abort\s*\.)(\s|$)', s) \
                        or re.search(r'(^|[\s;\[(])(admit|give_up)\s*[.;\]|)]', s) \
                        or re.search(r'Unset\s+(Guard Checking|Positivity Checking|Universe Checking)|bypass_check|Type In Type|type-in-type|impredicative-set', s) \
                        or (depth == 0 and re.match(r'(Local\s+|Global\s+)?(Variable|Variables|Hypothesis|Hypotheses|Context)\b', s)):
                    bad.append('%s:%d: %s' % (os.path.relpath(path, COQ), ln, s[:120]))
    return bad


class Check:
    def __init__(self, pid, tier='quick', seed=None, replay=None):
        self.pid = pid
        self.tier = tier
        self.seed = int(seed if seed is not None else os.environ.get('VERIF_SEED', '1'))
        self.rng = random.Random(self.seed * 1000003 + int(pid[1:]))
        self.t0 = time.time()
        self.failures = []          # dict(key, what, replay)
        self.proof = dict(obligations=0, discharged=0, names=[], broken=[], assumptions={}, log='')
        self.cov = dict(evaluations=0, distinct_nontrivial=0, rule='', samples=[])
        self.extra = {}
        self.assumptions = []
        self.trusted = []
        self.notes = []
        self.replay_path = replay
        self._distinct = set()
        kf = os.path.join(VERIF, 'known_findings.json')
        allk = json.load(open(kf)) if os.path.exists(kf) else []
        for extra in sorted(glob.glob(os.path.join(VERIF, 'known_findings.d', '*.json'))):
            allk += json.load(open(extra))
        self.known = [k for k in allk if (k.get('property') == pid or pid in k.get('properties', [])) and k.get('status') == 'open']
        self.fixed = [k for k in allk if (k.get('property') == pid or pid in k.get('properties', [])) and k.get('status') == 'fixed']
        self.known_seen = {}
        self._builds = {}

    @property
    def thorough(self):
        return self.tier == 'thorough'

    # -- builds
    def build(self, variant='plain'):
        if variant not in self._builds:
            with Lock():
                self._builds[variant] = build_repo.build(variant)
        return self._builds[variant]

    def gen(self, only=None):
        with Lock():
            return gen_all.gen_all(self.build('plain'), only)

    def nvref(self, name):
        with Lock():
            return build_nvref(name)

    def probe(self, src, variant='plain', extra=()):
        b = self.build(variant)
        with Lock():
            return b.link_probe(os.path.join(VERIF, 'probes', src), extra=extra)

    # -- proofs
    def prove(self, extra_targets=()):
        """Compile Props/Properties_<pid>.v (and everything it depends on); account obligations per theorem."""
        pid = self.pid
        thms = theorems_of(pid)
        self.proof['obligations'] = len(thms)
        self.proof['names'] = [n for n, _, _ in thms]
        with Lock():
            ok, log = coq_make(['NV/Props/Properties_%s.vo' % pid] + list(extra_targets))
            self.proof['log'] = log[-6000:]
            hy = hygiene()
            if hy:
                self.proof['broken'] += ['hygiene: ' + h for h in hy[:5]]
            if ok:
                self.proof['discharged'] = len(thms)
                ok2, ass = print_assumptions(pid, [n for n, k, _ in thms])
                self.proof['assumptions'] = ass
                if not ok2:
                    self.proof['broken'].append('Print Assumptions run failed')
            else:
                # which obligations still check?  a failure inside the property file: theorems before the error line;
                # a failure in a dependency: none of them is established.
                m = re.search(r'File "\./NV/Props/Properties_%s\.v", line (\d+)' % pid, log)
                if m:
                    ln = int(m.group(1))
                    nxt = [l for _, _, l in thms if l > ln]
                    self.proof['discharged'] = sum(1 for _, _, l in thms if l <= ln) - 1
                    bad = [n for n, _, l in thms if l <= ln][-1:] or ['?']
                    self.proof['broken'] = bad
                else:
                    m2 = re.findall(r'File "\./(NV/[^"]+)", line (\d+)', log)
                    self.proof['discharged'] = 0
                    self.proof['broken'] = ['dependency %s line %s' % (f, l) for f, l in m2[:3]] or ['build failed']
        return not self.proof['broken'] and self.proof['discharged'] == self.proof['obligations']

    def axioms_used(self):
        ax = set()
        for n, lines in self.proof['assumptions'].items():
            for l in lines:
                if 'Closed under the global context' in l or l.startswith('Axioms:') or l.startswith(' ') and ':' not in l:
                    continue
                m = re.match(r'^([A-Za-z0-9_.\']+)\s*:', l)
                if m:
                    ax.add(m.group(1))
        return sorted(ax)

    # -- coverage accounting
    def count(self, case_key=None, nontrivial=True, n=1):
        self.cov['evaluations'] += n
        if case_key is not None and nontrivial:
            h = hashlib.blake2b(repr(case_key).encode(), digest_size=8).digest()
            if h not in self._distinct:
                self._distinct.add(h)
                self.cov['distinct_nontrivial'] += 1

    def sample(self, x, limit=8):
        if len(self.cov['samples']) < limit:
            self.cov['samples'].append(x)

    # -- verdicts
    def fail(self, key, what, replay, tie=False):
        """Record a failing input.  key identifies the input (matched against known_findings.json).
        tie=True: only the model/implementation correspondence broke on this input (no property failure shown): such records
        are reported together as ONE violation ending in no-failing-input-found unless a property-level failing input exists."""
        if any(f['key'] == key for f in self.failures):
            return
        self.failures.append(dict(key=key, what=what, replay=replay, tie=tie))

    def note(self, s):
        self.notes.append(s)
        print('[%s] %s' % (self.pid, s), flush=True)

    def finish(self, level='proof', checker_cmd=None):
        pid = self.pid
        wall = time.time() - self.t0
        os.makedirs(os.path.join(VERIF, 'replays'), exist_ok=True)
        known_keys = {k['key']: k for k in self.known}
        violations = 0
        lines = []
        reported_known = set()
        ties = [f for f in self.failures if f.get('tie') and f['key'] not in known_keys]
        for f in self.failures:
            if f['key'] in known_keys:
                if f['key'] not in reported_known:
                    reported_known.add(f['key'])
                    lines.append('KNOWN-FINDING: property=%s %s [%s]' % (pid, known_keys[f['key']].get('what', f['what']), f['key']))
                continue
            if f.get('tie'):
                continue
            violations += 1
            if ties:
                f['replay'] = dict(f['replay'], correspondences_also_broken=[t['what'][:200] for t in ties[:10]])
            rp = self._write_replay(dict(property=pid, kind='failing-input', key=f['key'], what=f['what'],
                                          seed=self.seed, tier=self.tier, **f['replay']))
            lines.append('VIOLATION property=%s replay=%s' % (pid, rp))
        for k in self.known:
            if k['key'] not in reported_known:
                print('[%s] note: known finding %s did not reproduce on this tree (not a violation)' % (pid, k['key']))
        if ties and violations == 0:
            violations += 1
            rp = self._write_replay(dict(property=pid, kind='no-failing-input-found', seed=self.seed, tier=self.tier,
                                          theorem_or_correspondence=[t['what'][:300] for t in ties[:20]],
                                          first_inputs_where_model_and_implementation_differ=[t['replay'] for t in ties[:3]],
                                          searched='%d evaluations on this run: the property itself held on the implementation for every one of them' % self.cov['evaluations']))
            lines.append('VIOLATION property=%s replay=%s no-failing-input-found' % (pid, rp))
        proof_broken = self.proof['obligations'] > 0 and (self.proof['broken'] or self.proof['discharged'] != self.proof['obligations'])
        if proof_broken and violations == 0:
            violations += 1
            rp = self._write_replay(dict(property=pid, kind='no-failing-input-found', seed=self.seed, tier=self.tier,
                                          theorem_or_correspondence=self.proof['broken'],
                                          coq_log_tail=self.proof['log'][-3000:],
                                          searched='%d correspondence evaluations on this run found no failing input' % self.cov['evaluations']))
            lines.append('VIOLATION property=%s replay=%s no-failing-input-found' % (pid, rp))
        ax = self.axioms_used()
        cov = dict(self.cov)
        cov.update(self.extra)
        if self.proof['obligations'] > 0:
            cov.update(obligations=self.proof['obligations'], discharged=max(0, self.proof['discharged']),
                       checker_cmd=checker_cmd or ('cd /verif/coq && coq_makefile -f _CoqProject -o Makefile && make -k -j16 NV/Props/Properties_%s.vo '
                                                   '(coqc 8.16.1 kernel; vm_compute used; no native_compute)' % pid),
                       theorems=self.proof['names'],
                       axioms_reported_by_Print_Assumptions=ax or ['none: every theorem "Closed under the global context"'],
                       trusted_base=['Coq 8.16.1 kernel + vm_compute'] + self.trusted)
        else:
            cov.setdefault('trusted_base', self.trusted)
        # keys the evidence schema types: keep the builders' richer values under a *_detail name
        typed = dict(evaluations=int, distinct_nontrivial=int, states=int, transitions=int, traces_validated_against_impl=int,
                     obligations=int, discharged=int, programs=int, disagreements_checked=int, rule=str, checker_cmd=str,
                     explanation=str, samples=list, trusted_base=list, exhaustive=bool)
        for k, t in typed.items():
            if k in cov and not (isinstance(cov[k], t) and not (t is int and isinstance(cov[k], bool))):
                v = cov.pop(k)
                cov[k + '_detail'] = v
                if t is int and isinstance(v, (list, dict)):
                    cov[k] = len(v)
                elif t is bool:
                    cov[k] = False
        if not cov.get('samples'):
            cov['samples'] = ['(no sample recorded)']
        cov['known_findings_reported'] = sorted(reported_known)
        if self.notes:
            cov['notes'] = self.notes[:40]
        ev = dict(property_id=pid, tier=self.tier, seed=self.seed, level=level, coverage=cov,
                  assumptions=self.assumptions, wall_s=round(wall, 2), violations=violations)
        os.makedirs(os.path.join(VERIF, 'evidence'), exist_ok=True)
        tmp = os.path.join(VERIF, 'evidence', '.%s.tmp' % pid)
        json.dump(ev, open(tmp, 'w'), indent=1, default=str)
        os.replace(tmp, os.path.join(VERIF, 'evidence', '%s.json' % pid))
        for l in lines:
            print(l, flush=True)
        print('[%s] tier=%s seed=%d obligations=%d discharged=%d evaluations=%d distinct=%d violations=%d known=%d wall=%.1fs' % (
            pid, self.tier, self.seed, self.proof['obligations'], self.proof['discharged'], self.cov['evaluations'],
            self.cov['distinct_nontrivial'], violations, len(reported_known), wall), flush=True)
        return 1 if violations else 0

    def _write_replay(self, d):
        h = hashlib.sha256(json.dumps(d, sort_keys=True, default=str).encode()).hexdigest()[:12]
        p = os.path.join(VERIF, 'replays', '%s-%s.json' % (self.pid, h))
        json.dump(d, open(p, 'w'), indent=1, default=str)
        return p
