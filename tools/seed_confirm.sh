#!/bin/bash
# seed_confirm.sh <worktree>: confirm a seeded change: suite passes with it, demo fails with it and passes without it.
set -u
D=$1; cd "$D" || exit 2
echo "== with change: test suite"; timeout 900 make -f Makefile.gnu test-nanovirt 2>&1 | tail -1
{ timeout 1500 make -f Makefile.gnu -j8 >/dev/null 2>&1; timeout 900 make -f Makefile.gnu vm >/dev/null 2>&1; }
echo "== with change: demo"; timeout 900 bash SEEDED/demo.sh > /tmp/seed_demo_with.$$ 2>&1; RW=$?; tail -2 /tmp/seed_demo_with.$$; echo "demo exit with change: $RW"
git apply -R SEEDED/patch.diff || { echo "cannot reverse patch"; exit 2; }
{ timeout 1500 make -f Makefile.gnu -j8 >/dev/null 2>&1; timeout 900 make -f Makefile.gnu vm >/dev/null 2>&1; }
echo "== without change: demo"; timeout 900 bash SEEDED/demo.sh > /tmp/seed_demo_wo.$$ 2>&1; RO=$?; tail -2 /tmp/seed_demo_wo.$$; echo "demo exit without change: $RO"
git apply SEEDED/patch.diff
{ timeout 1500 make -f Makefile.gnu -j8 >/dev/null 2>&1; timeout 900 make -f Makefile.gnu vm >/dev/null 2>&1; }
rm -f /tmp/seed_demo_with.$$ /tmp/seed_demo_wo.$$
if [ $RW -ne 0 ] && [ $RO -eq 0 ]; then echo "CONFIRMED"; else echo "NOT CONFIRMED"; fi
