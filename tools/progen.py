"""Type-directed generator of core-language programs (fragment CoreS + string literals for printing).

A program is a nested tuple AST mirroring coq/NV/Lang/Ast.v:
  expr: ('num', z) ('bool', b) ('str', bytes) ('var', n) ('un', op, e) ('bin', op, a, b) ('call', f, [e..]) ('cond', c, a, b)
        ('arr', [e..]) ('at', a, i) ('len', a)          -- immutable arrays of ints, type 'arr' (array<int>)
        ('s1', 'len'|'ofint', a) ('s2', 'plus'|'concat'|'equals'|'contains'|'charat', a, b) ('substr', s, start, len)
                                                        -- string builtins, type 'str' (string)
  stmt: ('skip',) ('seq', s1, s2) ('let', mut, x, ty, e) ('set', x, e) ('if', c, s1, s2) ('while', c, s)
        ('for', x, lo, hi, s) ('break',) ('continue',) ('ret', e|None) ('print', nl, e) ('assert', e) ('expr', e)
  fn:   dict(name=n, params=[(x, ty)], ret=ty, body=stmt, shadow=[stmt...])
  prog: dict(globals=[(x, ty, e)], fns=[fn...], main=0)
Names are numbers: variable n -> "v<n>", function n -> "f<n>" (0 = main), all distinct.
Rendering: to_nano(prog, style) with style in prefix|infix|mixed; to_sexp(prog) for the extracted models.
Programs terminate by construction (counter-driven while, constant range bounds, calls only to lower-numbered
functions or a structurally decreasing recursion template) and perform no partial operation unless asked.
All randomness comes from the rng passed in."""
import random

INT64_MAX = 2**63 - 1
INT64_MIN = -2**63
BOUNDARY = [0, 1, -1, 2, -2, 7, -7, INT64_MAX, INT64_MAX - 1, INT64_MIN + 1, 2**31, -2**31, 2**32, -2**32, 255, 256]
ARITH = ['add', 'sub', 'mul', 'div', 'mod']
CMP = ['eq', 'ne', 'lt', 'le', 'gt', 'ge']
OPSYM = dict(add='+', sub='-', mul='*', div='/', mod='%', eq='==', ne='!=', lt='<', le='<=', gt='>', ge='>=', **{'and': 'and', 'or': 'or'})


class Cfg:
    def __init__(self, **kw):
        self.max_fns = 4
        self.max_stmts = 6
        self.max_depth = 3
        self.expr_depth = 3
        self.effects_in_operands = True      # calls to printing functions inside operands / arguments
        self.shortcircuit_effect = True      # effectful right operand of and/or
        self.continue_in_for = True
        self.block_shadow = True             # inner let shadowing an outer name, outer read again after the block
        self.multi_effect_args = True        # two or more effectful arguments in one call / operands of one operator
        self.boundary_ints = True
        self.negative_divmod = True
        self.strings = True                  # string literals passed to print/println
        self.question_marks = False          # '?' in string literals (C trigraphs ??! ??/ ...)
        self.escapes = True                  # backslash escapes inside string literals
        self.globals = True
        self.recursion = True
        self.cond_expr = True
        self.asserts = True                  # assert statements that hold
        self.void_fns = True
        self.shadow_global = True            # a local named like a global
        self.shadow_other_type = False       # inner let re-using an outer name at a different type
        self.same_scope_redeclare = False    # a second let of a name already declared in the SAME block
        self.shadow_same_mut = True          # a shadowing let keeps the mutability of the shadowed variable
        self.self_ref_shadow = True          # shadowing let whose initialiser reads the shadowed variable
        self.arrays = False                  # array<int> values: literals, (at a i), (array_length a), lets/params/returns/globals
        self.oob = False                     # deliberately out-of-range (at a i) now and then (the run ends in the trap)
        self.at_on_call = False              # (at (f ..) i): array operand that is neither a variable nor a literal
        self.for_bound_mutated = False       # a for loop whose body assigns a variable its range bound reads
        self.literal_first_effect = True     # a call as FIRST element of an array literal (the compile-time evaluator evaluates it twice)
        self.substr_past_end = True          # str_substring with start at / beyond the end of the string or on a string of unknown length
                                             # (the compile-time evaluator yields void there: C03/C06 streams switch it off)
        self.str_self_assign = True          # `set s e` where e yields the string variable s itself (s, or a cond with s as a branch):
                                             # the compile-time evaluator frees the value it then stores (C03/C06 streams switch it off)
        self.strops = False                  # strings as computed values: + / str_concat / str_length / str_equals / str_contains /
                                             # char_at / str_substring / int_to_string; lets/params/returns/globals of type string
        self.reuse_names_across_fns = False  # locals / parameters / loop variables of a function re-use names that EARLIER functions bound
                                             # (with another mutability or type where possible); scoping is per function, so this is well-typed
        self.__dict__.update(kw)


class Gen:
    def __init__(self, rng, cfg=None):
        self.r = rng
        self.c = cfg or Cfg()
        self.next_name = 1
        self.feat = {}

    def f(self, k):
        self.feat[k] = self.feat.get(k, 0) + 1

    def fresh(self):
        n = self.next_name
        self.next_name += 1
        return n

    def fresh_var(self, ty=None, mut=None):
        """name for a new local binding: fresh, or (Cfg.reuse_names_across_fns) a name that an EARLIER function bound and that is bound
        nowhere in the current function and is no global -- preferring one whose earlier binding had another mutability / type.
        With the flag off no random number is drawn, so the stream of every other consumer is unchanged."""
        if self.c.reuse_names_across_fns and getattr(self, 'prev_decls', None) and self.r.random() < 0.6:
            cur = getattr(self, 'cur_names', set())
            cand = [d for d in self.prev_decls if d[0] not in cur and d[0] not in getattr(self, 'global_names', ())]
            if cand:
                diff = [d for d in cand if (mut is not None and d[2] != mut) or (ty is not None and d[1] != ty)]
                x = self.r.choice(diff or cand)[0]
                self.f('name_reuse_across_fns')
                self.cur_names.add(x)
                return x
        x = self.fresh()
        if self.c.reuse_names_across_fns:
            self.__dict__.setdefault('cur_names', set()).add(x)
        return x

    def note_decl(self, x, ty, mut):
        """remember what the current function bound (only used by reuse_names_across_fns)"""
        if not self.c.reuse_names_across_fns:
            return
        for (y, t, m) in getattr(self, 'prev_decls', []):
            if y == x:
                if m != mut:
                    self.f('name_reuse_other_mutability' + ('_now_immutable' if m else '_now_mutable'))
                if t != ty:
                    self.f('name_reuse_other_type')
                break
        self.__dict__.setdefault('cur_decls', []).append((x, ty, mut))

    def begin_fn(self):
        self.cur_names = set()
        self.cur_decls = []

    def end_fn(self):
        if self.c.reuse_names_across_fns:
            self.prev_decls = getattr(self, 'prev_decls', []) + self.cur_decls

    # ---------------------------------------------------------------- expressions
    def lit(self, ty):
        r = self.r
        if ty == 'int':
            if self.c.boundary_ints and r.random() < 0.25:
                self.f('boundary_literal')
                return ('num', r.choice(BOUNDARY))
            return ('num', r.randrange(-20, 100))
        if ty == 'arr':
            return ('arr', [('num', r.randrange(-9, 100)) for _ in range(r.randrange(1, 5))])
        if ty == 'str':
            return self.str_lit()
        return ('bool', r.random() < 0.5)

    def gen_expr(self, ty, depth, sc, pure=False):
        r = self.r
        newest = {}
        for (x, t, m) in sc['vars']:
            newest[x] = t
        vars_ = [x for x, t in newest.items() if t == ty]
        if depth <= 0 or r.random() < 0.2:
            if vars_ and r.random() < 0.65:
                return ('var', r.choice(vars_))
            return self.lit(ty)
        if ty == 'int' and self.c.arrays and r.random() < 0.16:
            return self.gen_array_use(depth, sc, pure)
        if ty == 'str':
            return self.gen_str(depth, sc, pure)
        if self.c.strops and ty in ('int', 'bool') and r.random() < 0.14:
            return self.gen_str_use(ty, depth, sc, pure)
        k = r.random()
        callable_ = [f for f in sc['fns'] if f['ret'] == ty and (not pure or not f['effect'])]
        if callable_ and k < 0.22 and (self.c.effects_in_operands or not sc.get('in_operand')):
            f = r.choice(callable_)
            return self.gen_call(f, depth, sc, pure)
        if ty == 'arr':
            if k < 0.7:
                return self.gen_arr_literal(depth, sc, pure)
            if self.c.cond_expr and k < 0.85:
                self.f('cond_arr')
                return ('cond', self.gen_expr('bool', depth - 1, sc, pure), self.gen_expr('arr', depth - 1, sc, pure),
                        self.gen_expr('arr', depth - 1, sc, pure))
            if vars_:
                return ('var', r.choice(vars_))
            return self.gen_arr_literal(depth, sc, pure)
        if ty == 'int':
            if k < 0.75:
                op = r.choice(ARITH)
                sub = dict(sc, in_operand=True)
                a = self.gen_expr('int', depth - 1, sub, pure)
                if op in ('div', 'mod'):
                    # divisor: a non-zero literal other than -1, or x*x+1 (never 0 or -1 modulo 2^64)
                    if r.random() < 0.7:
                        d = r.choice([2, 3, 7, 10, -2, -3, -7, 256, INT64_MAX]) if self.c.negative_divmod else r.choice([2, 3, 7, 10, 256])
                        b = ('num', d)
                    else:
                        x = self.gen_expr('int', 0, sub, True)
                        b = ('bin', 'add', ('bin', 'mul', x, x), ('num', 1))
                    if self.c.negative_divmod:
                        self.f('divmod')
                else:
                    b = self.gen_expr('int', depth - 1, sub, pure or (not self.c.multi_effect_args and has_effect(a, sc['fns_by_name'])))
                if has_effect(a, sc['fns_by_name']) and has_effect(b, sc['fns_by_name']):
                    self.f('multi_effect_operands')
                return ('bin', op, a, b)
            if k < 0.82:
                return ('un', 'neg', self.gen_expr('int', depth - 1, dict(sc, in_operand=True), pure))
            if self.c.cond_expr:
                self.f('cond_expr')
                return ('cond', self.gen_expr('bool', depth - 1, sc, pure), self.gen_expr('int', depth - 1, sc, pure),
                        self.gen_expr('int', depth - 1, sc, pure))
            return self.lit('int')
        # bool
        if k < 0.55:
            op = r.choice(CMP)
            sub = dict(sc, in_operand=True)
            if op in ('eq', 'ne') and r.random() < 0.3:
                return ('bin', op, self.gen_expr('bool', depth - 1, sub, pure), self.gen_expr('bool', depth - 1, sub, True))
            a = self.gen_expr('int', depth - 1, sub, pure)
            b = self.gen_expr('int', depth - 1, sub, pure or (not self.c.multi_effect_args and has_effect(a, sc['fns_by_name'])))
            return ('bin', op, a, b)
        if k < 0.85:
            op = r.choice(['and', 'or'])
            sub = dict(sc, in_operand=True)
            a = self.gen_expr('bool', depth - 1, sub, pure)
            b = self.gen_expr('bool', depth - 1, sub, pure or not self.c.shortcircuit_effect)
            if has_effect(b, sc['fns_by_name']):
                self.f('shortcircuit_effect_rhs')
            return ('bin', op, a, b)
        return ('un', 'not', self.gen_expr('bool', depth - 1, dict(sc, in_operand=True), pure))

    def gen_call(self, f, depth, sc, pure=False):
        eff_args = 0
        args = []
        for (_, pt) in f['params']:
            sub = dict(sc, in_operand=True)
            a = self.gen_expr(pt, depth - 1, sub, pure=pure or (not self.c.multi_effect_args and eff_args >= 1))
            if has_effect(a, sc['fns_by_name']):
                eff_args += 1
            args.append(a)
        if eff_args >= 2:
            self.f('multi_effect_args')
        if f['effect'] and sc.get('in_operand'):
            self.f('effect_in_operand')
        return ('call', f['name'], args)

    # ---------------------------------------------------------------- strings
    def str_lit(self):
        """a string literal: mostly short, now and then empty / one character / 300 characters; escapes only with Cfg.escapes"""
        r = self.r
        k = r.random()
        if k < 0.12:
            self.f('str_empty'); return ('str', b'')
        if k < 0.22:
            self.f('str_one_char'); return ('str', r.choice(b'aZ09 _').to_bytes(1, 'big'))
        if k < 0.27:
            self.f('str_300'); return ('str', (b'abcdefghij' * 30))
        return ('str', self.gen_string())

    def str_value_len(self, e):
        """length of the value of a literal without escapes, else None"""
        if e[0] == 'str' and b'\\' not in e[1]:
            return len(e[1])
        return None

    def effect_budget(self, args_so_far, sc, pure):
        """operands of one builtin call: with multi_effect_args off at most one of them has an effect"""
        return pure or (not self.c.multi_effect_args and any(has_effect(a, sc['fns_by_name']) for a in args_so_far))

    def note_multi(self, args, sc):
        if sum(1 for a in args if has_effect(a, sc['fns_by_name'])) >= 2:
            self.f('multi_effect_args')

    def gen_str_small(self, depth, sc, pure):
        """a string of bounded length (literal, int_to_string, a substring of at most 40 bytes): the right operand of every
        concatenation, so that strings grow by a bounded amount per evaluation"""
        r = self.r
        k = r.random()
        sub = dict(sc, in_operand=True)
        if k < 0.5 or depth <= 0:
            return self.str_lit()
        if k < 0.75:
            self.f('int_to_string')
            return ('s1', 'ofint', self.gen_expr('int', depth - 1, sub, pure))
        self.f('str_substring')
        a = self.gen_str(depth - 1, sub, pure)
        if not self.c.substr_past_end:
            return self.substr_inside(a)
        return ('substr', a, ('num', r.randrange(0, 6)), ('num', r.randrange(0, 41)))

    def substr_inside(self, a):
        """str_substring with 0 <= start < length (only on a literal, whose length is known); otherwise the string itself"""
        n = self.str_value_len(a)
        if not n:
            return a
        return ('substr', a, ('num', self.r.choice([0, n - 1, n // 2])), ('num', self.r.choice([0, 1, 2, n, n + 1, 300, 4294967295])))

    def gen_str(self, depth, sc, pure=False):
        r = self.r
        newest = {}
        for (x, t, m) in sc['vars']:
            newest[x] = t
        vars_ = [x for x, t in newest.items() if t == 'str']
        if depth <= 0 or r.random() < 0.25:
            if vars_ and r.random() < 0.6:
                return ('var', r.choice(vars_))
            return self.str_lit()
        k = r.random()
        sub = dict(sc, in_operand=True)
        callable_ = [f for f in sc['fns'] if f['ret'] == 'str' and (not pure or not f['effect'])]
        if callable_ and k < 0.18 and (self.c.effects_in_operands or not sc.get('in_operand')):
            return self.gen_call(r.choice(callable_), depth, sc, pure)
        if k < 0.5:
            op = r.choice(['plus', 'plus', 'concat'])
            a = self.gen_str(depth - 1, sub, pure)
            b = self.gen_str_small(depth - 1, sub, self.effect_budget([a], sc, pure))
            self.note_multi([a, b], sc)
            self.f('str_' + op)
            return ('s2', op, a, b)
        if k < 0.68:
            # str_substring: start and length anywhere in the common domain (0 .. 2^32-1): inside, at the end, beyond it
            a = self.gen_str(depth - 1, sub, pure)
            n = self.str_value_len(a)
            if not self.c.substr_past_end:
                self.f('str_substring')
                return self.substr_inside(a)
            starts = [0, 0, 1, 2, 5] + ([n - 1, n, n + 1] if n is not None and n >= 1 else []) + [299, 300, 4294967295]
            lens = [0, 1, 2, 3, 7, 40, 300, 301, 4294967295] + ([n, n + 1] if n is not None else [])
            st = ('num', r.choice(starts)) if r.random() < 0.8 else ('s1', 'len', self.gen_str(0, sub, True))
            ln = ('num', r.choice(lens)) if r.random() < 0.8 else self.gen_expr('int', 0, sub, True)
            if ln[0] != 'num' or not 0 <= ln[1] <= 4294967295:
                # a computed length must not be negative: x*x mod 7 (0..6) -- both engines agree on % of a non-negative number
                ln = ('bin', 'mod', ('bin', 'mul', ln, ln), ('num', 7)) if ln[0] == 'var' else ('num', 3)
            self.f('str_substring')
            return ('substr', a, st, ln)
        if k < 0.8:
            self.f('int_to_string')
            return ('s1', 'ofint', self.gen_expr('int', depth - 1, sub, pure))
        if self.c.cond_expr and k < 0.92:
            self.f('cond_str')
            return ('cond', self.gen_expr('bool', depth - 1, sc, pure), self.gen_str(depth - 1, sc, pure), self.gen_str(depth - 1, sc, pure))
        if vars_:
            return ('var', r.choice(vars_))
        return self.str_lit()

    def gen_str_use(self, ty, depth, sc, pure=False):
        """an int or a bool computed from strings"""
        r = self.r
        sub = dict(sc, in_operand=True)
        if ty == 'bool':
            op = r.choice(['equals', 'contains', 'contains', 'eq', 'ne'])
            a = self.gen_str(depth - 1, sub, pure)
            if op in ('eq', 'ne'):
                # == / != on strings are strcmp calls in native code (operands right to left), EBin in the models: one effect at most
                b = self.gen_str(depth - 1, sub, pure or has_effect(a, sc['fns_by_name']))
                self.f('str_eq_operator')
                return ('bin', op, a, b)
            if op == 'contains' and r.random() < 0.4:
                # a needle that IS inside: a substring of the haystack's own value when it is a known literal
                n = self.str_value_len(a)
                if n:
                    i = r.randrange(n); j = r.randrange(i, n + 1)
                    self.f('str_contains_hit')
                    return ('s2', 'contains', a, ('str', a[1][i:j]))
            b = self.gen_str(depth - 1, sub, self.effect_budget([a], sc, pure))
            self.note_multi([a, b], sc)
            self.f('str_' + op)
            return ('s2', op, a, b)
        if r.random() < 0.45:
            self.f('str_length')
            return ('s1', 'len', self.gen_str(depth - 1, sub, pure))
        # char_at: index inside 0 <= i < length -- a literal with a known length, or a guarded access
        a = self.gen_str(depth - 1, sub, pure)
        n = self.str_value_len(a)
        self.f('char_at')
        if n:
            return ('s2', 'charat', a, ('num', r.choice([0, n - 1, n // 2, r.randrange(n)])))
        if a[0] == 'var':
            K = r.choice([0, 0, 1, 2, 7])
            self.f('guarded_char_at')
            return ('cond', ('bin', 'lt', ('num', K), ('s1', 'len', a)), ('s2', 'charat', a, ('num', K)), self.lit('int'))
        return ('s1', 'len', a)

    # ---------------------------------------------------------------- arrays
    def gen_arr_literal(self, depth, sc, pure=False, n=None):
        r = self.r
        n = r.randrange(1, 5) if n is None else n
        es, eff = [], 0
        for k in range(n):
            e = self.gen_expr('int', max(depth - 1, 0), dict(sc, in_operand=True),
                              pure=pure or (not self.c.multi_effect_args and eff >= 1) or (k == 0 and not self.c.literal_first_effect))
            if k == 0 and calls_any(e) and not self.c.literal_first_effect:
                e = self.gen_expr('int', 0, dict(sc, in_operand=True), True)       # a variable or a literal
            if k == 0 and calls_any(e):
                self.f('literal_first_call')
            if has_effect(e, sc['fns_by_name']):
                eff += 1
            es.append(e)
        if eff >= 2:
            self.f('multi_effect_args')
        self.f('arr_literal')
        return ('arr', es)

    def gen_array_use(self, depth, sc, pure=False):
        """an int made from an array: (array_length a) or (at a i), the index in range unless cfg.oob strikes"""
        r = self.r
        newest = {}
        for (x, t, m) in sc['vars']:
            newest[x] = t
        avars = [x for x, t in newest.items() if t == 'arr']
        alen = sc.get('alen', {})
        if r.random() < 0.3:
            self.f('array_length')
            return ('len', self.gen_expr('arr', depth - 1, dict(sc, in_operand=True), pure))
        # the array operand of at: a variable or a non-empty literal (what the real checker can type), optionally a call
        k = r.random()
        callable_ = [f for f in sc['fns'] if f['ret'] == 'arr' and (not pure or not f['effect'])]
        if self.c.at_on_call and callable_ and k < 0.2:
            self.f('at_on_call')
            a, n = self.gen_call(r.choice(callable_), depth, sc, pure), None
        elif avars and k < 0.75:
            x = r.choice(avars)
            a, n = ('var', x), alen.get(x)
        else:
            a = self.gen_arr_literal(depth, sc, pure)
            n = len(a[1])
        self.f('at')
        if self.c.oob and r.random() < 0.05 and not (pure and not self.c.multi_effect_args):
            # the trap is an effect: it must not share an argument list with another effect while native code evaluates arguments
            # right to left (has_effect knows the node through TRAP_NODES; a sibling with an effect asks for pure operands)
            self.f('oob')
            e = None
            if n is not None:
                e = ('at', a, ('num', r.choice([n, n + 1, -1, -n - 1, 2**32 + (n - 1 if n else 0), INT64_MAX, INT64_MIN + 1, 2**31])))
            elif a[0] == 'var':
                e = ('at', a, r.choice([('len', a), ('num', -1), ('bin', 'add', ('len', a), ('num', 2**32))]))
            if e is not None:
                TRAP_NODES[id(e)] = e
                return e
        if n is not None and n > 0:
            eff_a = has_effect(a, sc['fns_by_name'])
            if r.random() < 0.7:
                return ('at', a, ('num', r.randrange(0, n)))
            # a computed index that stays in range: (% e n) is in -(n-1) .. n-1, squared-free: ((e % n) + n) % n
            e = self.gen_expr('int', max(depth - 2, 0), dict(sc, in_operand=True), pure=pure or (eff_a and not self.c.multi_effect_args))
            if eff_a and has_effect(e, sc['fns_by_name']):
                self.f('multi_effect_args')
            return ('at', a, ('bin', 'mod', ('bin', 'add', ('bin', 'mod', e, ('num', n)), ('num', n)), ('num', n)))
        if a[0] == 'var':
            # length unknown here: guard the access
            K = r.randrange(0, 4)
            self.f('guarded_at')
            return ('cond', ('bin', 'lt', ('num', K), ('len', a)), ('at', a, ('num', K)), self.lit('int'))
        return ('len', a)

    # ---------------------------------------------------------------- statements
    def seq(self, ss):
        ss = [s for s in ss if s[0] != 'skip']
        if not ss:
            return ('skip',)
        out = ss[-1]
        for s in reversed(ss[:-1]):
            out = ('seq', s, out)
        return out

    def gen_block(self, sc, depth, n, in_loop=None, ret=None):
        """returns stmt; sc is copied so that lets do not leak"""
        sc = dict(sc, vars=list(sc['vars']), declared_here=set(sc.pop('predeclared', ())) if 'predeclared' in sc else set(),
                  alen=dict(sc.get('alen', {})))
        ss = []
        for _ in range(n):
            ss.append(self.gen_stmt(sc, depth, in_loop, ret))
        return self.seq(ss)

    def gen_stmt(self, sc, depth, in_loop, ret):
        r = self.r
        k = r.random()
        ed = self.c.expr_depth
        newest = {}
        for (x, t, m) in sc['vars']:
            newest[x] = (t, m)
        muts = [(x, t) for x, (t, m) in newest.items() if m and x not in sc.get('frozen', ())]
        if k < 0.22:
            ty = r.choice(['int', 'int', 'bool'])
            if self.c.arrays and r.random() < 0.3:
                ty = 'arr'
                self.f('let_arr')
            if self.c.strops and r.random() < 0.25:
                ty = 'str'
                self.f('let_str')
            e = self.gen_expr(ty, ed, sc)
            if ty == 'arr' and r.random() < 0.08:
                e = ('arr', [])          # the empty literal: typed by the annotation of the let
                self.f('empty_literal')
            same = sorted(set(x for (x, t, m) in sc['vars'] if self.c.shadow_other_type or t == ty))
            if not self.c.same_scope_redeclare:
                same = [x for x in same if x not in sc.get('declared_here', ())]
            if self.c.block_shadow and sc.get('depth', 0) > 0 and same and r.random() < 0.4:
                x = r.choice(same)            # shadow an outer variable of the same type inside this block
                self.f('block_shadow')
                if mentions(e, x):
                    if self.c.self_ref_shadow:
                        self.f('self_ref_shadow')
                    else:
                        e = self.lit(ty)
            elif self.c.shadow_global and sc.get('globals') and r.random() < 0.1:
                cand = [g for (g, t) in sc['globals'] if t == ty and (self.c.same_scope_redeclare or g not in sc.get('declared_here', ()))]
                if cand:
                    x = r.choice(cand); self.f('shadow_global')
                    if mentions(e, x) and not self.c.self_ref_shadow:
                        e = self.lit(ty)
                else:
                    x = self.fresh_var(ty)
            else:
                x = self.fresh_var(ty)
            mut = r.random() < 0.5
            if self.c.shadow_same_mut:
                prev = [m for (y, t, m) in sc['vars'] if y == x]
                if prev:
                    mut = prev[-1]       # the type checker never pops block scopes: a later `set` would see this binding
            sc['vars'].append((x, ty, mut))
            self.note_decl(x, ty, mut)
            if self.c.arrays:
                al = sc.setdefault('alen', {})
                if ty == 'arr' and not mut and e[0] == 'arr':
                    al[x] = len(e[1])
                else:
                    al.pop(x, None)
            sc.setdefault('declared_here', set()).add(x)
            if x in sc.get('frozen', ()):
                sc['frozen'] = tuple(y for y in sc['frozen'] if y != x)
            return ('let', mut, x, ty, e)
        if k < 0.34 and muts:
            x, t = r.choice(muts)
            e = self.gen_expr(t, ed, sc)
            if t == 'str' and yields_var(e, x):
                if self.c.str_self_assign:
                    self.f('str_self_assign')
                else:
                    e = ('s2', 'plus', e, ('str', b''))
            return ('set', x, e)
        if k < 0.52:
            e = self.gen_expr(r.choice(['int', 'int', 'bool']), ed, sc)
            if self.c.arrays and r.random() < 0.15:
                e = self.gen_expr('arr', ed, sc)
                self.f('print_arr')
            if self.c.strings and r.random() < 0.2:
                e = ('str', self.gen_string())
            if self.c.strops and r.random() < 0.25:
                e = self.gen_expr('str', ed, sc)
                self.f('print_str')
            return ('print', r.random() < 0.8, e)
        if k < 0.66 and depth > 0:
            c = self.gen_expr('bool', ed, sc)
            sub = dict(sc, depth=sc.get('depth', 0) + 1)
            s1 = self.gen_block(sub, depth - 1, r.randrange(1, 4), in_loop, ret)
            s2 = self.gen_block(sub, depth - 1, r.randrange(0, 3), in_loop, ret) if r.random() < 0.6 else ('skip',)
            if depth > 1 and r.random() < 0.25:
                # an else branch that is exactly one if: rendered as an `else if` chain by some styles
                c2 = self.gen_expr('bool', ed, sc)
                s2 = ('if', c2, self.gen_block(sub, depth - 2, r.randrange(1, 3), in_loop, ret),
                      self.gen_block(sub, depth - 2, r.randrange(0, 2), in_loop, ret) if r.random() < 0.5 else ('skip',))
                self.f('else_if_chain')
            return ('if', c, s1, s2)
        if k < 0.76 and depth > 0:
            # counter-driven while: let mut c = 0  while (< c K) { set c (+ c 1) ... }
            cvar = self.fresh_var('int', True)
            self.note_decl(cvar, 'int', True)
            K = r.randrange(1, 5)
            sub = dict(sc, vars=sc['vars'] + [(cvar, 'int', True)], depth=sc.get('depth', 0) + 1,
                       frozen=tuple(sc.get('frozen', ())) + (cvar,))
            body = self.gen_block(sub, depth - 1, r.randrange(1, 4), 'while', ret)
            inc = ('set', cvar, ('bin', 'add', ('var', cvar), ('num', 1)))
            sc['vars'].append((cvar, 'int', True))
            sc.setdefault('declared_here', set()).add(cvar)
            sc['frozen'] = tuple(sc.get('frozen', ())) + (cvar,)
            self.f('while')
            return ('seq', ('let', True, cvar, 'int', ('num', 0)),
                    ('while', ('bin', 'lt', ('var', cvar), ('num', K)), ('seq', inc, body)))
        if k < 0.84 and depth > 0 and self.c.arrays and r.random() < 0.35:
            # walk an array by index: for i in (range 0 (array_length a)) { (println (at a i)) ... }
            newest = {}
            for (y, t, m) in sc['vars']:
                newest[y] = t
            avars = [y for y, t in newest.items() if t == 'arr']
            pre = []
            if avars and r.random() < 0.7:
                a = r.choice(avars)
            else:
                a = self.fresh_var('arr', False)
                self.note_decl(a, 'arr', False)
                lit = self.gen_arr_literal(2, sc)
                pre = [('let', False, a, 'arr', lit)]
                sc['vars'].append((a, 'arr', False))
                sc.setdefault('alen', {})[a] = len(lit[1])
                sc.setdefault('declared_here', set()).add(a)
            x = self.fresh_var('int', False)
            self.note_decl(x, 'int', False)
            sub = dict(sc, vars=sc['vars'] + [(x, 'int', False)], depth=sc.get('depth', 0) + 1)
            amut = any(m for (y, t, m) in sc['vars'] if y == a)
            if amut and self.c.for_bound_mutated:
                self.f('for_bound_mutated')      # the body may assign the array the bound (array_length a) reads
            else:
                sub['frozen'] = tuple(sc.get('frozen', ())) + (a,)
            body = self.gen_block(sub, depth - 1, r.randrange(0, 3), 'for', ret)
            self.f('for_over_array')
            loop = ('for', x, ('num', 0), ('len', ('var', a)), self.seq([('print', True, ('at', ('var', a), ('var', x))), body]))
            return self.seq(pre + [loop])
        if k < 0.84 and depth > 0:
            x = self.fresh_var('int', False)
            self.note_decl(x, 'int', False)
            lo = r.randrange(-2, 3)
            hi = lo + r.randrange(0, 5)
            sub = dict(sc, vars=sc['vars'] + [(x, 'int', False)], depth=sc.get('depth', 0) + 1)
            body = self.gen_block(sub, depth - 1, r.randrange(1, 4), 'for', ret)
            self.f('for')
            return ('for', x, ('num', lo), ('num', hi), body)
        if k < 0.89 and in_loop:
            if r.random() < 0.5:
                self.f('break')
                return ('if', self.gen_expr('bool', 2, sc), ('break',), ('skip',))
            if in_loop == 'for' and not self.c.continue_in_for:
                return ('skip',)
            self.f('continue_in_' + in_loop)
            return ('if', self.gen_expr('bool', 2, sc), ('continue',), ('skip',))
        if k < 0.93 and self.c.asserts:
            e = self.gen_expr('int', 2, sc, pure=True)
            self.f('assert')
            return ('assert', ('bin', 'eq', e, e))
        if k < 0.97:
            fs = [f for f in sc['fns']]
            if fs:
                f = r.choice(fs)
                return ('expr', self.gen_call(f, ed, sc))
        if ret and depth < self.c.max_depth and r.random() < 0.5:
            self.f('early_return')
            return ('if', self.gen_expr('bool', 2, sc), ('ret', None if ret == 'void' else self.gen_expr(ret, 2, sc)), ('skip',))
        return ('print', True, self.gen_expr('int', ed, sc))

    def gen_string(self):
        """raw source spelling of a string literal (bytes between the quotes)"""
        r = self.r
        n = r.randrange(0, 12)
        atoms = list('abcxyz XYZ019_-+.,:;!') + (['?'] if self.c.question_marks else [])
        if self.c.escapes:
            atoms += ['\\n', '\\t', '\\\\', '\\"', "\\'"] * 2
            self.f('string_escape')
        return ''.join(r.choice(atoms) for _ in range(n)).encode()

    # ---------------------------------------------------------------- functions / program
    def gen_program(self):
        r = self.r
        prog = dict(globals=[], fns=[], main=0)
        sc = dict(vars=[], fns=[], fns_by_name={}, globals=[])
        if self.c.globals:
            for _ in range(r.randrange(0, 3)):
                g = self.fresh()
                ty = r.choice(['int', 'bool'])
                if self.c.arrays and r.random() < 0.3:
                    ty = 'arr'
                if self.c.strops and r.random() < 0.3:
                    ty = 'str'
                e = self.gen_expr(ty, 1, dict(sc, vars=[(x, t, False) for (x, t) in sc['globals']]), pure=True)
                prog['globals'].append((g, ty, e))
                self.__dict__.setdefault('global_names', set()).add(g)
                sc['globals'].append((g, ty))
                self.f('global')
        nf = r.randrange(0, self.c.max_fns + 1)
        for i in range(nf):
            name = self.fresh()
            self.begin_fn()
            kind = r.random()
            params = [(self.fresh_var(None, False), r.choice(['int', 'int', 'bool'])) for _ in range(r.randrange(0, 4))]
            if self.c.arrays:
                params = [(x, 'arr' if r.random() < 0.25 else t) for (x, t) in params]
            if self.c.strops:
                params = [(x, 'str' if r.random() < 0.25 else t) for (x, t) in params]
            if kind < 0.3:
                # effectful function: prints a tag and its first int argument, returns a value
                ret = r.choice(['int', 'bool'])
                if self.c.arrays and r.random() < 0.25:
                    ret = 'arr'
                if self.c.strops and r.random() < 0.25:
                    ret = 'str'
                fsc = dict(sc, vars=[(g, t, False) for (g, t) in sc['globals']] + [(x, t, False) for (x, t) in params])
                body = self.seq([('print', True, ('num', 1000 + name))] +
                                [('print', True, ('var', x)) for (x, t) in params[:1]] +
                                [('ret', self.gen_expr(ret, 2, fsc, pure=True))])
                fd = dict(name=name, params=params, ret=ret, body=body, effect=True)
                self.f('effect_fn')
            elif kind < 0.45 and self.c.recursion:
                # structurally decreasing recursion on the first parameter, clamped
                n = self.fresh_var('int', False)
                params = [(n, 'int')] + params[:1]
                fsc = dict(sc, vars=[(x, t, False) for (x, t) in params])
                rec_args = [('bin', 'sub', ('var', n), ('num', 1))] + [('var', x) for (x, t) in params[1:]]
                base = self.gen_expr('int', 1, fsc, pure=True)
                step = ('bin', r.choice(['add', 'mul', 'sub']), ('call', name, rec_args), self.gen_expr('int', 1, fsc, pure=True))
                body = ('seq', ('if', ('bin', 'le', ('var', n), ('num', 0)), ('ret', base), ('skip',)),
                        ('seq', ('if', ('bin', 'gt', ('var', n), ('num', 12)), ('ret', ('num', -1)), ('skip',)), ('ret', step)))
                fd = dict(name=name, params=params, ret='int', body=body, effect=False, rec=True)
                self.f('recursive_fn')
            else:
                ret = r.choice(['int', 'bool', 'void']) if self.c.void_fns else r.choice(['int', 'bool'])
                if self.c.arrays and r.random() < 0.25:
                    ret = 'arr'
                if self.c.strops and r.random() < 0.25:
                    ret = 'str'
                fsc = dict(sc, vars=[(g, t, False) for (g, t) in sc['globals']] + [(x, t, False) for (x, t) in params])
                stmts = self.gen_block(dict(fsc, predeclared=[x for (x, t) in params]), self.c.max_depth - 1, r.randrange(1, self.c.max_stmts), None, ret)
                # the final return must see only function-level variables: generate it in the function scope
                fin = ('ret', None) if ret == 'void' else ('ret', self.gen_expr(ret, 2, fsc, pure=False))
                body = self.seq([stmts, fin])
                fd = dict(name=name, params=params, ret=ret, body=body, effect=stmt_has_effect(body, sc['fns_by_name']))
            for (x, t) in fd['params']:
                self.note_decl(x, t, False)
            self.end_fn()
            prog['fns'].append(fd)
            sc['fns'] = sc['fns'] + [fd]
            sc['fns_by_name'] = dict(list(sc['fns_by_name'].items()) + [(name, fd)])
        self.begin_fn()
        msc = dict(sc, vars=[(g, t, False) for (g, t) in sc['globals']])
        stmts = self.gen_block(msc, self.c.max_depth, r.randrange(2, self.c.max_stmts + 3), None, 'int')
        body = self.seq([stmts, ('ret', ('num', r.choice([0, 0, 1, 3, 7, 42, 255])))])
        prog['fns'].append(dict(name=0, params=[], ret='int', body=body, effect=True))
        return prog


def yields_var(e, x):
    """is the value of e the value object of variable x itself (no new string is built)?"""
    return e == ('var', x) or (e[0] == 'cond' and (yields_var(e[2], x) or yields_var(e[3], x)))


STR_NODES = ('s1', 's2', 'substr')
STR_BUILTIN = dict(len='str_length', ofint='int_to_string', concat='str_concat', equals='str_equals', contains='str_contains', charat='char_at')


def str_operands(e):
    """operand expressions of a string-builtin node"""
    return list(e[1:]) if e[0] == 'substr' else list(e[2:])


def mentions(e, x):
    t = e[0]
    if t in STR_NODES:
        return any(mentions(a, x) for a in str_operands(e))
    if t == 'var':
        return e[1] == x
    if t == 'un':
        return mentions(e[2], x)
    if t == 'bin':
        return mentions(e[2], x) or mentions(e[3], x)
    if t == 'cond':
        return any(mentions(a, x) for a in e[1:])
    if t == 'call':
        return any(mentions(a, x) for a in e[2])
    if t == 'arr':
        return any(mentions(a, x) for a in e[1])
    if t == 'at':
        return mentions(e[1], x) or mentions(e[2], x)
    if t == 'len':
        return mentions(e[1], x)
    return False


def calls_any(e):
    """does the expression contain a call (effectful or not)"""
    t = e[0]
    if t in STR_NODES:
        return any(calls_any(a) for a in str_operands(e))
    if t == 'call':
        return True
    if t == 'un':
        return calls_any(e[2])
    if t == 'bin':
        return calls_any(e[2]) or calls_any(e[3])
    if t == 'cond':
        return any(calls_any(a) for a in e[1:])
    if t == 'arr':
        return any(calls_any(a) for a in e[1])
    if t == 'at':
        return calls_any(e[1]) or calls_any(e[2])
    if t == 'len':
        return calls_any(e[1])
    return False


TRAP_NODES = {}         # id(node) -> node: deliberately out-of-range (at a i) nodes made by Gen.gen_array_use (kept alive here)


def has_effect(e, fns):
    t = e[0]
    if t == 'at' and TRAP_NODES.get(id(e)) is e:
        return True
    if t in STR_NODES:
        return any(has_effect(a, fns) for a in str_operands(e))
    if t in ('num', 'bool', 'str', 'var'):
        return False
    if t == 'un':
        return has_effect(e[2], fns)
    if t == 'bin':
        return has_effect(e[2], fns) or has_effect(e[3], fns)
    if t == 'cond':
        return any(has_effect(x, fns) for x in e[1:])
    if t == 'call':
        f = fns.get(e[1])
        return (f is None or f.get('effect', True)) or any(has_effect(a, fns) for a in e[2])
    if t == 'arr':
        return any(has_effect(a, fns) for a in e[1])
    if t == 'at':
        return has_effect(e[1], fns) or has_effect(e[2], fns)
    if t == 'len':
        return has_effect(e[1], fns)
    return True


def stmt_has_effect(s, fns):
    t = s[0]
    if t == 'print':
        return True
    if t == 'seq':
        return stmt_has_effect(s[1], fns) or stmt_has_effect(s[2], fns)
    if t in ('if',):
        return has_effect(s[1], fns) or stmt_has_effect(s[2], fns) or stmt_has_effect(s[3], fns)
    if t == 'while':
        return has_effect(s[1], fns) or stmt_has_effect(s[2], fns)
    if t == 'for':
        return stmt_has_effect(s[4], fns)
    if t in ('let',):
        return has_effect(s[4], fns)
    if t in ('set',):
        return has_effect(s[2], fns)
    if t in ('assert', 'expr'):
        return True if t == 'assert' else has_effect(s[1], fns)
    if t == 'ret':
        return s[1] is not None and has_effect(s[1], fns)
    return False


# -------------------------------------------------------------------- rendering: nano source
def vname(n):
    return 'v%d' % n


def fname(n):
    return 'main' if n == 0 else 'f%d' % n


def tyname(t):
    return dict(int='int', bool='bool', void='void', str='string', arr='array<int>')[t]


def nano_str(b):
    return '"' + bytes(b).decode('latin1') + '"'


def lit_int(z):
    if z == INT64_MIN:
        return '(- -9223372036854775807 1)'
    return str(z)


class Style:
    """prefix | infix | mixed(rng) | infix-chain (every operator infix, every left operand unparenthesised)"""
    def __init__(self, kind='prefix', rng=None):
        self.kind = kind
        self.rng = rng or random.Random(0)

    def else_if_chain(self):
        return self.rng.random() < 0.6

    def chain_left(self):
        # the specification gives all infix operators one precedence and groups strictly left to right, so the LEFT operand of an
        # infix operator may itself be an infix expression without parentheses: `a op1 b op2 c` = `(a op1 b) op2 c`
        return self.kind == 'infix-chain' or (self.kind != 'prefix' and self.rng.random() < 0.5)

    def infix_here(self):
        if self.kind == 'infix-chain':
            return True
        if self.kind == 'prefix':
            return False
        if self.kind == 'infix':
            return True
        return self.rng.random() < 0.5


def expr_nano(e, st, top=True):
    t = e[0]
    if t == 'num':
        return lit_int(e[1])
    if t == 'bool':
        return 'true' if e[1] else 'false'
    if t == 'str':
        return nano_str(e[1])
    if t == 'var':
        return vname(e[1])
    if t == 'un':
        a = expr_nano(e[2], st, False)
        if st.infix_here():
            # a numeral directly after '-' would be lexed as ONE negative literal (a different tree, same value): keep the operator explicit
            inner = a if e[2][0] in ('bool', 'var', 'call') or (e[2][0] == 'num' and e[1] != 'neg' and e[2][1] >= 0) else '(' + a + ')' if not a.startswith('(') else a
            s = ('-' + inner) if e[1] == 'neg' else ('not ' + inner)
            return s if top else '(' + s + ')'
        return '(%s %s)' % ('-' if e[1] == 'neg' else 'not', a)
    if t == 'bin':
        if st.infix_here():
            a = expr_nano(e[2], st, e[2][0] == 'bin' and st.chain_left())
            b = expr_nano(e[3], st, False)
            s = '%s %s %s' % (a, OPSYM[e[1]], b)
            return s if top else '(' + s + ')'
        return '(%s %s %s)' % (OPSYM[e[1]], expr_nano(e[2], st, False), expr_nano(e[3], st, False))
    if t == 'call':
        return '(' + ' '.join([fname(e[1])] + [expr_nano(a, st, False) for a in e[2]]) + ')'
    if t == 'cond':
        return '(cond (%s %s) (else %s))' % (expr_nano(e[1], st, False), expr_nano(e[2], st, False), expr_nano(e[3], st, False))
    if t == 'arr':
        return '[' + ', '.join(expr_nano(a, st, False) for a in e[1]) + ']'
    if t == 'at':
        return '(at %s %s)' % (expr_nano(e[1], st, False), expr_nano(e[2], st, False))
    if t == 'len':
        return '(array_length %s)' % expr_nano(e[1], st, False)
    if t == 's2' and e[1] == 'plus':
        return expr_nano(('bin', 'add', e[2], e[3]), st, top)            # + on strings is spelled like + on ints
    if t in ('s1', 's2'):
        return '(%s %s)' % (STR_BUILTIN[e[1]], ' '.join(expr_nano(a, st, False) for a in e[2:]))
    if t == 'substr':
        return '(str_substring %s)' % ' '.join(expr_nano(a, st, False) for a in e[1:])
    raise ValueError(e)


def stmt_nano(s, st, ind):
    p = '    ' * ind
    t = s[0]
    if t == 'skip':
        return []
    if t == 'seq':
        return stmt_nano(s[1], st, ind) + stmt_nano(s[2], st, ind)
    if t == 'let':
        return ['%slet %s%s: %s = %s' % (p, 'mut ' if s[1] else '', vname(s[2]), tyname(s[3]), expr_nano(s[4], st))]
    if t == 'set':
        return ['%sset %s %s' % (p, vname(s[1]), expr_nano(s[2], st, False))]
    if t == 'if':
        out = ['%sif %s {' % (p, expr_nano(s[1], st, False))] + stmt_nano(s[2], st, ind + 1)
        if s[3][0] == 'if' and st.else_if_chain():
            # `else if c { .. }`: the same tree as `else { if c { .. } }`, spelled as a chain
            rest = stmt_nano(s[3], st, ind)
            return out + [p + '} else ' + rest[0].lstrip()] + rest[1:]
        if s[3][0] != 'skip':
            out += ['%s} else {' % p] + stmt_nano(s[3], st, ind + 1)
        return out + [p + '}']
    if t == 'while':
        return ['%swhile %s {' % (p, expr_nano(s[1], st, False))] + stmt_nano(s[2], st, ind + 1) + [p + '}']
    if t == 'for':
        return ['%sfor %s in (range %s %s) {' % (p, vname(s[1]), expr_nano(s[2], st, False), expr_nano(s[3], st, False))] + \
            stmt_nano(s[4], st, ind + 1) + [p + '}']
    if t == 'break':
        return [p + 'break']
    if t == 'continue':
        return [p + 'continue']
    if t == 'ret':
        return [p + 'return' + ('' if s[1] is None else ' ' + expr_nano(s[1], st))]
    if t == 'print':
        return ['%s(%s %s)' % (p, 'println' if s[1] else 'print', expr_nano(s[2], st, False))]
    if t == 'assert':
        return ['%sassert %s' % (p, expr_nano(s[1], st, False))]
    if t == 'expr':
        return [p + expr_nano(s[1], st, False)]
    raise ValueError(s)


def to_nano(prog, style='prefix', rng=None, shadows=None):
    """shadows: dict fn-name -> list of stmts for its shadow block (default: assert true)."""
    st = Style(style, rng)
    out = []
    for (g, t, e) in prog['globals']:
        out.append('let %s: %s = %s' % (vname(g), tyname(t), expr_nano(e, st)))
    for f in prog['fns']:
        out.append('fn %s(%s) -> %s {' % (fname(f['name']), ', '.join('%s: %s' % (vname(x), tyname(t)) for (x, t) in f['params']), tyname(f['ret'])))
        out += stmt_nano(f['body'], st, 1)
        out.append('}')
        out.append('shadow %s {' % fname(f['name']))
        sh = (shadows or {}).get(f['name'])
        if sh:
            for s in sh:
                out += stmt_nano(s, st, 1)
        else:
            out.append('    assert true')
        out.append('}')
    return '\n'.join(out) + '\n'


# -------------------------------------------------------------------- rendering: S-expression for nvref_lang
def zs(z):
    return ('-%x' % -z) if z < 0 else ('%x' % z)


def expr_sexp(e):
    t = e[0]
    if t == 'num':
        if e[1] == INT64_MIN:
            return '(bin sub (num %s) (num 1))' % zs(INT64_MIN + 1)
        return '(num %s)' % zs(e[1])
    if t == 'bool':
        return '(bool %d)' % (1 if e[1] else 0)
    if t == 'str':
        return '(str %s)' % (bytes(e[1]).hex() or '-')
    if t == 'var':
        return '(var %x)' % e[1]
    if t == 'un':
        return '(un %s %s)' % (e[1], expr_sexp(e[2]))
    if t == 'bin':
        return '(bin %s %s %s)' % (e[1], expr_sexp(e[2]), expr_sexp(e[3]))
    if t == 'call':
        return '(call %x%s)' % (e[1], ''.join(' ' + expr_sexp(a) for a in e[2]))
    if t == 'cond':
        return '(cond %s %s %s)' % (expr_sexp(e[1]), expr_sexp(e[2]), expr_sexp(e[3]))
    if t == 'arr':
        return '(arr%s)' % ''.join(' ' + expr_sexp(a) for a in e[1])
    if t == 'at':
        return '(at %s %s)' % (expr_sexp(e[1]), expr_sexp(e[2]))
    if t == 'len':
        return '(len %s)' % expr_sexp(e[1])
    if t in ('s1', 's2'):
        return '(%s %s %s)' % (t, e[1], ' '.join(expr_sexp(a) for a in e[2:]))
    if t == 'substr':
        return '(substr %s)' % ' '.join(expr_sexp(a) for a in e[1:])
    raise ValueError(e)


def stmt_sexp(s):
    t = s[0]
    if t == 'skip':
        return '(skip)'
    if t == 'seq':
        return '(seq %s %s)' % (stmt_sexp(s[1]), stmt_sexp(s[2]))
    if t == 'let':
        return '(let %d %x %s %s)' % (1 if s[1] else 0, s[2], s[3], expr_sexp(s[4]))
    if t == 'set':
        return '(set %x %s)' % (s[1], expr_sexp(s[2]))
    if t == 'if':
        return '(if %s %s %s)' % (expr_sexp(s[1]), stmt_sexp(s[2]), stmt_sexp(s[3]))
    if t == 'while':
        return '(while %s %s)' % (expr_sexp(s[1]), stmt_sexp(s[2]))
    if t == 'for':
        return '(for %x %s %s %s)' % (s[1], expr_sexp(s[2]), expr_sexp(s[3]), stmt_sexp(s[4]))
    if t == 'break':
        return '(break)'
    if t == 'continue':
        return '(continue)'
    if t == 'ret':
        return '(ret)' if s[1] is None else '(ret %s)' % expr_sexp(s[1])
    if t == 'print':
        return '(print %d %s)' % (1 if s[1] else 0, expr_sexp(s[2]))
    if t == 'assert':
        return '(assert %s)' % expr_sexp(s[1])
    if t == 'expr':
        return '(expr %s)' % expr_sexp(s[1])
    raise ValueError(s)


def to_sexp(prog):
    gl = ' '.join('(g %x %s %s)' % (g, t, expr_sexp(e)) for (g, t, e) in prog['globals'])
    fs = ' '.join('(fn %x %s (%s) %s)' % (f['name'], f['ret'], ' '.join('(%x %s)' % (x, t) for (x, t) in f['params']), stmt_sexp(f['body']))
                  for f in prog['fns'])
    return '(prog %x (globals %s) (fns %s))' % (prog['main'], gl, fs)


def size_of(prog):
    def se(e):
        t = e[0]
        if t in ('num', 'bool', 'str', 'var'):
            return 1
        if t == 'un':
            return 1 + se(e[2])
        if t == 'bin':
            return 1 + se(e[2]) + se(e[3])
        if t == 'call':
            return 1 + sum(se(a) for a in e[2])
        if t == 'cond':
            return 1 + se(e[1]) + se(e[2]) + se(e[3])
        if t == 'arr':
            return 1 + sum(se(a) for a in e[1])
        if t == 'at':
            return 1 + se(e[1]) + se(e[2])
        if t == 'len':
            return 1 + se(e[1])
        if t in STR_NODES:
            return 1 + sum(se(a) for a in str_operands(e))
        return 1

    def ss(s):
        t = s[0]
        if t == 'seq':
            return ss(s[1]) + ss(s[2])
        if t == 'if':
            return 1 + se(s[1]) + ss(s[2]) + ss(s[3])
        if t == 'while':
            return 1 + se(s[1]) + ss(s[2])
        if t == 'for':
            return 1 + ss(s[4])
        if t == 'let':
            return 1 + se(s[4])
        if t in ('set',):
            return 1 + se(s[2])
        if t in ('print',):
            return 1 + se(s[2])
        if t in ('assert', 'expr'):
            return 1 + se(s[1])
        if t == 'ret':
            return 1 + (se(s[1]) if s[1] is not None else 0)
        return 1
    return sum(ss(f['body']) for f in prog['fns'])


if __name__ == '__main__':
    import sys
    seed = int(sys.argv[1]) if len(sys.argv) > 1 else 1
    g = Gen(random.Random(seed), Cfg(arrays='arrays' in sys.argv, oob='oob' in sys.argv, strops='strops' in sys.argv))
    p = g.gen_program()
    print(to_nano(p, sys.argv[2] if len(sys.argv) > 2 else 'prefix', random.Random(seed)))
    print('#', to_sexp(p))
    print('#', g.feat)
