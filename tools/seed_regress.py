#!/usr/bin/env python3
"""seed_regress.py [ID-n ...] [-j N]: run every archived seeded change (seeded/<ID>-<n>/patch-rebased.diff if present, else patch.diff)
against the CURRENT checks and /repo HEAD through tools/seedtest.py; print one line per seed: CAUGHT / MISSED / NOAPPLY.
Results are written to seeded/REGRESSION.json (what the final DESIGN table quotes)."""
import sys, os, json, glob, subprocess, re, argparse
from concurrent.futures import ThreadPoolExecutor
V = os.path.dirname(os.path.dirname(os.path.abspath(__file__)))

SEED = '1'


def one(d):
    sid = os.path.basename(d)
    pid = sid.split('-')[0]
    p = os.path.join(d, 'patch-rebased.diff')
    if not os.path.exists(p):
        p = os.path.join(d, 'patch.diff')
    try:
        ids = json.load(open(os.path.join(d, 'meta.json'))).get('caught_by') or [pid]
    except Exception:
        ids = [pid]
    ids = [pid] + [i for i in ids if i != pid]
    r = subprocess.run(['python3', os.path.join(V, 'tools', 'seedtest.py'), p] + ids[:2] + ['--seed', SEED], capture_output=True, text=True, timeout=7200)
    out = r.stdout + r.stderr
    if 'patch does not apply' in out:
        st = 'NOAPPLY'
    elif r.returncode == 0:
        st = 'CAUGHT'
    else:
        st = 'MISSED'
    caught = sorted(set(re.findall(r'VIOLATION property=(C\d+)', out)))
    nf = len(re.findall(r'VIOLATION[^\n]*no-failing-input-found', out))
    nv = len(re.findall(r'VIOLATION', out))
    first = [l.strip()[3:] for l in out.splitlines() if l.strip().startswith('->')][:1]
    print('%-7s %-8s by=%s violations=%d (tie-only %d) %s' % (sid, st, ','.join(caught), nv, nf, (first[0][:140] if first else '')), flush=True)
    return sid, dict(status=st, caught_by=caught, violations=nv, tie_only=nf, patch=os.path.relpath(p, V), first=first[0][:300] if first else None)

def main():
    ap = argparse.ArgumentParser(); ap.add_argument('seeds', nargs='*'); ap.add_argument('-j', type=int, default=3); ap.add_argument('--seed', default='1'); ap.add_argument('--out', default='REGRESSION.json')
    a = ap.parse_args()
    global SEED
    SEED = a.seed
    ds = sorted(glob.glob(os.path.join(V, 'seeded', 'C*-*')))
    if a.seeds:
        ds = [d for d in ds if os.path.basename(d) in a.seeds]
    with ThreadPoolExecutor(a.j) as ex:
        res = dict(ex.map(one, ds))
    head = subprocess.check_output(['git', '-C', '/repo', 'rev-parse', '--short', 'HEAD'], text=True).strip()
    path = os.path.join(V, 'seeded', a.out)
    old = {}
    if os.path.exists(path) and a.seeds:
        old = json.load(open(path)).get('results', {})
    old.update(res)
    json.dump(dict(repo_head=head, verif_seed=SEED, results=old), open(path, 'w'), indent=1)
    bad = [k for k, v in res.items() if v['status'] != 'CAUGHT']
    print('not caught:', bad)
    return 1 if bad else 0

if __name__ == '__main__':
    sys.exit(main())
