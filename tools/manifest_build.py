#!/usr/bin/env python3
"""Rebuild MANIFEST.json from the per-property table below (run after claiming / unclaiming a property)."""
import json, os, subprocess
V = os.path.dirname(os.path.dirname(os.path.abspath(__file__)))

CLAIMS = {
 'C11': dict(
  text="Codec round trip, refusal of undefined/truncated instructions and size bounds are Coq theorems over the instruction table regenerated from isa.c on every run; the model's encode/decode are extracted and compared with the real isa_encode/isa_decode (ASan) on all 256 opcode bytes x operand boundary patterns x truncations; the text form (disassemble/assemble) is modelled line by line with a proved round trip for label-free code and compared with the real tools on compiler-produced and synthetic modules.",
  note="Trusted: Coq kernel+vm_compute, table translator (dump_isa.c), ExtrOcamlBasic extraction + OCaml drivers, probes. Float text (%.17g/strtod) is an oracle checked by correspondence only.",
  technique="Coq proof over generated table + extracted-model correspondence", design="DESIGN.md 5/C11"),
 'C02': dict(
  text="Operator table proved for ALL int64 operands (VM arithmetic/comparison/logic = reference semantics; wrap64 is two's complement), expression/statement simulation lemmas for the compiler model; three checked ties (model bytecode == nano_virt --emit-nvm byte for byte; model VM run == real run; native model == nanoc binary) and an independent reference oracle (Lang/Ref.v, transcription of SPECIFICATION 4-8) against which both real engines are run on generated programs, the exhaustive boundary operator table and the witness of every recorded finding.",
  note="Ref.v is a reviewed transcription of the specification (trusted). CoreS fragment + string literals; CoreX only through the C01 corpus. Native: C compiler/libc modelled (arguments right-to-left). Open findings: argument order, self-referential shadowing let, same-scope redeclaration, trigraphs in strings (all native).",
  technique="Coq proof (operator table, compiler/VM simulation) + bytecode-equality tie + reference-oracle differential", design="DESIGN.md 4, 5/C02, App. A.1"),
 'C01': dict(
  text="Corollary layer of the C02 development (value printing and exit status coincide; the native model with left-to-right argument evaluation IS the reference semantics, proved by mutual induction on fuel) plus a model-independent oracle: both REAL backends are run on the witness of every recorded finding, on generated CoreS programs in prefix/infix/mixed spelling and on the repository's own example and test programs (CoreX: structs, enums, unions, tuples, arrays, strings, imports); stdout bytes and exit status must be identical.",
  note="Theorems cover CoreS; CoreX and imports by correspondence only. Programs that use the environment/FFI or print floats are outside the property and skipped. Open findings: native argument order, three native C-compile failures, five repo programs (STRUCT_GET on the VM, a failing string assertion, C-implemented module functions).",
  technique="Coq corollaries of the engine simulation + direct differential of the two real backends", design="DESIGN.md 5/C01"),
 'C03': dict(
  text="InterpSem.v models the tree-walking evaluator as it is (one symbol stack shared by all active calls, symbols popped at block / loop / call exit, assertion failures counted not aborting); interp_simulates_ref / interp_correct: along the program's shadow blocks the evaluator prints the reference's text and records the reference's truth value for every assertion, under names_apart (no parameter, let or for variable spelled like a top-level constant -- exactly what dynamic scoping still forces -- and no escapes in strings); with Agree (native model = reference) this gives pass_at_compile_time_passes_at_run_time and correct_program_never_refused. Without names_apart the statement is refuted (the specification's own section 8.1 program). Tie: the extracted model must predict real `nanoc --verbose` byte for byte (text between 'Testing f...' and PASSED/FAILED, failure counts, exit status) also where the evaluator deviates; model-independent oracle: compile-time result vs the native binary executing the same calls vs the reference.",
  note="CoreS + strings; arrays/structs and imported-module shadow blocks are not modelled. Open findings: dynamic scoping across calls (3 witnesses), escapes printed verbatim at compile time, value of a void call.",
  technique="Coq fuel-simulation proof (evaluator model vs reference) + extracted-model vs nanoc --verbose correspondence + compile-time/native/reference differential", design="DESIGN.md 5/C03"),
 'C06': dict(
  text="ShadowGate.v: run_shadow_tests as a fold over an ARBITRARY list of shadow tests and assertions (per-test failure accounting, skip rule for extern-using tests, all_passed conjunction) and the driver phases; gate_iff: nanoc produces a binary iff every executed assertion is true, for any position, count and nesting of the failing assertion; exit status, the FAILED line naming the test, binary only after passing, missing shadow reported; gate_iff_ref ties the truth values to the reference semantics under names_apart. Real nanoc (fresh output path per run) is compared with the model and with reference truth values on programs with the failing assertion planted first / last / inside loops / after passing ones / in the last of many blocks.",
  note="Phases 1-4 and 6-7 of the driver and the extern-skip scan are inputs of the model. Open finding: with dynamic scoping a false assertion can pass at compile time (witness keyed).",
  technique="Coq proof over a fold model of the shadow gate + real-nanoc correspondence with reference-oracle truth values", design="DESIGN.md 5/C06"),
 'C04': dict(
  text="wt_sound: a program accepted by the reference type checker wt (Lang/Types.v: operand/argument types, arity, block scoping, immutability, return on every path, bool conditions) never reaches Stuck in the reference semantics, for every fuel (proved with an environment-typing invariant incl. calls and recursion); with Agree and the VM simulation this transfers to both engine models (native model never Stuck/cc-refused; VmCompile resolves every name).  The statement about the REAL acceptance predicate is correspondence: two-sided agreement wt <=> typechecker.c on generated programs and on all catalogue mutants, and every program the real checker accepts is pushed through both real backends and must not end in an internal failure class.",
  note="Theorems are about Types.wt; typechecker.c (6.2k lines) is tied by correspondence and currently diverges on 28 recorded places (open findings keyed by minimal program: operand types printed but not enforced, scopes never popped, no return-path analysis, ...). Codegen theorem is _partial (names resolve; no encoding/verifier).",
  technique="Coq type-soundness proof against the executable reference semantics + two-sided acceptance correspondence with the real checker and both backends", design="DESIGN.md 5/C04"),
 'C05': dict(
  text="mut_ill_typed: each of the 15 catalogue rules (wrong operand/argument type, arity +-1, unknown name/function, local of an earlier function, name used after its block, set on immutable let / parameter / loop variable, missing return on one path, wrong return type, return without value, non-bool condition) applied at ANY position of ANY program yields a program the reference checker refuses (so the oracle never raises a false alarm); driver_stops: for nanoc, nano_virt --run and --emit-nvm a failed type check means exit != 0, a diagnostic, no artifact, nothing executed (phase table regenerated from the clang AST of both mains); all_error_sites_flagged over the 183 diagnostic sites of typechecker.c regenerated per run, minus a committed triage table.  Every generated mutant is run on the three real tools.",
  note="The real checker accepts most ill-typed mutants today: 18 open findings keyed by diagnostic call site / minimal program (check_expression has no access to the TypeChecker, so its diagnostics cannot fail the compilation). Field/variant/resource/unsafe rules only through witness programs. The site analysis is a syntactic trusted translator. The proposed repair (count context errors) is NOT applied: it would refuse tests/test_std_regex_groups_uaf.nano, which gets a false TYPE MISMATCH on (== re (null_opaque)).",
  technique="Coq proof (mutation catalogue ill-typed, driver phase machine) + generated diagnostic-site table + mutation differential on the three tools", design="DESIGN.md 5/C05"),
 'C07': dict(
  text="Token->AST model of parse_expression / parse_primary / parse_prefix_op (depth counter, postfix and argument loops, uppercase-identifier lookahead). Proved: prefix round trip for all trees up to the nesting limit, infix round trip for every tree except one remaining shape (a parenthesised group beginning with a unary operator), left associativity for all 13x13 operator pairs, postfix binds tighter on both sides, unary applies to the following operand, depth limit reported. The model is compared with the real lexer+parser on all operator pairs x operand shapes, random trees and token mutants (18k cases quick); bytecode of both spellings compared via nano_virt --emit-nvm.",
  note="One open finding (language decision): 2 * (-a + 1) parses as 2 * -(a+1). Bytecode identity of the two spellings by correspondence only. Trusted: gen_tokens/gen_parserconsts, front_probe.c, the text renderer (re-checked by the real lexer on every case).",
  technique="Coq proof over an executable parser model + extracted-model/real-parser correspondence", design="DESIGN.md 5/C07"),
 'C08': dict(
  text="For every index idx : Z (not a sweep) and every length, each engine's array access function (VM ARR_GET/SET/REMOVE/POP with the 64-bit range test before narrowing; native dyn_array asserts; interpreter builtins) traps outside [0, length) and touches only the object inside it; a trap is final (no value, non-zero exit); tuple/struct/union field indices likewise. The engine functions are parametrised by a configuration regenerated from the current source; 764 generated programs (3 engines x access kinds x lengths x boundary indices incl. 2^32+k, INT64_MIN, -(2^32-2)) compare marker output and exit status with the model.",
  note="VM state machine shared with C13 (no refcounts, no C stack). All nine defects found on the pinned tree are repaired (fix: commits) and recorded.",
  technique="Coq proof over cfg-parametrised executable bounds/VM model + source-derived cfg + three-engine correspondence", design="DESIGN.md 5/C08"),
 'C09': dict(
  text="Generic Coq theorem: a cursor loop whose every iteration advances the token position or exits terminates within ntokens+2 iterations; ranks bound call chains. Instantiated by computation on loop summaries and the call graph REGENERATED from parser.c's clang AST on every run: every loop of parser.c progresses, the unguarded call graph is acyclic, the depth limit is reported (no open loop/recursion finding left). Tokenizer model proved total and compared token for token. ASan/UBSan front_probe on token/byte mutants, truncations at every token boundary and nesting ladders up to 1e5; every input must end in acceptance or a diagnostic.",
  note="Loops and recursion structure only: the parser as a whole, the type checker and import processing are not modelled (sanitizer runs only). The loop-summary translator's rule set is trusted (self-tested on 22 hand-made loops per run).",
  technique="Coq generic termination theorem + generated loop/call-graph summaries + lexer model + sanitizer correspondence", design="DESIGN.md 5/C09"),
 'C10': dict(
  text="deserialize(serialize m) = stamp m field-wise and serialisation idempotence for all well-formed modules, the API keeps the string pool duplicate-free; exit-status model of the runners (nano_virt --run, nano_vm, native wrapper) with agreement proved from two AST-derived facts regenerated per run; 1500+ modules built through the real API byte-compared with the model, compiled programs run under all runners.",
  note="Wrapper embedding and output equality are end-to-end only; daemon runner only in the model.",
  technique="Coq proof + generated parameters + extracted-model correspondence", design="DESIGN.md 5/C10"),
 'C12': dict(
  text="CRC-32 burst detection (<=32 bits) for every polynomial with bit 31 set, table form = bitwise form, refusal of bursts / bit flips / 4-byte changes / every truncation / bad magic, version, section count, refusal of every appended tail, and all-or-nothing loading are Coq theorems over CRC parameters and wire constants regenerated from nvm_format.c; the extracted loader is compared with the real nvm_deserialize (ASan) on every single-bit flip and truncation of ~40 files, bursts in both bit numberings, steered tails.",
  note="Fault model: header intact (the header is outside the checksum); MSB-first bursts straddling five bytes are swept, not proved. One open finding: lenient entry loops inside a section (needs a crafted, well-checksummed file).",
  technique="Coq proof + generated parameters + extracted-model correspondence", design="DESIGN.md 5/C12"),
 'C13': dict(
  text="The loader (nvm_deserialize re-modelled with the C's own u32 arithmetic and every buffer access checked, Crash = the C would read/write out of bounds), the verifier and the VM state machine (about 85 opcodes: frames <= 1024, ip inside the current function, index casts, stack_pop on empty = void) are total functions with the theorems: forall byte strings < 2^27: the loader never crashes and a loaded module's tables fit their buffers; the verifier never crashes and every instruction on its sweep decodes; for every fuel the pipeline load -> verify -> run ends in Reject / Finished / VmError / OutOfFuel, never Crash or Signal (vm_safe_partial); the six repairs are each necessary (safe on all inputs <=> all present). The configuration of the model is regenerated from the current source; vm_probe (ASan+UBSan, fork per case, same instruction budget through the fuel hook) is compared with the extracted model on structure-aware mutants of compiler-produced modules, generated bytecode and raw bytes (6k cases quick, 38k thorough): outcome class, result value, CRC of the loaded-module dump, stdout.",
  note="partial = the modelled opcode set (floats, hashmaps, array arithmetic and FFI answer Unmodelled), no refcounting/free (C14 covers that), no C stack depth: one open finding outside the model (300000-level nested array overflows the C stack in vm_release). Memory safety of code the model does not mirror is exhibited only by the sanitizer correspondence.",
  technique="Coq proof over cfg-parametrised executable loader/verifier/VM model + source-derived cfg + extracted-model/ASan-probe correspondence", design="DESIGN.md 5/C13, App. A.2"),
 'C14': dict(
  text="Inv (interning table sound; for every live object ref_count >= in-degree from operand stack incl. locals, globals, frame closures and live containers; every reference targets a live object) holds initially and is preserved by every modelled VM opcode from ANY state satisfying it (arbitrary bytecode) and hence by runs; no use-after-free, no double free (ids never reused); the recursive release is a DFS worklist proved with the pending-multiset invariant; exactness (rc = in-degree) and no-leak for leak-free runs. The extracted model replays the real VM's logged instruction stream and must agree on live set, tags, ref_counts and in-degrees at EVERY instruction boundary (~1e5 boundaries per quick run); an independent C-side audit recomputes in-degrees after every instruction (1/4 of the runs under ASan).",
  note="Churn bound is partial (vm_compute on regenerated real instruction streams, not forall k). Hashmap opcodes, element-wise array arithmetic and non-string FFI results are audited on the real VM only. The instruction stream (control flow, indices) is an input of the model run. C recursion depth of vm_release belongs to C13.",
  technique="Coq proof (micro-op ownership model, release worklist) + extracted-model replay of real traces + implementation-side audit probe", design="DESIGN.md 5/C14, App. A.2"),
 'C15': dict(
  text="deser(ser v ++ rest) = (v, |ser v|) for every transferable value (int/float/opaque bit patterns, bool, strings of any content, void, arrays nested up to the decoder's limit), the request/reply builders fit every payload up to COP_MAX_PAYLOAD, hence call through the co-process = call in process for any callee (call_transparent); the decoder never reads out of bounds on arbitrary bytes. Constants are regenerated from cop_protocol.h and the clang AST of vm_ffi_call_cop / handle_ffi_req. cop_probe (ASan + plain) vs the extracted model on boundary values, truncations and mutated length fields; real programs run with nano_vm and nano_vm --isolate-ffi.",
  note="The callee (vm_ffi_call) is the same code on both paths and is not modelled; allocation success and C stack depth assumed. Open findings: externs that write to stdout lose their output through the co-process; payloads above COP_MAX_PAYLOAD (16 MiB) are refused.",
  technique="Coq codec round-trip / transparency proof + generated constants + probe and end-to-end correspondence", design="DESIGN.md 5/C15"),
 'C16': dict(
  text="Client state machine of cop start/call/stop over explicit OS rules (EPIPE when SIGPIPE ignored, EOF, waitpid) and ARBITRARY peer scripts: every call ends in Ok / fallback / Err in a well-formed state (or a characterised hang on a silent peer), after stop the child is reaped (no orphan), a whole nano_vm run never ends in a signal or crash; SIGPIPE disposition is translated from the clang AST and cross-checked against /proc/<pid>/status. Exhaustive fault matrix of the real nano_vm against a scripted stand-in nano_cop: 15 fault kinds x protocol steps x k <= 2 (128 cells quick, 224 thorough) compared with the extracted model.",
  note="OS pipe/process rules are the model's stated assumptions; a peer that blocks SIGTERM or stays silent forever with its pipe open is excluded. All eight defects found on the pinned tree are repaired and recorded.",
  technique="Coq containment/no-orphan proof over a client state machine + generated signal facts + exhaustive fault matrix", design="DESIGN.md 5/C16"),
 'C17': dict(
  text="Under every schedule a session's final state and reply equal its run alone (interleaving theorem over footprints), the lazily initialised CRC table is race free under sequential consistency, every session-reachable writable global (nm/relocation inventory regenerated per run) is classified, and the client's view of the reply equals the standalone observation; live daemon with up to 16 (quick) / 64 (thorough) concurrent clients, TSan/ASan builds.",
  note="Sequential consistency only; footprint classes asserted by reading and tested; scheduler not modelled; VM run is an oracle shared by both sides; FFI sessions excluded.",
  technique="Coq proof of interleaving independence + regenerated shared-state inventory + live concurrent correspondence", design="DESIGN.md 5/C17"),
 'C18': dict(
  text="client_thread modelled as a total function of the client's byte stream and cut point: every stream ends in a prefix of a well-formed frame sequence or Closed with the client count restored; the daemon survives every session list given SIGPIPE ignored and verification before execution (both facts regenerated from the source / the running daemon); frame codec round trip; 137 malformed/abandoned live sessions compared reply-for-reply with the extracted model.",
  note="Execution is an oracle (oracle_safe stands for C13); a peer that never closes and malloc failure are not modelled.",
  technique="Coq proof over a total handler model + generated protocol/AST/signal facts + live malformed-session correspondence", design="DESIGN.md 5/C18"),
 'C19': dict(
  text="In a functional model 'same input, same output' is vacuous, so the proved content is independence from hidden state: nvm_serialize writes every byte of its output (same bytes from ANY two initial buffers, writes in bounds), isa_encode never lets unused operand slots / union padding reach the bytes (over the table regenerated from isa.c), string-pool indices depend only on first-insertion order; tied by ser_probe (zero and dirty buffers, junk-filled instruction structs) against the extracted model. The reproducibility claim proper is a configuration SWEEP of the real tools (cwd, TMPDIR, env, setarch -R, MALLOC_PERTURB_, relative/absolute invocation, repeats): byte-identical .nvm, generated C and diagnostics.",
  note="Only the three independence theorems are proof; byte-identity across configurations is a finite sweep (20 programs x 44 configurations quick) and is reported as such in the evidence. codegen.c, the transpiler, module.c and main.c are not modelled. One open finding: generated C of a program with imports embeds the resolved module path.",
  technique="Coq proof of three independence theorems + configuration sweep of the real tools", design="DESIGN.md 5/C19"),
 'C20': dict(
  text="The runtime containers behave as sequences: for every operation history over all element kinds the concrete dyn_array machine (growth policy, typed push/pop/get/set, remove_at, clear, reserve, clone, the emitted nl_array_slice, struct blobs) produces exactly the outputs, final contents and assert-stops of the abstract typed-list machine (refinement theorem), with the invariant length <= capacity / block holds capacity cells / cells below length initialised, and no in-domain step touches memory outside the block; gc.c bookkeeping: all-objects list, pointer set and live headers describe the same objects exactly once, release of the last reference frees exactly once.  Model constants and repair flags are MEASURED on the current source on every run; ASan/UBSan probes execute generated histories against the extracted model; generated native programs are built with a sanitizing cc.",
  note="Domain exclusions are characterised exactly (reserve/clone above the 2^20-cell allocator limit, struct of 0 or >= 2^32 bytes). The GC model has no children/finalizers. nl_string.c, list_int.c, list_string.c and the ARC code the transpiler emits are not modelled (sanitizer runs only). Open findings: INT64_MIN / -1 and % -1, gc_mark on arrays of small inline structs, five HashMap use-after-free patterns.",
  technique="Coq refinement proof over executable runtime models with measured parameters + sanitizer probes + sanitized native programs", design="DESIGN.md 5/C20"),
}

REASON_PENDING = "not yet claimed: model and theorems under construction (DESIGN.md section 8 gives the order)"


def main():
    props = [json.loads(l) for l in open(os.path.join(V, 'properties.jsonl'))]
    hooks = subprocess.run(['git', '-C', '/repo', 'log', '--format=%H', '--grep=verif hook'], capture_output=True, text=True).stdout.split()
    checks = []
    for p in props:
        pid = p['id']
        if pid not in CLAIMS:
            continue
        if not os.path.exists(os.path.join(V, 'tools', 'props', pid.lower() + '.py')):
            continue
        c = CLAIMS[pid]
        checks.append({
            "property_id": pid,
            "quick_cmd": "python3 tools/check.py %s --tier quick" % pid,
            "thorough_cmd": "python3 tools/check.py %s --tier thorough" % pid,
            "evidence_file": "evidence/%s.json" % pid,
            "replay_cmd_template": "python3 tools/check.py %s --replay {path}" % pid,
            "engine": "coq-nv",
            "level_claimed": {"category": "proof", "text": c['text'], "design_ref": c['design']},
            "level_note": c['note'],
            "technique": c['technique'],
        })
    claimed = {c['property_id'] for c in checks}
    m = {
        "version": 1,
        "setup_cmd": "python3 tools/setup.py",
        "hooks": {"guard": "NANOLANG_VERIF",
                  "enable": "tools/build_repo.py compiles /repo's working tree out of tree into /verif/build/<variant> with -DNANOLANG_VERIF (variants plain, asan, tsan; nohook = guard off)",
                  "baseline_off_cmd": "make -C /repo -f Makefile.gnu test-nanovirt",
                  "source_commits": hooks, "add_only": True},
        "engines": [{"name": "coq-nv", "path": "coq/NV", "serves_properties": sorted(claimed),
                     "kind_free_text": "Coq 8.16 library NV (models, proofs, property theorems), OCaml extraction (nvref_*), C probes linked against the freshly built repo objects, translators regenerating coq/NV/gen/*.v"}],
        "checks": checks,
        "notes": "Every check: rebuild /repo out of tree, regenerate gen/*.v, re-prove Props/Properties_<ID>.v, run the correspondence, replay known findings (known_findings.json + known_findings.d/*.json). See DESIGN.md.",
        "not_applicable": [{"property_id": p['id'], "reason": REASON_PENDING} for p in props if p['id'] not in claimed],
    }
    json.dump(m, open(os.path.join(V, 'MANIFEST.json'), 'w'), indent=1)
    print('claimed:', sorted(claimed))


if __name__ == '__main__':
    main()
