#!/usr/bin/env python3
"""Rebuild MANIFEST.json from the per-property table below (run after claiming / unclaiming a property)."""
import json, os, subprocess
V = os.path.dirname(os.path.dirname(os.path.abspath(__file__)))

CLAIMS = {
 'C11': dict(
  text="Codec round trip, refusal of undefined/truncated instructions and size bounds are Coq theorems over the instruction table regenerated from isa.c on every run; the model's encode/decode are extracted and compared with the real isa_encode/isa_decode (ASan) on all 256 opcode bytes x operand boundary patterns x truncations; the text form (disassemble/assemble) is modelled line by line with a proved round trip for label-free code and compared with the real tools on compiler-produced and synthetic modules.",
  note="Trusted: Coq kernel+vm_compute, table translator (dump_isa.c), ExtrOcamlBasic extraction + OCaml drivers, probes. Float text (%.17g/strtod) is an oracle checked by correspondence only.",
  technique="Coq proof over generated table + extracted-model correspondence", design="DESIGN.md 5/C11"),
 'C02': dict(
  text="Operator table proved for ALL int64 operands (VM arithmetic/comparison/logic = reference semantics; wrap64 is two's complement), expression/statement simulation lemmas for the compiler model; three checked ties (model bytecode == nano_virt --emit-nvm byte for byte; model VM run == real run; native model == nanoc binary) and an independent reference oracle (Lang/Ref.v, transcription of SPECIFICATION 4-8) against which both real engines are run on generated programs, the exhaustive boundary operator table and the witness of every recorded finding.",
  note="Ref.v is a reviewed transcription of the specification (trusted). CoreS fragment + string literals; CoreX only through the C01 corpus. Native: C compiler/libc modelled (arguments right-to-left). Open findings: argument order, self-referential shadowing let, same-scope redeclaration, trigraphs in strings (all native).",
  technique="Coq proof (operator table, compiler/VM simulation) + bytecode-equality tie + reference-oracle differential", design="DESIGN.md 4, 5/C02, App. A.1"),
 'C01': dict(
  text="Corollary layer of the C02 development (value printing and exit status coincide; the native model with left-to-right argument evaluation IS the reference semantics, proved by mutual induction on fuel) plus a model-independent oracle: both REAL backends are run on the witness of every recorded finding, on generated CoreS programs in prefix/infix/mixed spelling and on the repository's own example and test programs (CoreX: structs, enums, unions, tuples, arrays, strings, imports); stdout bytes and exit status must be identical.",
  note="Theorems cover CoreS; CoreX and imports by correspondence only. Programs that use the environment/FFI or print floats are outside the property and skipped. Open findings: native argument order, three native C-compile failures, five repo programs (STRUCT_GET on the VM, a failing string assertion, C-implemented module functions).",
  technique="Coq corollaries of the engine simulation + direct differential of the two real backends", design="DESIGN.md 5/C01"),
 'C10': dict(
  text="deserialize(serialize m) = stamp m field-wise and serialisation idempotence for all well-formed modules, the API keeps the string pool duplicate-free; exit-status model of the runners (nano_virt --run, nano_vm, native wrapper) with agreement proved from two AST-derived facts regenerated per run; 1500+ modules built through the real API byte-compared with the model, compiled programs run under all runners.",
  note="Wrapper embedding and output equality are end-to-end only; daemon runner only in the model.",
  technique="Coq proof + generated parameters + extracted-model correspondence", design="DESIGN.md 5/C10"),
 'C12': dict(
  text="CRC-32 burst detection (<=32 bits) for every polynomial with bit 31 set, table form = bitwise form, refusal of bursts / bit flips / 4-byte changes / every truncation / bad magic, version, section count, refusal of every appended tail, and all-or-nothing loading are Coq theorems over CRC parameters and wire constants regenerated from nvm_format.c; the extracted loader is compared with the real nvm_deserialize (ASan) on every single-bit flip and truncation of ~40 files, bursts in both bit numberings, steered tails.",
  note="Fault model: header intact (the header is outside the checksum); MSB-first bursts straddling five bytes are swept, not proved. One open finding: lenient entry loops inside a section (needs a crafted, well-checksummed file).",
  technique="Coq proof + generated parameters + extracted-model correspondence", design="DESIGN.md 5/C12"),
 'C14': dict(
  text="Inv (interning table sound; for every live object ref_count >= in-degree from operand stack incl. locals, globals, frame closures and live containers; every reference targets a live object) holds initially and is preserved by every modelled VM opcode from ANY state satisfying it (arbitrary bytecode) and hence by runs; no use-after-free, no double free (ids never reused); the recursive release is a DFS worklist proved with the pending-multiset invariant; exactness (rc = in-degree) and no-leak for leak-free runs. The extracted model replays the real VM's logged instruction stream and must agree on live set, tags, ref_counts and in-degrees at EVERY instruction boundary (~1e5 boundaries per quick run); an independent C-side audit recomputes in-degrees after every instruction (1/4 of the runs under ASan).",
  note="Churn bound is partial (vm_compute on regenerated real instruction streams, not forall k). Hashmap opcodes, element-wise array arithmetic and non-string FFI results are audited on the real VM only. The instruction stream (control flow, indices) is an input of the model run. C recursion depth of vm_release belongs to C13.",
  technique="Coq proof (micro-op ownership model, release worklist) + extracted-model replay of real traces + implementation-side audit probe", design="DESIGN.md 5/C14, App. A.2"),
 'C17': dict(
  text="Under every schedule a session's final state and reply equal its run alone (interleaving theorem over footprints), the lazily initialised CRC table is race free under sequential consistency, every session-reachable writable global (nm/relocation inventory regenerated per run) is classified, and the client's view of the reply equals the standalone observation; live daemon with up to 16 (quick) / 64 (thorough) concurrent clients, TSan/ASan builds.",
  note="Sequential consistency only; footprint classes asserted by reading and tested; scheduler not modelled; VM run is an oracle shared by both sides; FFI sessions excluded.",
  technique="Coq proof of interleaving independence + regenerated shared-state inventory + live concurrent correspondence", design="DESIGN.md 5/C17"),
 'C18': dict(
  text="client_thread modelled as a total function of the client's byte stream and cut point: every stream ends in a prefix of a well-formed frame sequence or Closed with the client count restored; the daemon survives every session list given SIGPIPE ignored and verification before execution (both facts regenerated from the source / the running daemon); frame codec round trip; 137 malformed/abandoned live sessions compared reply-for-reply with the extracted model.",
  note="Execution is an oracle (oracle_safe stands for C13); a peer that never closes and malloc failure are not modelled.",
  technique="Coq proof over a total handler model + generated protocol/AST/signal facts + live malformed-session correspondence", design="DESIGN.md 5/C18"),
 'C19': dict(
  text="In a functional model 'same input, same output' is vacuous, so the proved content is independence from hidden state: nvm_serialize writes every byte of its output (same bytes from ANY two initial buffers, writes in bounds), isa_encode never lets unused operand slots / union padding reach the bytes (over the table regenerated from isa.c), string-pool indices depend only on first-insertion order; tied by ser_probe (zero and dirty buffers, junk-filled instruction structs) against the extracted model. The reproducibility claim proper is a configuration SWEEP of the real tools (cwd, TMPDIR, env, setarch -R, MALLOC_PERTURB_, relative/absolute invocation, repeats): byte-identical .nvm, generated C and diagnostics.",
  note="Only the three independence theorems are proof; byte-identity across configurations is a finite sweep (20 programs x 44 configurations quick) and is reported as such in the evidence. codegen.c, the transpiler, module.c and main.c are not modelled. One open finding: generated C of a program with imports embeds the resolved module path.",
  technique="Coq proof of three independence theorems + configuration sweep of the real tools", design="DESIGN.md 5/C19"),
 'C20': dict(
  text="The runtime containers behave as sequences: for every operation history over all element kinds the concrete dyn_array machine (growth policy, typed push/pop/get/set, remove_at, clear, reserve, clone, the emitted nl_array_slice, struct blobs) produces exactly the outputs, final contents and assert-stops of the abstract typed-list machine (refinement theorem), with the invariant length <= capacity / block holds capacity cells / cells below length initialised, and no in-domain step touches memory outside the block; gc.c bookkeeping: all-objects list, pointer set and live headers describe the same objects exactly once, release of the last reference frees exactly once.  Model constants and repair flags are MEASURED on the current source on every run; ASan/UBSan probes execute generated histories against the extracted model; generated native programs are built with a sanitizing cc.",
  note="Domain exclusions are characterised exactly (reserve/clone above the 2^20-cell allocator limit, struct of 0 or >= 2^32 bytes). The GC model has no children/finalizers. nl_string.c, list_int.c, list_string.c and the ARC code the transpiler emits are not modelled (sanitizer runs only). Open findings: INT64_MIN / -1 and % -1, gc_mark on arrays of small inline structs, five HashMap use-after-free patterns.",
  technique="Coq refinement proof over executable runtime models with measured parameters + sanitizer probes + sanitized native programs", design="DESIGN.md 5/C20"),
}

REASON_PENDING = "not yet claimed: model and theorems under construction (DESIGN.md section 8 gives the order)"


def main():
    props = [json.loads(l) for l in open(os.path.join(V, 'properties.jsonl'))]
    hooks = subprocess.run(['git', '-C', '/repo', 'log', '--format=%H', '--grep=verif hook'], capture_output=True, text=True).stdout.split()
    checks = []
    for p in props:
        pid = p['id']
        if pid not in CLAIMS:
            continue
        if not os.path.exists(os.path.join(V, 'tools', 'props', pid.lower() + '.py')):
            continue
        c = CLAIMS[pid]
        checks.append({
            "property_id": pid,
            "quick_cmd": "python3 tools/check.py %s --tier quick" % pid,
            "thorough_cmd": "python3 tools/check.py %s --tier thorough" % pid,
            "evidence_file": "evidence/%s.json" % pid,
            "replay_cmd_template": "python3 tools/check.py %s --replay {path}" % pid,
            "engine": "coq-nv",
            "level_claimed": {"category": "proof", "text": c['text'], "design_ref": c['design']},
            "level_note": c['note'],
            "technique": c['technique'],
        })
    claimed = {c['property_id'] for c in checks}
    m = {
        "version": 1,
        "setup_cmd": "python3 tools/setup.py",
        "hooks": {"guard": "NANOLANG_VERIF",
                  "enable": "tools/build_repo.py compiles /repo's working tree out of tree into /verif/build/<variant> with -DNANOLANG_VERIF (variants plain, asan, tsan; nohook = guard off)",
                  "baseline_off_cmd": "make -C /repo -f Makefile.gnu test-nanovirt",
                  "source_commits": hooks, "add_only": True},
        "engines": [{"name": "coq-nv", "path": "coq/NV", "serves_properties": sorted(claimed),
                     "kind_free_text": "Coq 8.16 library NV (models, proofs, property theorems), OCaml extraction (nvref_*), C probes linked against the freshly built repo objects, translators regenerating coq/NV/gen/*.v"}],
        "checks": checks,
        "notes": "Every check: rebuild /repo out of tree, regenerate gen/*.v, re-prove Props/Properties_<ID>.v, run the correspondence, replay known findings (known_findings.json + known_findings.d/*.json). See DESIGN.md.",
        "not_applicable": [{"property_id": p['id'], "reason": REASON_PENDING} for p in props if p['id'] not in claimed],
    }
    json.dump(m, open(os.path.join(V, 'MANIFEST.json'), 'w'), indent=1)
    print('claimed:', sorted(claimed))


if __name__ == '__main__':
    main()
