"""Scripted stand-in for nano_cop (C16).  Installed as `nano_cop` in a scratch bin directory that is first on PATH
(vm_ffi_cop_start uses execlp("nano_cop")).  First incarnation: a proxy around the REAL nano_cop that injects one fault at one
protocol step; later incarnations (the VM relaunches after a detected death): exec the real nano_cop.

environment: FAKE_COP_DIR  state directory containing script.json = {"step":..., "k":..., "fault":...}
             FAKE_COP_REAL path of the real nano_cop
steps : before_ready | after_ready | req (before reading the k-th request) | reply (instead of the k-th reply) |
        midreply (after the first half of the k-th reply)
faults: exit0 exit1 kill9 close_stdin close_stdout close_both hang_exit          (process / descriptor faults)
        truncated oversized wrong_type garbage bad_version str_wrap arr_huge deep_nest err_long err_20k err_300k   (message faults)
        errtext strres ready_payload   (well-framed messages whose text/bytes are script["content_hex"]: FFI_ERROR text, string
                                        FFI_RESULT, READY followed by a payload)
Every pid this program creates is appended to FAKE_COP_DIR/pids so the harness can check for survivors by pid."""
import os, sys, json, struct, signal, subprocess, time

D = os.environ['FAKE_COP_DIR']
REAL = os.environ['FAKE_COP_REAL']
HANG_S = float(os.environ.get('FAKE_COP_HANG', '8'))


def log(s):
    with open(os.path.join(D, 'log'), 'a') as f:
        f.write('%d %s\n' % (os.getpid(), s))


def incarnation():
    p = os.path.join(D, 'count')
    n = int(open(p).read()) + 1 if os.path.exists(p) else 1
    open(p, 'w').write(str(n))
    return n


def read_exact(fd, n):
    buf = b''
    while len(buf) < n:
        c = os.read(fd, n - len(buf))
        if not c:
            return None
        buf += c
    return buf


def read_msg(fd):
    h = read_exact(fd, 8)
    if h is None:
        return None
    ln = struct.unpack('<I', h[4:8])[0]
    p = read_exact(fd, ln) if ln else b''
    if p is None:
        return None
    return h, p


def wr(b):
    try:
        os.write(1, b)
    except OSError as e:
        log('write failed: %s' % e)


def main():
    n = incarnation()
    with open(os.path.join(D, 'pids'), 'a') as f:
        f.write('%d\n' % os.getpid())
    if n > 1:
        log('incarnation %d: exec real' % n)
        os.execv(REAL, ['nano_cop'])
    sc = json.load(open(os.path.join(D, 'script.json')))
    step, k, fault = sc['step'], int(sc.get('k', 1)), sc['fault']
    real = subprocess.Popen([REAL], stdin=subprocess.PIPE, stdout=subprocess.PIPE, bufsize=0)
    with open(os.path.join(D, 'pids'), 'a') as f:
        f.write('%d\n' % real.pid)
    rin, rout = real.stdin.fileno(), real.stdout.fileno()

    def kill_real():
        try:
            real.kill(); real.wait()
        except Exception:
            pass

    def hang():
        log('hang')
        kill_real()
        time.sleep(HANG_S)
        os._exit(0)

    def fault_now(good_msg):
        """perform the fault; returns True when the proxy should go on (message faults), never returns otherwise"""
        log('fault %s at %s/%d' % (fault, step, k))
        if fault == 'exit0':
            kill_real(); os._exit(0)
        if fault == 'exit1':
            kill_real(); os._exit(1)
        if fault == 'kill9':
            kill_real(); os.kill(os.getpid(), signal.SIGKILL)
        if fault == 'close_stdin':
            os.close(0); hang()
        if fault == 'close_stdout':
            os.close(1); hang()
        if fault == 'close_both':
            os.close(0); os.close(1); hang()
        if fault == 'hang_exit':
            kill_real(); time.sleep(0.4); os._exit(0)
        ty = good_msg[0][1] if good_msg else 0x10
        if fault == 'truncated':
            # header announces 9 bytes, 3 arrive, then the stream ends while the process stays alive
            wr(struct.pack('<BBHI', 1, ty, 0, 9) + b'\x01\x02\x03'); os.close(1); hang()
        if fault == 'oversized':
            wr(struct.pack('<BBHI', 1, ty, 0, 0x7fffffff))
        elif fault == 'wrong_type':
            wr(struct.pack('<BBHI', 1, 0x7f, 0, 0))
        elif fault == 'garbage':
            wr(bytes((37 * i + 11) % 251 for i in range(16)))
        elif fault == 'bad_version':
            wr(struct.pack('<BBHI', 2, ty, 0, 0))
        elif fault == 'str_wrap':
            wr(struct.pack('<BBHI', 1, 0x10, 0, 5) + b'\x05\xff\xff\xff\xff')
        elif fault == 'arr_huge':
            wr(struct.pack('<BBHI', 1, 0x10, 0, 7) + b'\x07\x01\xff\xff\xff\xff\x00')
        elif fault == 'deep_nest':
            depth = 200000      # one C stack frame per level without a limit: far beyond an 8 MiB stack
            pl = b'\x07\x01\x01\x00\x00\x00' * depth + b'\x00'
            wr(struct.pack('<BBHI', 1, 0x10, 0, len(pl)) + pl)
        elif fault == 'err_long':
            wr(struct.pack('<BBHI', 1, 0x11, 0, 1000) + b'E' * 1000)
        elif fault in ('err_20k', 'err_300k'):
            n = 20000 if fault == 'err_20k' else 300000
            wr(struct.pack('<BBHI', 1, 0x11, 0, n) + b'E' * n)
        elif fault == 'errtext':
            c = bytes.fromhex(sc.get('content_hex', ''))
            wr(struct.pack('<BBHI', 1, 0x11, 0, len(c)) + c)
        elif fault == 'strres':
            c = bytes.fromhex(sc.get('content_hex', ''))
            wr(struct.pack('<BBHI', 1, 0x10, 0, 5 + len(c)) + b'\x05' + struct.pack('<I', len(c)) + c)
        elif fault == 'ready_payload':
            c = bytes.fromhex(sc.get('content_hex', ''))
            wr(struct.pack('<BBHI', 1, 0x12, 0, len(c)) + c)
        else:
            raise SystemExit('unknown fault ' + fault)
        return True

    init = read_msg(0)
    if init is None:
        kill_real(); os._exit(0)
    os.write(rin, init[0] + init[1])
    ready = read_msg(rout)
    if ready is None:
        log('real cop gave no READY'); os._exit(3)
    if step == 'before_ready':
        fault_now(ready)          # message faults: the bad message takes the place of READY
    else:
        if step == 'after_ready' and fault in ('close_stdin', 'close_both'):
            # close first, then announce READY: the VM's first request deterministically meets a closed pipe
            log('fault %s at after_ready (closed before READY was sent)' % fault)
            os.close(0); wr(ready[0] + ready[1])
            if fault == 'close_both':
                os.close(1)
            hang()
        wr(ready[0] + ready[1])
        if step == 'after_ready':
            fault_now(None)
    i = 0
    while True:
        i += 1
        if step == 'req' and k == i:
            fault_now(None)
        m = read_msg(0)
        if m is None:
            log('eof on stdin'); kill_real(); os._exit(0)
        try:
            os.write(rin, m[0] + m[1])
        except OSError:
            os._exit(0)
        if m[0][1] == 0x03:       # SHUTDOWN
            log('shutdown'); real.wait(); os._exit(0)
        r = read_msg(rout)
        if r is None:
            log('real cop died'); os._exit(4)
        if step == 'reply' and k == i:
            fault_now(r)
            continue
        if step == 'midreply' and k == i:
            whole = r[0] + r[1]
            wr(whole[:8 + len(r[1]) // 2])
            fault_now(r)
            wr(whole[8 + len(r[1]) // 2:])
            continue
        wr(r[0] + r[1])


if __name__ == '__main__':
    try:
        main()
    except SystemExit:
        raise
    except BaseException as e:
        import traceback
        log('exception %r\n%s' % (e, traceback.format_exc()))
        os._exit(5)
