/* dump_fmtsb: prints the C text of the string builder that stdlib_runtime.c emits into every native program
   (typedef nl_fmt_sb_t ... nl_fmt_sb_build), exactly as generate_string_operations produces it (only sb_append is supplied
   here).  Consumed by gen_fmtsb.py: the text is (a) parsed for the growth rule and the constants, (b) compiled into probes/sb_probe.c. */
#include <stdio.h>
#include <stdlib.h>
#include <string.h>
#include "stdlib_runtime.h"

static char *acc; static size_t acc_len, acc_cap;
StringBuilder *sb_create(void) { return calloc(1, sizeof(StringBuilder)); }
void sb_append(StringBuilder *sb, const char *s) {
    (void)sb; size_t n = strlen(s);
    if (acc_len + n + 1 > acc_cap) { acc_cap = (acc_len + n + 1) * 2; acc = realloc(acc, acc_cap); }
    memcpy(acc + acc_len, s, n + 1); acc_len += n;
}

int main(void) {
    generate_string_operations(NULL);
    const char *start = strstr(acc, "typedef struct {\n    char *buf;");
    const char *fn = start ? strstr(start, "static char* nl_fmt_sb_build(") : NULL;
    const char *end = fn ? strstr(fn, "\n}\n") : NULL;
    if (!end) { fprintf(stderr, "nl_fmt_sb_* not emitted in the expected order\n"); return 1; }
    printf("%.*s\n}\n", (int)(end - start), start);
    return 0;
}
