/* Translator (T): prints the daemon wire-protocol constants of the repo's current vmd_protocol.h, plus golden frames
   produced by the real vmd_msg_send* functions (vmd_protocol.c is compiled in) written into a pipe and read back. */
#include <stdio.h>
#include <stddef.h>
#include <string.h>
#include <unistd.h>
#include <sys/socket.h>
#include "vmd_protocol.h"
#include "vmd_server.h"
#include "../nanoisa/verifier.h"

static void golden(const char *name, int which) {
    int p[2];
    if (pipe(p) != 0) return;
    bool ok = false;
    switch (which) {
        case 0: ok = vmd_msg_send_simple(p[1], VMD_MSG_PONG); break;
        case 1: ok = vmd_msg_send_exit(p[1], 1); break;
        case 2: ok = vmd_msg_send_exit(p[1], 0); break;
        case 3: ok = vmd_msg_send_error(p[1], "Unknown message type"); break;
        case 4: ok = vmd_msg_send_output(p[1], "ab\n", 3); break;
        case 5: ok = vmd_msg_send(p[1], VMD_MSG_STATUS_RSP, "active_clients=1", 16); break;
        case 6: ok = vmd_msg_send_exit(p[1], -2); break;
        case 7: ok = vmd_msg_send_simple(p[1], VMD_MSG_PING); break;
    }
    close(p[1]);
    unsigned char buf[256];
    ssize_t n = read(p[0], buf, sizeof buf);
    close(p[0]);
    printf("GOLDEN %s %d", name, ok ? 1 : 0);
    for (ssize_t i = 0; i < n; i++) printf(" %u", buf[i]);
    printf("\n");
}

int main(void) {
    printf("VERSION %d\n", VMD_PROTO_VERSION);
    printf("HEADER_SIZE %d\n", VMD_HEADER_SIZE);
    printf("SIZEOF_HEADER %zu\n", sizeof(VmdMsgHeader));
    printf("OFF_VERSION %zu\n", offsetof(VmdMsgHeader, version));
    printf("OFF_TYPE %zu\n", offsetof(VmdMsgHeader, msg_type));
    printf("OFF_FLAGS %zu\n", offsetof(VmdMsgHeader, flags));
    printf("OFF_LEN %zu\n", offsetof(VmdMsgHeader, payload_len));
    printf("MAX_PAYLOAD %lld\n", (long long)VMD_MAX_PAYLOAD);
    printf("MSG LOAD_EXEC %d\n", VMD_MSG_LOAD_EXEC);
    printf("MSG PING %d\n", VMD_MSG_PING);
    printf("MSG STATUS %d\n", VMD_MSG_STATUS);
    printf("MSG SHUTDOWN %d\n", VMD_MSG_SHUTDOWN);
    printf("MSG OUTPUT %d\n", VMD_MSG_OUTPUT);
    printf("MSG EXIT_CODE %d\n", VMD_MSG_EXIT_CODE);
    printf("MSG ERROR %d\n", VMD_MSG_ERROR);
    printf("MSG PONG %d\n", VMD_MSG_PONG);
    printf("MSG STATUS_RSP %d\n", VMD_MSG_STATUS_RSP);
    printf("DEFAULT_IDLE_TIMEOUT %d\n", VMD_DEFAULT_IDLE_TIMEOUT);
    printf("VERIFY_ERROR_SIZE %d\n", NVM_VERIFY_ERROR_SIZE);
    printf("SO_RCVTIMEO %d\n", SO_RCVTIMEO);
    printf("SO_SNDTIMEO %d\n", SO_SNDTIMEO);
    golden("pong", 0); golden("exit1", 1); golden("exit0", 2); golden("err_unknown", 3);
    golden("output_ab", 4); golden("status1", 5); golden("exit_m2", 6); golden("ping", 7);
    return 0;
}
