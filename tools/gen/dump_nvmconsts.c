/* dump_nvmconsts: prints the wire-format constants, the CRC table built by the repo's own crc32_init and
   nvm_crc32 test vectors.  nvm_format.c is #included so that the static table is visible; nothing is
   re-implemented here.  Output is line oriented, consumed by gen_nvmconsts.py. */
#include "nvm_format.c"

static void vec(const uint8_t *p, uint32_t n) {
    printf("VEC ");
    if (n == 0) printf("-");
    for (uint32_t i = 0; i < n; i++) printf("%02x", p[i]);
    printf(" %u\n", nvm_crc32(p, n));
}

static int hexv(int c) { return c <= '9' ? c - '0' : (c | 32) - 'a' + 10; }

int main(int argc, char **argv) {
    if (argc == 3 && !strcmp(argv[1], "load")) {          /* load <hex>: does the current nvm_deserialize accept these bytes? */
        size_t n = strlen(argv[2]) / 2;
        uint8_t *b = malloc(n ? n : 1);
        for (size_t i = 0; i < n; i++) b[i] = (uint8_t)(hexv(argv[2][2*i]) * 16 + hexv(argv[2][2*i+1]));
        NvmModule *m = nvm_deserialize(b, (uint32_t)n);
        printf("%d\n", m != NULL);
        return 0;
    }
    if (argc == 2 && !strcmp(argv[1], "sample")) {        /* a small valid file written by the current nvm_serialize */
        NvmModule *m = nvm_module_new();
        m->header.flags = NVM_FLAG_HAS_MAIN;
        uint32_t nm = nvm_add_string(m, "main", 4);
        uint8_t code[3] = {0x01, 0x07, 0x3d};
        nvm_append_code(m, code, 3);
        NvmFunctionEntry f; memset(&f, 0, sizeof f); f.name_idx = nm; f.code_length = 3;
        nvm_add_function(m, &f);
        uint32_t sz = 0; uint8_t *bytes = nvm_serialize(m, &sz);
        for (uint32_t i = 0; i < sz; i++) printf("%02x", bytes[i]);
        printf("\n");
        return 0;
    }
    printf("MAGIC %u %u %u %u\n", (unsigned)(uint8_t)NVM_MAGIC_0, (unsigned)(uint8_t)NVM_MAGIC_1,
           (unsigned)(uint8_t)NVM_MAGIC_2, (unsigned)(uint8_t)NVM_MAGIC_3);
    printf("C format_version %u\n", (unsigned)NVM_FORMAT_VERSION);
    printf("C header_size %u\n", (unsigned)NVM_HEADER_SIZE);
    printf("C section_entry_size %u\n", (unsigned)NVM_SECTION_ENTRY_SIZE);
    printf("C function_entry_size %u\n", (unsigned)NVM_FUNCTION_ENTRY_SIZE);
    printf("C debug_entry_size %u\n", (unsigned)NVM_DEBUG_ENTRY_SIZE);
    printf("C import_entry_base_size %u\n", (unsigned)NVM_IMPORT_ENTRY_BASE_SIZE);
    printf("C max_sections %u\n", (unsigned)NVM_MAX_SECTIONS);
    printf("C sec_code %u\n", (unsigned)NVM_SECTION_CODE);
    printf("C sec_strings %u\n", (unsigned)NVM_SECTION_STRINGS);
    printf("C sec_functions %u\n", (unsigned)NVM_SECTION_FUNCTIONS);
    printf("C sec_imports %u\n", (unsigned)NVM_SECTION_IMPORTS);
    printf("C sec_debug %u\n", (unsigned)NVM_SECTION_DEBUG);
    printf("C flag_has_main %u\n", (unsigned)NVM_FLAG_HAS_MAIN);
    printf("C flag_needs_extern %u\n", (unsigned)NVM_FLAG_NEEDS_EXTERN);
    printf("C flag_debug_info %u\n", (unsigned)NVM_FLAG_DEBUG_INFO);
    /* widths of the in-memory fields the serializer writes (bytes) */
    printf("W fn %u %u %u %u %u %u\n", (unsigned)sizeof(((NvmFunctionEntry *)0)->name_idx),
           (unsigned)sizeof(((NvmFunctionEntry *)0)->arity), (unsigned)sizeof(((NvmFunctionEntry *)0)->code_offset),
           (unsigned)sizeof(((NvmFunctionEntry *)0)->code_length), (unsigned)sizeof(((NvmFunctionEntry *)0)->local_count),
           (unsigned)sizeof(((NvmFunctionEntry *)0)->upvalue_count));
    printf("W imp %u %u %u %u\n", (unsigned)sizeof(((NvmImportEntry *)0)->module_name_idx),
           (unsigned)sizeof(((NvmImportEntry *)0)->function_name_idx), (unsigned)sizeof(((NvmImportEntry *)0)->param_count),
           (unsigned)sizeof(((NvmImportEntry *)0)->return_type));
    printf("W dbg %u %u\n", (unsigned)sizeof(((NvmDebugEntry *)0)->bytecode_offset),
           (unsigned)sizeof(((NvmDebugEntry *)0)->source_line));
    crc32_init();
    printf("TABLE");
    for (int i = 0; i < 256; i++) printf(" %u", crc32_table[i]);
    printf("\n");
    /* test vectors: empty, every one-byte buffer, a few longer ones with a fixed LCG */
    uint8_t buf[64];
    vec(buf, 0);
    for (int b = 0; b < 256; b++) { buf[0] = (uint8_t)b; vec(buf, 1); }
    uint32_t s = 12345;
    for (int n = 2; n <= 40; n++) {
        for (int i = 0; i < n; i++) { s = s * 1103515245u + 12345u; buf[i] = (uint8_t)(s >> 16); }
        vec(buf, (uint32_t)n);
    }
    memset(buf, 0, sizeof buf); vec(buf, 4); vec(buf, 33);
    memset(buf, 0xff, sizeof buf); vec(buf, 4); vec(buf, 33);
    memcpy(buf, "123456789", 9); vec(buf, 9);
    return 0;
}
