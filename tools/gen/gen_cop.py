"""T: /repo/src/nanovm/cop_protocol.h + isa.h (tags, message types, header geometry, limits; printed by dump_cop.c)
and the fixed buffer sizes / argument caps of vm_ffi_call_cop (vm_ffi.c) and handle_ffi_req (cop_main.c), read from the
clang AST (array types of the local buffers, loop bounds)  ->  coq/NV/gen/CopConst.v"""
import os, re
from genlib import run_dump, write_if_changed, GEN_DIR
import clang_ast as ca


def _array_len(fn, var):
    for n in ca.walk(fn):
        if n.get('kind') == 'VarDecl' and n.get('name') == var:
            m = re.search(r'\[(\d+)\]$', n['type'].get('desugaredQualType', n['type']['qualType']))
            if m:
                return int(m.group(1))
            v = ca.const_eval(n['inner'][0]) if n.get('inner') else None
            if v is not None:
                return v
    raise RuntimeError('no local %s in %s' % (var, fn.get('name')))


def _is_reassigned(fn, var):
    """is the local ever the target of an assignment / compound assignment after its declaration?"""
    for n in ca.walk(fn):
        if n.get('kind') in ('BinaryOperator', 'CompoundAssignOperator') and n.get('opcode') in ('=', '*=', '+=', '<<='):
            lhs = n['inner'][0]
            while lhs.get('kind') in ('ImplicitCastExpr', 'ParenExpr'):
                lhs = lhs['inner'][0]
            if lhs.get('kind') == 'DeclRefExpr' and lhs.get('referencedDecl', {}).get('name') == var:
                return True
    return False


def _too_large_message(fn, err_type):
    for blk in ca.walk(fn):
        if blk.get('kind') != 'CompoundStmt':
            continue
        decls = [d for st in blk.get('inner', []) if st.get('kind') == 'DeclStmt' for d in st.get('inner', [])
                 if d.get('kind') == 'VarDecl' and d.get('name') == 'big_size']
        if not decls:
            continue
        for c in ca.walk(blk):
            if c.get('kind') == 'CallExpr' and ca.callee_name(c) == 'cop_send':
                args = c['inner'][1:]
                tyname = [n.get('referencedDecl', {}).get('name') for n in ca.walk(args[1]) if n.get('kind') == 'DeclRefExpr']
                if len(args) >= 4 and (ca.const_eval(args[1]) == err_type or tyname == ['COP_MSG_FFI_ERROR']):
                    lit = [n for n in ca.walk(args[2]) if n.get('kind') == 'StringLiteral']
                    ln = ca.const_eval(args[3])
                    if lit and ln is not None:
                        import ast
                        text = ast.literal_eval(lit[0]['value'])
                        if 'OOM' in text:
                            continue
                        return text.encode('latin-1')[:ln]
    raise RuntimeError('handle_ffi_req: no FFI_ERROR answer for a result that fits no buffer (the model describes one)')


def _ffi_error_report(b):
    """how TRAP_EXTERN_CALL reports a failed extern call: vm_error(vm, code, <format>, ext_err).  The model treats the text the
    co-process sent as DATA: the format must be a string literal consisting of a fixed prefix followed by a single %s whose
    argument is the buffer the FFI layer filled.  Returns (prefix bytes, size of that buffer)."""
    import ast
    fn = ca.functions(b, 'src/nanovm/vm.c', ['vm_call_function'])['vm_call_function']
    size = _array_len(fn, 'ext_err')
    found = []
    for c in ca.walk(fn):
        if c.get('kind') == 'CallExpr' and ca.callee_name(c) == 'vm_error':
            args = c['inner'][1:]
            refs = [n.get('referencedDecl', {}).get('name') for a in args for n in ca.walk(a) if n.get('kind') == 'DeclRefExpr']
            if 'ext_err' not in refs:
                continue
            if len(args) < 4:
                raise RuntimeError('TRAP_EXTERN_CALL: vm_error is called with the FFI error text as its FORMAT argument '
                                   '(no literal format): text chosen by the co-process would be interpreted by printf')
            lit = [n for n in ca.walk(args[2]) if n.get('kind') == 'StringLiteral']
            fmtrefs = [n for n in ca.walk(args[2]) if n.get('kind') == 'DeclRefExpr']
            if not lit or fmtrefs:
                raise RuntimeError('TRAP_EXTERN_CALL: the format of vm_error is not a string literal')
            text = ast.literal_eval(lit[0]['value'])
            if not text.endswith('%s') or '%' in text[:-2]:
                raise RuntimeError('TRAP_EXTERN_CALL: unexpected format %r (the model describes <prefix>%%s)' % text)
            a3 = [n.get('referencedDecl', {}).get('name') for n in ca.walk(args[3]) if n.get('kind') == 'DeclRefExpr']
            if a3 != ['ext_err']:
                raise RuntimeError('TRAP_EXTERN_CALL: the %%s argument is not ext_err')
            found.append(text[:-2].encode('latin-1'))
    if len(found) != 1:
        raise RuntimeError('TRAP_EXTERN_CALL: expected exactly one vm_error report of ext_err, found %d' % len(found))
    return found[0], size


def _depth_limit(fd):
    lims = set()
    for fn in fd.values():
        for n in ca.walk(fn):
            if n.get('kind') == 'BinaryOperator' and n.get('opcode') in ('>=', '>'):
                names = [m.get('referencedDecl', {}).get('name') for m in ca.walk(n['inner'][0]) if m.get('kind') == 'DeclRefExpr']
                if names == ['depth']:
                    v = ca.const_eval(n['inner'][1])
                    if v is not None:
                        lims.add(v if n['opcode'] == '>=' else v + 1)
    if len(lims) != 1:
        raise RuntimeError('nesting limit of the value decoder not found (the model describes one): %s' % lims)
    return lims.pop()


def _loop_arg_cap(fn):
    """the N of `for (...; i < argc && i < N; ...)` around the (de)serialize call."""
    caps = set()
    for n in ca.walk(fn):
        if n.get('kind') != 'ForStmt':
            continue
        calls = [ca.callee_name(c) for c in ca.walk(n) if c.get('kind') == 'CallExpr']
        if not any(c in ('cop_serialize_value', 'cop_deserialize_value') for c in calls):
            continue
        cond = n['inner'][2]
        for c in ca.walk(cond):
            if c.get('kind') == 'BinaryOperator' and c.get('opcode') == '<':
                v = ca.const_eval(c['inner'][1])
                if v is not None:
                    caps.add(v)
    if len(caps) != 1:
        raise RuntimeError('argument cap of %s not found: %s' % (fn.get('name'), caps))
    return caps.pop()


def generate(b):
    out = run_dump(b, 'dump_cop.c')
    kv = {}
    for line in out.splitlines():
        k, v = line.split()
        kv[k] = int(v)
    if kv['LITTLE_ENDIAN'] != 1:
        raise RuntimeError('big-endian host: the byte-level model assumes little endian')
    # the request is built in vm_ffi_call_cop (or, after a refactoring, in a static helper it calls: looked up by the presence
    # of the cop_serialize_value loop)
    fs = ca.functions(b, 'src/nanovm/vm_ffi.c', ['vm_ffi_call_cop', 'call_cop_impl', 'vm_ffi_call_cop_impl'])
    f1 = next((f for f in fs.values()
               if any(ca.callee_name(c) == 'cop_serialize_value' for c in ca.walk(f) if c.get('kind') == 'CallExpr')), None)
    if f1 is None:
        raise RuntimeError('no function of vm_ffi.c builds the co-process request with cop_serialize_value')
    f2 = ca.functions(b, 'src/nanovm/cop_main.c', ['handle_ffi_req'])['handle_ffi_req']
    notes = []
    MAXP = kv['COP_MAX_PAYLOAD']
    try:
        kv['REQ_BUF_SIZE'] = _array_len(f1, 'payload')
    except RuntimeError:
        # `payload` is a pointer: the request starts in the fixed array `stack_payload` and the capacity is doubled while it is
        # below COP_MAX_PAYLOAD (loop `while (n == 0 && cap < COP_MAX_PAYLOAD)`); the largest capacity ever tried is the bound
        c = _array_len(f1, 'stack_payload')
        kv['REQ_STACK_BUF'] = c
        if not _is_reassigned(f1, 'cap'):
            raise RuntimeError('request buffer of %s: neither a fixed array nor a growing capacity' % f1['name'])
        while c < MAXP:
            c *= 2
        kv['REQ_BUF_SIZE'] = c
        notes.append('REQ_BUF_SIZE: %s grows its buffer by doubling from %d while below COP_MAX_PAYLOAD; largest capacity = %d'
                     % (f1['name'], _array_len(f1, 'stack_payload'), c))
    kv['REQ_MAX_ARGS'] = _loop_arg_cap(f1)
    kv['COP_ARGS_MAX'] = _loop_arg_cap(f2)
    kv['COP_ARGS_ARRAY'] = _array_len(f2, 'args')
    kv['COP_REPLY_STACK_BUF'] = _array_len(f2, 'stack_buf')
    kv['COP_REPLY_BIG_BUF'] = _array_len(f2, 'big_size')
    kv['COP_REPLY_BIG_INITIAL'] = kv['COP_REPLY_BIG_BUF']
    if _is_reassigned(f2, 'big_size'):
        c = kv['COP_REPLY_BIG_BUF']
        while c * 2 <= MAXP:
            c *= 2
        notes.append('COP_REPLY_BIG_BUF: big_size starts at %d and is doubled while <= COP_MAX_PAYLOAD in handle_ffi_req; largest buffer tried = %d'
                     % (kv['COP_REPLY_BIG_BUF'], c))
        kv['COP_REPLY_BIG_BUF'] = c
    # what the co-process sends when the result fits no buffer: the FFI_ERROR text in the block that declares big_size
    msg = _too_large_message(f2, kv['COP_MSG_FFI_ERROR'])
    # nesting limit of the decoder: the constant `depth` is compared with in the function that decodes values
    fd = ca.functions(b, 'src/nanovm/cop_protocol.c', ['deserialize_value_at', 'cop_deserialize_value'])
    kv['COP_MAX_NESTING'] = _depth_limit(fd)
    v = ['(* GENERATED by tools/gen/gen_cop.py from /repo/src/nanovm/{cop_protocol.h,vm_ffi.c,cop_main.c} + nanoisa/isa.h -- do not edit *)',
         'From Coq Require Import NArith List.', 'Import ListNotations.', 'Local Open Scope N_scope.', '']
    for n_ in notes:
        v.append('(* %s *)' % n_)
    for k in kv:
        v.append('Definition %s : N := %d.' % (k, kv[k]))
    prefix, esz = _ffi_error_report(b)
    v.append('Definition VM_EXT_ERR_SIZE : N := %d.   (* char ext_err[..] in TRAP_EXTERN_CALL: the error text is cut to one byte less *)' % esz)
    v.append('Definition VM_FFI_ERR_PREFIX : list N := [%s].   (* %r: literal format of the report is this prefix followed by %%s *)'
             % ('; '.join(str(x) for x in prefix), prefix.decode('latin-1')))
    v.append('Definition COP_REPLY_TOO_LARGE_MSG : list N := [%s].   (* %r *)' % ('; '.join(str(x) for x in msg), msg.decode('latin-1')))
    v.append('')
    return write_if_changed(os.path.join(GEN_DIR, 'CopConst.v'), '\n'.join(v))
