"""T: /repo/src/parser.c (clang -Xclang -ast-dump=json)  ->  coq/NV/gen/ParserLoops.v

For every while/for/do loop of every function defined in parser.c a *summary*, and the call graph with the
functions that guard the recursion-depth counter.  The theorems of Properties_C09 are computed over this data.

RULES (this header is the specification of the translator; tools/gen/test_parserloops.c holds hand-made loops
with their expected summaries, checked on every run):

 Cursor functions  = advance, expect and every function of parser.c from which `advance` is reachable in the call graph.
 Counted loop      = `for (i = e; i < bound; i++)` (also <=, +=c) whose body never assigns i and calls no cursor function:
                     terminates by its counter; summary LCounted.
 Cursor loop       = every other loop.  One iteration is interpreted abstractly, path by path, with the state
                       adv    in {0,1}   the cursor has certainly moved forward since the iteration began
                       maybe  in {0,1}   advance() was called while the current token could be EOF (no-op there)
                       noneof in {T,?}   the current token is certainly not EOF
                       env               variables holding the result of a sub-parser call / expect (succ or fail),
                                         variables aliasing current_token(p)
                     and these transfer rules:
   match(p,T) as a condition : true branch: noneof := (T != TOKEN_EOF); false branch of match(p,TOKEN_EOF): noneof := T
   tok->token_type == T / != T / switch case T (tok an alias of the current token): likewise
   pred(tok->token_type) with pred a token-set predicate (body = `return type==A || ...`): true branch noneof := EOF not in set
   advance(p)                : if noneof then adv := 1 else maybe := 1;  noneof := ?, aliases dropped
   expect(p,T,..)            : two successors: success (adv := 1 when T != EOF) and failure (state unchanged)
   f(..) for a cursor function f : two successors: success (adv := 1 if f has the property "success => advanced", see below)
                               and failure (adv unchanged); noneof := ?, aliases dropped; the result is remembered
                               under the assigned lvalue so that a later test `if (!v)`, `v == NULL`, `v == TYPE_UNKNOWN`
                               selects the right successor.  A result that is never tested therefore flows to the
                               back edge on its failure successor with adv = 0.
   p->pos-- / parser.pos--   : allowed only directly after one effective advance (adv := 0), otherwise the path is PUnknown
   inner loop                : skipped with noneof := ?, aliases dropped, adv kept; its `return`s are exits of the outer loop
   break (of this loop), return, goto : the path ends as PExit
   continue / end of body    : back edge: PAdv if adv, else PAdvMaybe if maybe, else PStuck
 "success => advanced" for a cursor function: every `return` of a success value (non-NULL / not TYPE_UNKNOWN / true) is
   reached with adv = 1 from the function entry; computed as greatest fixpoint over all cursor functions.
 A loop *progresses* (Coq: NV.Front.RecoveryLoops.progresses) when no path is PStuck/PUnknown and, if some path is
   PAdvMaybe, the loop condition excludes EOF (then an ineffective advance leaves the cursor on EOF and the next test exits).
 Depth guard: a function is *guarded* when it increments `recursion_depth` and returns when it exceeds a bound.
 all_cycles_guarded = the call graph restricted to unguarded functions is acyclic (Coq: by computation).

Trusted: clang's AST, and these rules (soundness argued above, not proved)."""
import os, sys, json, subprocess, collections
from genlib import write_if_changed, GEN_DIR, REPO, VERIF

EOF = 'TOKEN_EOF'


# ----------------------------------------------------------------------------------------- AST helpers
def clang_ast(path, extra=()):
    cmd = ['clang', '-std=c99', '-I' + os.path.join(REPO, 'src'), '-D_GNU_SOURCE', '-DNANOLANG_VERIF', '-w', '-fsyntax-only',
           '-Xclang', '-ast-dump=json'] + list(extra) + [path]
    r = subprocess.run(cmd, capture_output=True, timeout=300)
    if r.returncode != 0 or not r.stdout:
        raise RuntimeError('clang ast dump failed: %s\n%s' % (' '.join(cmd), r.stderr.decode()[-2000:]))
    return json.loads(r.stdout)


def kids(n):
    return [c for c in (n.get('inner') or [])]


def strip(n):
    """drop casts / parentheses / ConstantExpr wrappers"""
    while n is not None and n.get('kind') in ('ImplicitCastExpr', 'ParenExpr', 'CStyleCastExpr', 'ConstantExpr') and kids(n):
        n = kids(n)[-1]
    return n


def line_of(n, cur=[0]):
    b = (n.get('range') or {}).get('begin') or {}
    for k in (b, b.get('expansionLoc') or {}, b.get('spellingLoc') or {}):
        if 'line' in k:
            return k['line']
    return None


def key_of(n):
    """structural text of an lvalue / simple expression (used as environment key)"""
    n = strip(n)
    if n is None:
        return None
    k = n.get('kind')
    if k == 'DeclRefExpr':
        return n.get('referencedDecl', {}).get('name')
    if k == 'MemberExpr':
        b = key_of(kids(n)[0])
        return None if b is None else b + ('->' if n.get('isArrow') else '.') + n.get('name', '?')
    if k == 'ArraySubscriptExpr':
        a, b = key_of(kids(n)[0]), key_of(kids(n)[1])
        return None if a is None or b is None else '%s[%s]' % (a, b)
    if k == 'UnaryOperator' and n.get('opcode') in ('*', '&'):
        a = key_of(kids(n)[0])
        return None if a is None else n['opcode'] + a
    if k == 'IntegerLiteral':
        return n.get('value')
    if k == 'UnaryOperator' and n.get('opcode') in ('++', '--'):
        a = key_of(kids(n)[0])          # args[count++]: keyed by the un-incremented text; distinct from args[count]
        return None if a is None else a + n['opcode']
    return None


def callee(n):
    n = strip(n)
    if n is not None and n.get('kind') == 'CallExpr':
        f = strip(kids(n)[0])
        if f is not None and f.get('kind') == 'DeclRefExpr':
            return f.get('referencedDecl', {}).get('name')
    return None


def enum_const(n):
    n = strip(n)
    if n is not None and n.get('kind') == 'DeclRefExpr' and n.get('referencedDecl', {}).get('kind') == 'EnumConstantDecl':
        return n['referencedDecl']['name']
    return None


def is_null(n):
    n = strip(n)
    if n is None:
        return False
    if n.get('kind') == 'IntegerLiteral' and n.get('value') == '0':
        return True
    if n.get('kind') == 'GNUNullExpr':
        return True
    return False


def walk(n):
    yield n
    for c in kids(n):
        yield from walk(c)


# ----------------------------------------------------------------------------------------- abstract state
class St:
    __slots__ = ('adv', 'maybe', 'noneof', 'env', 'nadv', 'unknown', 'tokis')

    def __init__(self, adv=0, maybe=0, noneof=False, env=frozenset(), nadv=0, unknown=0, tokis=None):
        self.adv, self.maybe, self.noneof, self.env, self.nadv, self.unknown, self.tokis = adv, maybe, noneof, env, nadv, unknown, tokis

    def key(self):
        return (self.adv, self.maybe, self.noneof, self.env, self.nadv, self.unknown, self.tokis)

    def __hash__(self): return hash(self.key())
    def __eq__(self, o): return self.key() == o.key()

    def copy(self, **kw):
        s = St(self.adv, self.maybe, self.noneof, self.env, self.nadv, self.unknown, self.tokis)
        for k, v in kw.items():
            setattr(s, k, v)
        return s

    def get(self, k):
        for a, b in self.env:
            if a == k:
                return b
        return None

    def bind(self, k, v):
        if k is None:
            return self
        import re
        pat = re.compile(r'(?<![A-Za-z0-9_])' + re.escape(k) + r'(?![A-Za-z0-9_])') if re.fullmatch(r'[A-Za-z_][A-Za-z0-9_]*', k) else None
        # a changed variable also invalidates every remembered lvalue that mentions it (args[count] after count++)
        e = frozenset((a, b) for a, b in self.env if a != k and not (pat and pat.search(a)))
        if v is not None:
            e = e | {(k, v)}
        return self.copy(env=e)

    def moved(self):
        """the cursor may have moved: aliases of the current token die, noneof is forgotten"""
        return self.copy(noneof=False, tokis=None, env=frozenset((a, b) for a, b in self.env if b != 'CUR'))


class Analyzer:
    def __init__(self, tu, filename):
        self.fns = {}
        for x in kids(tu):
            if x.get('kind') == 'FunctionDecl' and any(c.get('kind') == 'CompoundStmt' for c in kids(x)):
                loc = x.get('loc', {})
                if loc.get('includedFrom') is None and 'includedFrom' not in (loc.get('spellingLoc') or {}) and 'includedFrom' not in (loc.get('expansionLoc') or {}):
                    self.fns[x['name']] = x
        self.filename = filename
        # call graph
        self.calls = {f: sorted({callee(n) for n in walk(d) if callee(n)} & set(self.fns)) for f, d in self.fns.items()}
        # cursor functions: from which advance is reachable
        self.cursor = set()
        changed = True
        while changed:
            changed = False
            for f, cs in self.calls.items():
                if f not in self.cursor and (f == 'advance' or any(c in self.cursor for c in cs)):
                    self.cursor.add(f); changed = True
        self.primitive = {'advance', 'expect', 'match', 'current_token', 'peek_token'}
        self.subparsers = sorted(self.cursor - self.primitive)
        self.tokpreds = self.find_token_predicates()
        self.fail_value = {f: self.failure_kind(self.fns[f]) for f in self.subparsers}
        self.succ_adv = {f: True for f in self.subparsers}
        self.guarded = sorted(f for f, d in self.fns.items() if self.is_depth_guarded(d))
        # call edges that are NOT inside a depth-guarded region of their function
        self.unguarded_calls = {f: sorted(self.unguarded_edges(d)) for f, d in self.fns.items()}

    # -- function classification
    def find_token_predicates(self):
        out = {}
        for f, d in self.fns.items():
            params = [c for c in kids(d) if c.get('kind') == 'ParmVarDecl']
            body = [c for c in kids(d) if c.get('kind') == 'CompoundStmt'][0]
            st = kids(body)
            if len(params) == 1 and len(st) == 1 and st[0].get('kind') == 'ReturnStmt':
                consts = []
                ok = True
                for n in walk(st[0]):
                    k = n.get('kind')
                    if k in ('ReturnStmt', 'ParenExpr', 'ImplicitCastExpr', 'ConstantExpr'):
                        continue
                    if k == 'BinaryOperator' and n.get('opcode') in ('||', '=='):
                        continue
                    if k == 'DeclRefExpr':
                        if n.get('referencedDecl', {}).get('kind') == 'EnumConstantDecl':
                            consts.append(n['referencedDecl']['name'])
                        elif n.get('referencedDecl', {}).get('name') != params[0].get('name'):
                            ok = False
                        continue
                    ok = False
                if ok and consts:
                    out[f] = sorted(set(consts))
        return out

    def failure_kind(self, d):
        t = d.get('type', {}).get('qualType', '')
        ret = t.split('(')[0].strip()
        if ret.endswith('*'):
            return 'null'
        if ret == 'Type':
            return 'TYPE_UNKNOWN'
        if ret in ('bool', '_Bool'):
            return 'false'
        return 'none'          # void / other: no failure value, success => advanced is not claimed

    def is_depth_guarded(self, d):
        inc = chk = False
        for n in walk(d):
            if n.get('kind') == 'UnaryOperator' and n.get('opcode') == '++' and (key_of(kids(n)[0]) or '').endswith('recursion_depth'):
                inc = True
            if n.get('kind') == 'IfStmt':
                c = strip(kids(n)[0])
                if c is not None and c.get('kind') == 'BinaryOperator' and c.get('opcode') in ('>', '>=') and \
                        (key_of(kids(c)[0]) or '').endswith('recursion_depth') and any(m.get('kind') == 'ReturnStmt' for m in walk(kids(n)[1])):
                    chk = True
        return inc and chk

    def unguarded_edges(self, d):
        """callees (functions of this file) called from a place that is not preceded, in an enclosing statement list, by
        `recursion_depth++` + `if (recursion_depth > bound) return` (and not yet followed by `recursion_depth--`)."""
        out = set()

        def is_inc(n):
            n = strip(n)
            return n is not None and n.get('kind') == 'UnaryOperator' and n.get('opcode') == '++' and (key_of(kids(n)[0]) or '').endswith('recursion_depth')

        def is_dec(n):
            n = strip(n)
            return n is not None and n.get('kind') == 'UnaryOperator' and n.get('opcode') == '--' and (key_of(kids(n)[0]) or '').endswith('recursion_depth')

        def is_check(n):
            if n.get('kind') != 'IfStmt':
                return False
            c = strip(kids(n)[0])
            if c is None:
                return False
            direct = c.get('kind') == 'BinaryOperator' and c.get('opcode') in ('>', '>=') and (key_of(kids(c)[0]) or '').endswith('recursion_depth')
            return direct and any(m.get('kind') == 'ReturnStmt' for m in walk(kids(n)[1]))

        def guard_call(n):
            """`if (!enter_nested(p, ..)) return ..;` where enter_nested is itself an increment+check function"""
            if n.get('kind') != 'IfStmt':
                return False
            c = strip(kids(n)[0])
            if c is not None and c.get('kind') == 'UnaryOperator' and c.get('opcode') == '!':
                f = callee(kids(c)[0])
                if f in self.fns and self.is_depth_guarded(self.fns[f]) and any(m.get('kind') == 'ReturnStmt' for m in walk(kids(n)[1])):
                    return True
            return False

        def visit(n, guarded):
            k = n.get('kind')
            if k == 'CompoundStmt':
                g = guarded
                pending_inc = False
                for c in kids(n):
                    if is_inc(c):
                        pending_inc = True
                        continue
                    if pending_inc and is_check(c):
                        g = True; pending_inc = False
                        visit(c, guarded)
                        continue
                    if guard_call(c):
                        visit(c, guarded)
                        g = True
                        continue
                    if is_dec(c):
                        g = guarded
                        continue
                    visit(c, g)
                return
            f = callee(n)
            if f in self.fns and not guarded:
                out.add(f)
            for c in kids(n):
                visit(c, guarded)
        body = [c for c in kids(d) if c.get('kind') == 'CompoundStmt'][0]
        visit(body, False)
        return out

    # -- expressions: returns list of (value, state); value in True/False/None or ('RES', fn, 'succ'|'fail') or 'CUR' or ('TT', aliaskey)
    def ev(self, n, s):
        n = strip(n)
        if n is None:
            return [(None, s)]
        k = n.get('kind')
        if k == 'CallExpr':
            f = callee(n)
            args = kids(n)[1:]
            outs = [s]
            for a in args:                      # argument side effects (rare)
                outs = [s2 for s1 in outs for _, s2 in self.ev(a, s1)]
            res = []
            for s1 in outs:
                if f == 'advance':
                    if s1.noneof:
                        s2 = s1.copy(adv=1, nadv=s1.nadv + 1)
                    else:
                        s2 = s1.copy(maybe=1, nadv=s1.nadv + 2)      # nadv no longer "exactly one effective advance"
                    res.append((None, s2.moved()))
                elif f == 'expect':
                    tk = enum_const(args[1]) if len(args) > 1 else None
                    ok = s1.copy(adv=1, nadv=s1.nadv + 2) if tk and tk != EOF else s1.copy(maybe=1, nadv=s1.nadv + 2)
                    res.append((True, ok.moved()))
                    res.append((False, s1))
                elif f == 'match':
                    tk = enum_const(args[1]) if len(args) > 1 else None
                    if tk and s1.tokis is not None:
                        res.append((tk == s1.tokis, s1))          # the current token kind is known on this path
                    elif tk and tk == EOF and s1.noneof:
                        res.append((False, s1))
                    else:
                        res.append((True, s1.copy(noneof=(tk != EOF), tokis=tk) if tk else s1))
                        res.append((False, s1.copy(noneof=True) if tk == EOF else s1))
                elif f == 'current_token':
                    res.append(('CUR', s1))
                elif f in self.tokpreds and args:
                    a = strip(args[0])
                    isalias = a is not None and a.get('kind') == 'MemberExpr' and a.get('name') == 'token_type' and \
                        (s1.get(key_of(kids(a)[0])) == 'CUR' or callee(kids(a)[0]) == 'current_token')
                    res.append((True, s1.copy(noneof=True) if isalias and EOF not in self.tokpreds[f] else s1))
                    res.append((False, s1))
                elif f in self.cursor:
                    sa = s1.moved()
                    res.append((('RES', f, 'succ'), sa.copy(adv=1, nadv=sa.nadv + 2) if self.succ_adv.get(f) else sa.copy(nadv=sa.nadv + 2)))
                    if self.fail_value.get(f) != 'none':
                        res.append((('RES', f, 'fail'), sa.copy(nadv=sa.nadv + 2)))
                else:
                    res.append((None, s1))
            return res
        if k == 'UnaryOperator':
            op = n.get('opcode')
            if op == '!':
                return [(self.neg(v), s1) for v, s1 in self.ev(kids(n)[0], s)]
            if op in ('++', '--'):
                kk = key_of(kids(n)[0]) or ''
                if kk.endswith('pos') and ('->pos' in kk or '.pos' in kk):
                    if op == '--' and s.nadv == 1 and s.adv == 1:
                        return [(None, s.copy(adv=0, nadv=0).moved())]
                    return [(None, s.copy(unknown=1))]
                return [(None, s.bind(key_of(kids(n)[0]), None))]
            return [(None, s1) for _, s1 in self.ev(kids(n)[0], s)]
        if k == 'BinaryOperator':
            op = n.get('opcode')
            a, b = kids(n)
            if op == '&&':
                out = []
                for v, s1 in self.ev(a, s):
                    tv = self.truth(v)
                    if tv is False:
                        out.append((False, s1))
                    else:
                        for w, s2 in self.ev(b, s1):
                            tw = self.truth(w)
                            out.append((tw if tv is True else (False if tw is False else None), s2))
                        if tv is None:
                            out.append((False, s1))
                return out
            if op == '||':
                out = []
                for v, s1 in self.ev(a, s):
                    tv = self.truth(v)
                    if tv is True:
                        out.append((True, s1))
                    else:
                        for w, s2 in self.ev(b, s1):
                            tw = self.truth(w)
                            out.append((tw if tv is False else (True if tw is True else None), s2))
                        if tv is None:
                            out.append((True, s1))
                return out
            if op in ('==', '!='):
                out = []
                for v, s1 in self.ev(a, s):
                    for w, s2 in self.ev(b, s1):
                        r = None
                        # result of a sub-parser compared with its failure value
                        for x, y in ((v, b), (w, a)):
                            if isinstance(x, tuple) and x[0] == 'RES':
                                fv = self.fail_value.get(x[1])
                                if (fv == 'null' and is_null(y)) or (fv == 'TYPE_UNKNOWN' and enum_const(y) == 'TYPE_UNKNOWN') or \
                                        (fv == 'false' and is_null(y)):
                                    r = (x[2] == 'fail')
                        # token type of the current token compared with a constant
                        s3 = s2
                        for x, y in ((a, b), (b, a)):
                            xs = strip(x)
                            c = enum_const(y)
                            if c and xs is not None and xs.get('kind') == 'MemberExpr' and xs.get('name') == 'token_type' and \
                                    (s2.get(key_of(kids(xs)[0])) == 'CUR' or callee(kids(xs)[0]) == 'current_token'):
                                r = ('TT', c)
                        if isinstance(r, tuple) and r[0] == 'TT':
                            c = r[1]
                            eqs = s2.copy(noneof=(c != EOF), tokis=c)
                            nes = s2.copy(noneof=True) if c == EOF else s2
                            if s2.tokis is not None:
                                out.append(((s2.tokis == c) == (op == '=='), s2))
                                continue
                            if op == '==':
                                out.append((True, eqs)); out.append((False, nes))
                            else:
                                out.append((True, nes)); out.append((False, eqs))
                            continue
                        if r is None:
                            for x, y, vx in ((a, b, v), (b, a, w)):
                                kx = key_of(x)
                                if kx and strip(x).get('kind') == 'DeclRefExpr' and (is_null(y) or enum_const(y) == 'TYPE_UNKNOWN'):
                                    if vx in ('FAILV', 'OKV'):
                                        r = (vx == 'FAILV')
                                    else:
                                        eq_s, ne_s = s2.bind(kx, 'FAILV'), s2.bind(kx, 'OKV')
                                        if op == '==':
                                            out.append((True, eq_s)); out.append((False, ne_s))
                                        else:
                                            out.append((True, ne_s)); out.append((False, eq_s))
                                        r = 'done'
                                    break
                        if r == 'done':
                            continue
                        if r is not None and op == '!=':
                            r = not r
                        out.append((r, s3))
                return out
            if op == '=':
                out = []
                for v, s1 in self.ev(b, s):
                    out.append((v, s1.bind(key_of(a), self.keep(b, v))))
                return out
            if op == ',':
                return [(w, s2) for _, s1 in self.ev(a, s) for w, s2 in self.ev(b, s1)]
            return [(None, s2) for _, s1 in self.ev(a, s) for _, s2 in self.ev(b, s1)]
        if k == 'CompoundAssignOperator':
            return [(None, s1.bind(key_of(kids(n)[0]), None)) for _, s1 in self.ev(kids(n)[1], s)]
        if k == 'ConditionalOperator':
            c, a, b = kids(n)
            out = []
            for v, s1 in self.ev(c, s):
                tv = self.truth(v)
                if tv is not False:
                    out += [(None, s2) for _, s2 in self.ev(a, s1)]
                if tv is not True:
                    out += [(None, s2) for _, s2 in self.ev(b, s1)]
            return out
        if k == 'DeclRefExpr':
            v = s.get(key_of(n))
            return [(v, s)]
        if k in ('MemberExpr', 'ArraySubscriptExpr'):
            kk = key_of(n)
            v = s.get(kk) if kk else None
            outs = [s]
            for c in kids(n):
                outs = [s2 for s1 in outs for _, s2 in self.ev(c, s1)]
            return [(v, s1) for s1 in outs]
        outs = [s]
        for c in kids(n):
            if isinstance(c, dict) and c.get('kind'):
                outs = [s2 for s1 in outs for _, s2 in self.ev(c, s1)]
        return [(None, s1) for s1 in outs]

    def keep(self, e, v):
        """what is remembered about a variable after `var = e`"""
        if v in ('CUR', 'FAILV', 'OKV') or (isinstance(v, tuple) and v[0] == 'RES'):
            return v
        c = enum_const(e)
        if c is not None:
            return 'FAILV' if c == 'TYPE_UNKNOWN' else ('OKV' if c.startswith('TYPE_') else None)
        if is_null(e):
            return 'FAILV'
        return None

    def neg(self, v):
        t = self.truth(v)
        return None if t is None else (not t)

    def truth(self, v):
        if v is True or v is False or v is None:
            return v
        if isinstance(v, tuple) and v[0] == 'RES':
            return v[2] == 'succ' if self.fail_value.get(v[1]) in ('null', 'false') else None
        if v == 'CUR':
            return True          # current_token() is non-NULL for a well-formed parser state (count > 0)
        if v == 'FAILV':
            return False
        if v == 'OKV':
            return True
        return None

    def cond(self, n, s):
        """-> list of (True|False, state): both branches when undetermined"""
        out = []
        for v, s1 in self.ev(n, s):
            t = self.truth(v)
            if t is None:
                out.append((True, s1)); out.append((False, s1))
            else:
                out.append((t, s1))
        return out

    # -- statements: returns set of (kind, state[, extra]); kind in N(ormal) B(reak) C(ontinue) R(eturn)
    def ex(self, n, s):
        if n is None or not n.get('kind'):
            return {('N', s)}
        self.steps += 1
        if self.steps > 3000000:
            raise RuntimeError('gen_parserloops: state explosion while interpreting ' + str(self.cur_fn))
        k = n['kind']
        if k == 'CompoundStmt':
            cur = {('N', s)}
            for c in kids(n):
                nxt = set()
                for kind, st, *x in cur:
                    if kind != 'N':
                        nxt.add((kind, st, *x))
                    else:
                        nxt |= self.ex(c, st)
                cur = nxt
            return cur
        if k == 'DeclStmt':
            outs = [s]
            for d in kids(n):
                if d.get('kind') == 'VarDecl' and kids(d):
                    init = kids(d)[-1]
                    new = []
                    for s1 in outs:
                        for v, s2 in self.ev(init, s1):
                            new.append(s2.bind(d.get('name'), self.keep(init, v)))
                    outs = new
                elif d.get('kind') == 'VarDecl':
                    outs = [s1.bind(d.get('name'), None) for s1 in outs]
            return {('N', s1) for s1 in outs}
        if k == 'IfStmt':
            ks = kids(n)
            c, th = ks[0], ks[1]
            el = ks[2] if len(ks) > 2 else None
            out = set()
            for t, s1 in self.cond(c, s):
                if t:
                    out |= self.ex(th, s1)
                else:
                    out |= self.ex(el, s1) if el is not None else {('N', s1)}
            return out
        if k in ('WhileStmt', 'ForStmt', 'DoStmt'):
            return self.ex_inner_loop(n, s)
        if k == 'SwitchStmt':
            return self.ex_switch(n, s)
        if k == 'BreakStmt':
            return {('B', s)}
        if k == 'ContinueStmt':
            return {('C', s)}
        if k == 'ReturnStmt':
            out = set()
            if not kids(n):
                return {('R', s, 'void')}
            e = kids(n)[0]
            for v, s1 in self.ev(e, s):
                out.add(('R', s1, self.classify_return(e, v)))
            return out
        if k == 'GotoStmt':
            return {('R', s, 'goto')}
        if k in ('NullStmt',):
            return {('N', s)}
        if k in ('LabelStmt', 'CaseStmt', 'DefaultStmt', 'AttributedStmt'):
            return self.ex(kids(n)[-1], s)
        # expression statement
        return {('N', s1) for _, s1 in self.ev(n, s)}

    def classify_return(self, e, v):
        es = strip(e)
        if is_null(es):
            return 'fail'
        c = enum_const(es)
        if c == 'TYPE_UNKNOWN':
            return 'fail'
        if es is not None and es.get('kind') == 'CXXBoolLiteralExpr':
            return 'succ' if es.get('value') else 'fail'
        if v == 'FAILV':
            return 'fail'
        if v == 'OKV':
            return 'succ'
        if isinstance(v, tuple) and v[0] == 'RES':
            return v[2] if self.fail_value.get(v[1]) == self.cur_fail else 'succ?'
        if es is not None and es.get('kind') == 'IntegerLiteral':
            return 'fail' if es.get('value') == '0' else 'succ'
        return 'succ'

    def ex_switch(self, n, s):
        c = kids(n)[0]
        body = kids(n)[-1]
        cs = strip(c)
        on_tok = cs is not None and cs.get('kind') == 'MemberExpr' and cs.get('name') == 'token_type' and \
            (s.get(key_of(kids(cs)[0])) == 'CUR' or callee(kids(cs)[0]) == 'current_token')
        items = kids(body) if body.get('kind') == 'CompoundStmt' else [body]
        out = set()
        has_default = False
        for s0 in [s1 for _, s1 in self.ev(c, s)]:
            for i, it in enumerate(items):
                if it.get('kind') not in ('CaseStmt', 'DefaultStmt'):
                    continue
                # labels of this entry point (nested case labels share the statement)
                labels = []
                m = it
                while m.get('kind') in ('CaseStmt', 'DefaultStmt'):
                    if m['kind'] == 'DefaultStmt':
                        has_default = True; labels.append(None)
                    else:
                        labels.append(enum_const(kids(m)[0]))
                    m = kids(m)[-1]
                s1 = s0
                if on_tok and labels and all(l is not None and l != EOF for l in labels):
                    s1 = s0.copy(noneof=True, tokis=labels[0] if len(labels) == 1 else None)
                cur = {('N', s1)}
                first = True
                for j in range(i, len(items)):
                    stmt = items[j]
                    while first is False and stmt.get('kind') in ('CaseStmt', 'DefaultStmt'):
                        stmt = kids(stmt)[-1]          # fall through into the next label's statement
                    if first:
                        while stmt.get('kind') in ('CaseStmt', 'DefaultStmt'):
                            stmt = kids(stmt)[-1]
                        first = False
                    nxt = set()
                    for kind, st, *x in cur:
                        if kind != 'N':
                            nxt.add((kind, st, *x))
                        else:
                            nxt |= self.ex(stmt, st)
                    cur = nxt
                    if not any(kind == 'N' for kind, *_ in cur):
                        break
                for kind, st, *x in cur:
                    out.add(('N', st) if kind in ('N', 'B') else (kind, st, *x))
            if not has_default:
                out.add(('N', s0))
        return out

    def ex_inner_loop(self, n, s):
        """a loop met while interpreting an enclosing body: adv kept, everything else forgotten; returns propagate"""
        h = s.moved().copy(nadv=s.nadv + 2)
        body, cnd, inc, init = self.loop_parts(n)
        out = set()
        starts = [h]
        if init is not None:
            starts = [st for kind, st, *x in self.ex(init, h) if kind == 'N'] or [h]
        for h1 in starts:
            h1 = h1.moved()
            entry = [(True, h1)]
            if cnd is not None and n['kind'] != 'DoStmt':
                entry = self.cond(cnd, h1)
            for t, s1 in entry:
                if not t:
                    out.add(('N', s1.moved()))
                    continue
                for kind, st, *x in self.ex(body, s1):
                    if kind == 'R':
                        out.add((kind, st, *x))
                    elif kind == 'B':
                        out.add(('N', st.moved()))
                    # N / C: next iteration or exit through the condition: covered by the havoc'ed exit state below
            out.add(('N', h1))
        return out

    def loop_parts(self, n):
        ks = n.get('inner') or []
        if n['kind'] == 'WhileStmt':
            return ks[-1], ks[0], None, None
        if n['kind'] == 'DoStmt':
            return ks[0], ks[1], None, None
        # ForStmt: init, condvar, cond, inc, body
        init, _, cnd, inc, body = (ks + [None] * 5)[:5]
        return body, (cnd if cnd and cnd.get('kind') else None), (inc if inc and inc.get('kind') else None), (init if init and init.get('kind') else None)

    # -- loop summaries
    def is_counted(self, n):
        if n['kind'] != 'ForStmt':
            return False
        body, cnd, inc, init = self.loop_parts(n)
        if cnd is None or inc is None:
            return False
        c = strip(cnd)
        if c.get('kind') != 'BinaryOperator' or c.get('opcode') not in ('<', '<='):
            return False
        var = key_of(kids(c)[0])
        i = strip(inc)
        okinc = (i.get('kind') == 'UnaryOperator' and i.get('opcode') == '++' and key_of(kids(i)[0]) == var) or \
                (i.get('kind') == 'CompoundAssignOperator' and i.get('opcode') == '+=' and key_of(kids(i)[0]) == var)
        if not var or not okinc:
            return False
        for m in walk(body):
            if m.get('kind') == 'BinaryOperator' and m.get('opcode') == '=' and key_of(kids(m)[0]) == var:
                return False
            if m.get('kind') in ('UnaryOperator',) and m.get('opcode') in ('++', '--') and key_of(kids(m)[0]) == var:
                return False
            if m.get('kind') == 'CompoundAssignOperator' and key_of(kids(m)[0]) == var:
                return False
            if callee(m) in self.cursor:
                return False
        return True

    def summarize_loop(self, fn, n):
        self.steps = 0; self.cur_fn = fn
        body, cnd, inc, init = self.loop_parts(n)
        s0 = St()
        paths = collections.Counter()
        stuck_calls = set()
        guard_excl = False
        if cnd is not None:
            tb = [s1 for t, s1 in self.cond(cnd, St()) if t]
            guard_excl = bool(tb) and all(s1.noneof for s1 in tb)
        if n['kind'] == 'DoStmt':
            starts = [s0]
        else:
            starts = [s1 for t, s1 in (self.cond(cnd, s0) if cnd is not None else [(True, s0)]) if t]

        def back(st):
            if st.unknown:
                return 'PUnknown'
            if st.adv:
                return 'PAdv'
            if st.maybe:
                return 'PAdvMaybe'
            if cnd is not None and n['kind'] != 'DoStmt' and st.tokis is not None:
                # the cursor did not move but the path knows the current token: the loop test may be decided by it
                if all(t is False for t, _ in self.cond(cnd, st)):
                    return 'PExit'
            for a, b in st.env:
                if isinstance(b, tuple) and b[0] == 'RES' and b[2] == 'fail':
                    stuck_calls.add(b[1])
            return 'PStuck'
        for s1 in starts:
            for kind, st, *x in self.ex(body, s1):
                if kind in ('B', 'R'):
                    paths['PUnknown' if st.unknown else 'PExit'] += 1
                    continue
                if n['kind'] == 'DoStmt':
                    for t, s2 in self.cond(cnd, st):
                        paths[back(s2) if t else 'PExit'] += 1
                elif inc is not None:
                    for _, s2 in self.ev(inc, st):
                        paths[back(s2)] += 1
                else:
                    paths[back(st)] += 1
        return dict(guard_excl_eof=guard_excl, paths=dict(paths), stuck_calls=sorted(stuck_calls))

    def function_succ_adv(self, f):
        d = self.fns[f]
        self.steps = 0; self.cur_fn = f
        self.cur_fail = self.fail_value[f]
        body = [c for c in kids(d) if c.get('kind') == 'CompoundStmt'][0]
        ok = True
        for kind, st, *x in self.ex(body, St()):
            if kind == 'R' and x and x[0] in ('succ', 'succ?') and not st.adv:
                ok = False
        return ok

    def run(self):
        # greatest fixpoint of "success => advanced"
        for _ in range(len(self.subparsers) + 2):
            changed = False
            for f in self.subparsers:
                if self.succ_adv[f] and self.fail_value[f] != 'none' and not self.function_succ_adv(f):
                    self.succ_adv[f] = False; changed = True
                if self.fail_value[f] == 'none':
                    if self.succ_adv[f]:
                        self.succ_adv[f] = False; changed = True
            if not changed:
                break
        loops = []
        for f, d in self.fns.items():
            ord_ = 0
            for n in walk(d):
                if n.get('kind') in ('WhileStmt', 'ForStmt', 'DoStmt'):
                    ord_ += 1
                    ln = line_of(n)
                    if self.is_counted(n):
                        loops.append(dict(fn=f, ord=ord_, line=ln, kind='counted', stmt=n['kind']))
                    else:
                        self.cur_fail = self.fail_value.get(f, 'none')
                        sm = self.summarize_loop(f, n)
                        loops.append(dict(fn=f, ord=ord_, line=ln, kind='cursor', stmt=n['kind'], end_line=self.end_line(n), **sm))
        return loops

    def end_line(self, n):
        e = (n.get('range') or {}).get('end') or {}
        for k in (e, e.get('expansionLoc') or {}, e.get('spellingLoc') or {}):
            if 'line' in k:
                return k['line']
        return None


# ----------------------------------------------------------------------------------------- lines: clang omits repeated line numbers
def annotate_lines(tu, src_bytes):
    """give every node range.begin.line / range.end.line from its byte offset (clang prints `line` only when it changes)"""
    starts = [0]
    for i, b in enumerate(src_bytes):
        if b == 10:
            starts.append(i + 1)
    import bisect

    def ln(off):
        return bisect.bisect_right(starts, off)
    for n in walk(tu):
        r = n.get('range')
        if not r:
            continue
        for side in ('begin', 'end'):
            p = r.get(side) or {}
            q = p.get('expansionLoc') or p
            if 'offset' in q and 'includedFrom' not in q:
                p['line'] = ln(q['offset'])


def analyze(path):
    tu = clang_ast(path)
    a = Analyzer(tu, path)
    # line numbers: only for nodes inside functions of this file
    src = open(path, 'rb').read()
    for f, d in a.fns.items():
        annotate_lines(d, src)
    loops = a.run()
    return a, loops


def coq_str(s):
    return '"' + s.replace('"', '""') + '"'


def listed_findings():
    """open C09 findings that name a loop (`loop`: [fn, ord]) or recursion cycle (`cycle_fns`: [...]): the theorems state that
    the flagged loops / unguarded cycles of the current source are EXACTLY these (so closing a finding strengthens the theorem,
    and a new non-progressing loop breaks it)"""
    path = os.path.join(VERIF, 'known_findings.d', 'C09.json')
    loops, cyc = [], []
    if os.path.exists(path):
        for e in json.load(open(path)):
            if e.get('property') == 'C09' and e.get('status') == 'open':
                if e.get('loop'):
                    loops.append((e['loop'][0], int(e['loop'][1])))
                for f in e.get('cycle_fns', []) or []:
                    cyc.append(f)
    return loops, cyc


def _digest(paths):
    import hashlib
    h = hashlib.sha256()
    for p in paths:
        h.update(p.encode()); h.update(open(p, 'rb').read() if os.path.exists(p) else b'-')
    return h.hexdigest()


def generate(b):
    src = os.path.join(REPO, 'src', 'parser.c')
    out = os.path.join(GEN_DIR, 'ParserLoops.v')
    side_path = os.path.join(VERIF, 'build', 'gen', 'parserloops.json')
    hdrs = [os.path.join(REPO, 'src', 'nanolang.h'), os.path.join(REPO, 'src', 'generated', 'compiler_schema.h')]
    key = _digest([src] + hdrs + [os.path.abspath(__file__), os.path.join(VERIF, 'tools', 'gen', 'test_parserloops.c'),
                                  os.path.join(VERIF, 'known_findings.d', 'C09.json')])
    kf = os.path.join(VERIF, 'build', 'gen', 'parserloops.key')
    if os.path.exists(out) and os.path.exists(side_path) and os.path.exists(kf) and open(kf).read() == key:
        return False
    selftest()
    a, loops = analyze(src)
    lf, cf = listed_findings()
    v = ['(* GENERATED by tools/gen/gen_parserloops.py from /repo/src/parser.c (clang JSON AST) -- do not edit *)',
         'From Coq Require Import List String NArith.', 'From NV Require Import Front.RecoveryLoops.', 'Import ListNotations.',
         'Local Open Scope string_scope.', '']
    v.append('Definition parser_loops : list loop_summary := [')
    ents = []
    for l in loops:
        if l['kind'] == 'counted':
            ents.append('  mkLoop %s %d %d LCounted false []' % (coq_str(l['fn']), l['ord'], l['line'] or 0))
        else:
            ps = [k for k in ('PExit', 'PAdv', 'PAdvMaybe', 'PStuck', 'PUnknown') if l['paths'].get(k)]
            ents.append('  mkLoop %s %d %d LCursor %s [%s]' % (coq_str(l['fn']), l['ord'], l['line'] or 0,
                                                               'true' if l['guard_excl_eof'] else 'false', '; '.join(ps)))
    v.append(';\n'.join(ents))
    v.append('].')
    v.append('')
    names = list(a.fns)          # source order
    cur = set(a.cursor)
    v.append('(* calls between the cursor functions of parser.c that are NOT inside a depth-guarded region of the caller *)')
    v.append('Definition parser_unguarded_calls : graph := [')
    v.append(';\n'.join('  (%s, [%s])' % (coq_str(f), '; '.join(coq_str(c) for c in a.unguarded_calls[f] if c in cur))
                        for f in names if f in cur))
    v.append('].')
    v.append('(* all calls between functions of parser.c *)')
    v.append('Definition parser_calls : graph := [')
    v.append(';\n'.join('  (%s, [%s])' % (coq_str(f), '; '.join(coq_str(c) for c in a.calls[f])) for f in names))
    v.append('].')
    v.append('Definition depth_guarded : list string := [%s].' % '; '.join(coq_str(f) for f in a.guarded))
    v.append('Definition cursor_functions : list string := [%s].' % '; '.join(coq_str(f) for f in names if f in cur))
    v.append('Definition success_implies_advance : list string := [%s].' % '; '.join(coq_str(f) for f in a.subparsers if a.succ_adv[f]))
    v.append('')
    v.append('(* from known_findings.d/C09.json (status open): the loops / recursive functions listed as findings, in source order *)')
    order = {(l['fn'], l['ord']): i for i, l in enumerate(loops)}
    lf = sorted(set(lf), key=lambda k: order.get(k, 10 ** 9))
    v.append('Definition listed_loop_findings : list (string * nat) := [%s].' % '; '.join('(%s, %d)' % (coq_str(f), o) for f, o in lf))
    forder = {f: i for i, f in enumerate(names)}
    cf = sorted(set(cf), key=lambda f: forder.get(f, 10 ** 9))
    v.append('Definition listed_cycle_findings : list string := [%s].' % '; '.join(coq_str(f) for f in cf))
    v.append('')
    changed = write_if_changed(out, '\n'.join(v))
    side = dict(loops=loops, guarded=a.guarded, calls=a.calls, unguarded_calls={f: [c for c in a.unguarded_calls[f] if c in cur] for f in names if f in cur},
                cursor=sorted(a.cursor), succ_adv=a.succ_adv, tokpreds=a.tokpreds, listed_loops=lf, listed_cycles=cf)
    os.makedirs(os.path.join(VERIF, 'build', 'gen'), exist_ok=True)
    json.dump(side, open(side_path, 'w'), indent=1)
    open(kf, 'w').write(key)
    return changed


# ----------------------------------------------------------------------------------------- self test on hand-made loops
def selftest():
    path = os.path.join(VERIF, 'tools', 'gen', 'test_parserloops.c')
    tu = clang_ast(path)
    a = Analyzer(tu, path)
    loops = a.run()
    got = {}
    for l in loops:
        if l['ord'] == 1:          # the outermost loop of each test function
            got[l['fn']] = 'counted' if l['kind'] == 'counted' else ('ok' if loop_ok(l) else 'flag')
    want = {}
    for line in open(path):
        if line.startswith('/* EXPECT '):
            _, _, fn, verdict, *_ = line.split()
            want[fn] = verdict
    bad = {f: (want[f], got.get(f)) for f in want if got.get(f) != want[f]}
    if bad:
        raise RuntimeError('gen_parserloops self-test failed (function: (expected, got)): %s' % bad)
    return len(want)


def loop_ok(l):
    p = l['paths']
    if p.get('PStuck') or p.get('PUnknown'):
        return False
    if p.get('PAdvMaybe') and not l['guard_excl_eof']:
        return False
    return True


if __name__ == '__main__':
    print('selftest cases:', selftest())
    a, loops = analyze(os.path.join(REPO, 'src', 'parser.c'))
    print('functions', len(a.fns), 'cursor fns', len(a.cursor), 'guarded', a.guarded)
    print('token predicates', a.tokpreds)
    print('success=>advance fails for', [f for f in a.subparsers if not a.succ_adv[f]])
    nc = sum(l['kind'] == 'cursor' for l in loops)
    print('loops', len(loops), 'cursor', nc)
    for l in loops:
        if l['kind'] == 'cursor':
            print(' %-28s #%d line %-5s %s guard_excl_eof=%s %s %s' % (l['fn'], l['ord'], l['line'], 'ok  ' if loop_ok(l) else 'FLAG', l['guard_excl_eof'], l['paths'], l['stuck_calls']))
