/* dump_rtparams: measures the constants of the native runtime's DynArray on the repo's CURRENT dyn_array.c
   (INITIAL_CAPACITY, GROWTH_FACTOR, element sizes, the floor of new_with_capacity) by calling it, and prints the
   C text of the helper nl_array_slice exactly as stdlib_runtime.c emits it into every native program
   (generate_math_utility_builtins is the repo's function; only sb_append is supplied here).
   Consumed by gen_rtparams.py. */
#include <stdio.h>
#include <stdlib.h>
#include <string.h>
#include "runtime/dyn_array.h"
#include "stdlib_runtime.h"

static char *acc; static size_t acc_len, acc_cap;
StringBuilder *sb_create(void) { return calloc(1, sizeof(StringBuilder)); }
void sb_append(StringBuilder *sb, const char *s) {
    (void)sb; size_t n = strlen(s);
    if (acc_len + n + 1 > acc_cap) { acc_cap = (acc_len + n + 1) * 2; acc = realloc(acc, acc_cap); }
    memcpy(acc + acc_len, s, n + 1); acc_len += n;
}
void generate_math_utility_builtins(StringBuilder *sb);

int main(void) {
    int kinds[] = {ELEM_INT, ELEM_FLOAT, ELEM_STRING, ELEM_BOOL, ELEM_ARRAY, ELEM_STRUCT, ELEM_POINTER, ELEM_U8};
    const char *names[] = {"EInt", "EFloat", "EString", "EBool", "EArray", "EStruct", "EPointer", "EU8"};
    for (int i = 0; i < 8; i++) {
        DynArray *a = dyn_array_new((ElementType)kinds[i]);
        printf("KIND %s %d %lld %u %d\n", names[i], kinds[i], (long long)dyn_array_capacity(a), (unsigned)a->elem_size, a->data == NULL);
    }
    DynArray *a = dyn_array_new(ELEM_INT);
    long long c0 = dyn_array_capacity(a);
    for (long long i = 0; i <= c0; i++) dyn_array_push_int(a, i);
    long long c1 = dyn_array_capacity(a);
    for (long long i = c0 + 1; i <= c1; i++) dyn_array_push_int(a, i);
    long long c2 = dyn_array_capacity(a);
    printf("GROW %lld %lld %lld\n", c0, c1, c2);
    printf("NEWCAP %lld %lld %lld\n", (long long)dyn_array_capacity(dyn_array_new_with_capacity(ELEM_INT, 0)),
           (long long)dyn_array_capacity(dyn_array_new_with_capacity(ELEM_INT, c0 + 1)),
           (long long)dyn_array_capacity(dyn_array_new_with_capacity(ELEM_INT, -5)));
    printf("ESZ %u\n", (unsigned)sizeof(((DynArray *)0)->elem_size));
    printf("GCHDR %u %u\n", (unsigned)sizeof(GCHeader), (unsigned)sizeof(((GCHeader *)0)->ref_count));
    generate_math_utility_builtins(NULL);
    const char *start = strstr(acc, "static DynArray* nl_array_slice(");
    if (!start) { fprintf(stderr, "nl_array_slice not emitted\n"); return 1; }
    const char *end = strstr(start, "\n}\n");
    if (!end) return 1;
    printf("SLICE_BEGIN\n%.*s\n}\nSLICE_END\n", (int)(end - start), start);
    return 0;
}
