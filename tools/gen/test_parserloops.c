/* Hand-made loops for the self-test of gen_parserloops.py: one loop per function, expected verdict in the EXPECT line
   (ok = every path exits or advances; flag = some path can reach the back edge without advancing; counted = counter loop). */
typedef enum { TOKEN_EOF = 0, TOKEN_A, TOKEN_B, TOKEN_RPAREN, TOKEN_COMMA } TokenType;
typedef struct { int token_type; } Token;
typedef struct { Token *tokens; int count; int pos; int recursion_depth; } Stage1Parser;
typedef struct Node { int x; } Node;
#define NULL ((void*)0)
typedef _Bool bool;
static Token *current_token(Stage1Parser *p) { return &p->tokens[p->pos]; }
static void advance(Stage1Parser *p) { if (p->pos < p->count - 1) p->pos++; }
static bool match(Stage1Parser *p, TokenType t) { return current_token(p)->token_type == (int)t; }
static bool expect(Stage1Parser *p, TokenType t, const char *m) { if (!match(p, t)) return 0; advance(p); return 1; }
static bool is_ab(TokenType type) { return (type == TOKEN_A || type == TOKEN_B); }
static Node *mk(void);
static Node *sub(Stage1Parser *p) { if (!match(p, TOKEN_A)) return NULL; advance(p); return mk(); }

/* EXPECT t_untested flag */
static void t_untested(Stage1Parser *p, Node **a) { int n = 0; while (!match(p, TOKEN_RPAREN) && !match(p, TOKEN_EOF)) { a[n++] = sub(p); } }
/* EXPECT t_tested_return ok */
static Node *t_tested_return(Stage1Parser *p, Node **a) { int n = 0; while (!match(p, TOKEN_RPAREN) && !match(p, TOKEN_EOF)) { a[n] = sub(p); if (!a[n]) return NULL; n++; } return mk(); }
/* EXPECT t_recover_advance ok */
static void t_recover_advance(Stage1Parser *p) { while (!match(p, TOKEN_RPAREN) && !match(p, TOKEN_EOF)) { Node *s = sub(p); if (s) { } else { advance(p); } } }
/* EXPECT t_recover_advance_noeof flag */
static void t_recover_advance_noeof(Stage1Parser *p) { while (1) { Node *s = sub(p); if (s) { } else { advance(p); } } }
/* EXPECT t_positive_guard ok */
static void t_positive_guard(Stage1Parser *p) { while (match(p, TOKEN_COMMA)) { advance(p); } }
/* EXPECT t_guard_no_advance flag */
static void t_guard_no_advance(Stage1Parser *p) { int k = 0; while (match(p, TOKEN_COMMA)) { k++; } }
/* EXPECT t_expect_break ok */
static void t_expect_break(Stage1Parser *p) { while (1) { if (!expect(p, TOKEN_A, "a")) break; } }
/* EXPECT t_expect_ignored flag */
static void t_expect_ignored(Stage1Parser *p) { while (!match(p, TOKEN_EOF)) { expect(p, TOKEN_A, "a"); } }
/* EXPECT t_token_type_test ok */
static void t_token_type_test(Stage1Parser *p) { while (1) { Token *t = current_token(p); if (t->token_type == TOKEN_COMMA) { advance(p); } else { break; } } }
/* EXPECT t_stale_alias flag */
static void t_stale_alias(Stage1Parser *p) { while (1) { Token *t = current_token(p); sub(p); if (t->token_type == TOKEN_COMMA) { advance(p); } else { break; } } }
/* EXPECT t_predicate ok */
static void t_predicate(Stage1Parser *p) { for (;;) { Token *c = current_token(p); if (c && is_ab(c->token_type)) { advance(p); continue; } break; } }
/* EXPECT t_counted counted */
static int t_counted(Node **a, int n) { int s = 0; for (int i = 0; i < n; i++) { s += a[i]->x; } return s; }
/* EXPECT t_counted_broken flag */
static int t_counted_broken(Node **a, int n) { int s = 0; for (int i = 0; i < n; i++) { s += a[i]->x; i = 0; } return s; }
/* EXPECT t_do_while ok */
static void t_do_while(Stage1Parser *p) { do { if (!match(p, TOKEN_A)) return; advance(p); if (match(p, TOKEN_COMMA)) { advance(p); } else { break; } } while (1); }
/* EXPECT t_pos_decrement ok */
static void t_pos_decrement(Stage1Parser *p) { while (!match(p, TOKEN_EOF)) { Node *r = NULL; if (match(p, TOKEN_A)) { advance(p); p->pos--; r = sub(p); } else { advance(p); continue; } if (!r) advance(p); } }
/* EXPECT t_pos_decrement_bad flag */
static void t_pos_decrement_bad(Stage1Parser *p) { while (!match(p, TOKEN_EOF)) { advance(p); p->pos--; } }
/* EXPECT t_switch_default ok */
static void t_switch_default(Stage1Parser *p) { while (!match(p, TOKEN_EOF)) { Token *t = current_token(p); switch (t->token_type) { case TOKEN_A: advance(p); break; case TOKEN_B: { Node *s = sub(p); if (!s) return; break; } default: advance(p); break; } } }
/* EXPECT t_switch_hole flag */
static void t_switch_hole(Stage1Parser *p) { while (!match(p, TOKEN_EOF)) { Token *t = current_token(p); switch (t->token_type) { case TOKEN_A: advance(p); break; default: break; } } }
/* EXPECT t_inner_loop ok */
static void t_inner_loop(Stage1Parser *p) { while (!match(p, TOKEN_EOF)) { while (match(p, TOKEN_COMMA)) { advance(p); } if (!expect(p, TOKEN_A, "a")) return; } }
/* EXPECT t_inner_loop_only flag */
static void t_inner_loop_only(Stage1Parser *p) { while (!match(p, TOKEN_EOF)) { while (match(p, TOKEN_COMMA)) { advance(p); } } }
static Node *mk(void) { static Node n; return &n; }
/* EXPECT t_exit_by_known_token ok */
static Node *t_exit_by_known_token(Stage1Parser *p, Node **a) { int n = 0; while (!match(p, TOKEN_RPAREN) && !match(p, TOKEN_EOF)) { a[n++] = sub(p); if (match(p, TOKEN_COMMA)) { advance(p); } else if (!match(p, TOKEN_RPAREN)) { return NULL; } } return mk(); }
/* EXPECT t_exit_by_other_token flag */
static Node *t_exit_by_other_token(Stage1Parser *p, Node **a) { int n = 0; while (!match(p, TOKEN_RPAREN) && !match(p, TOKEN_EOF)) { a[n++] = sub(p); if (match(p, TOKEN_COMMA)) { advance(p); } else if (!match(p, TOKEN_B)) { return NULL; } } return mk(); }
