/* dump_serconsts: the size/type constants nvm_serialize computes its offsets from (nvm_format.h), printed by the
   C compiler against the repo's current header.  Consumed by gen_serconsts.py (C19). */
#include <stdio.h>
#include "nvm_format.h"
int main(void) {
    printf("header %u\nsec_entry %u\nfn_entry %u\ndbg_entry %u\nimp_base %u\n", (unsigned)NVM_HEADER_SIZE,
           (unsigned)NVM_SECTION_ENTRY_SIZE, (unsigned)NVM_FUNCTION_ENTRY_SIZE, (unsigned)NVM_DEBUG_ENTRY_SIZE,
           (unsigned)NVM_IMPORT_ENTRY_BASE_SIZE);
    printf("magic %u %u %u %u\nversion %u\n", (unsigned)(unsigned char)NVM_MAGIC_0, (unsigned)(unsigned char)NVM_MAGIC_1,
           (unsigned)(unsigned char)NVM_MAGIC_2, (unsigned)(unsigned char)NVM_MAGIC_3, (unsigned)NVM_FORMAT_VERSION);
    printf("t_code %u\nt_strings %u\nt_functions %u\nt_debug %u\nt_imports %u\n", (unsigned)NVM_SECTION_CODE,
           (unsigned)NVM_SECTION_STRINGS, (unsigned)NVM_SECTION_FUNCTIONS, (unsigned)NVM_SECTION_DEBUG, (unsigned)NVM_SECTION_IMPORTS);
    return 0;
}
