/* Translator (T): prints the repo's current instruction table, one line per defined opcode:
   <opcode> <mnemonic> <operand_count> <kind>...   kinds as OperandType integers resolved by name here. */
#include <stdio.h>
#include "isa.h"
static const char *kn(OperandType t) {
    switch (t) {
        case OPERAND_NONE: return "NONE"; case OPERAND_U8: return "KU8"; case OPERAND_U16: return "KU16";
        case OPERAND_U32: return "KU32"; case OPERAND_I32: return "KI32"; case OPERAND_I64: return "KI64";
        case OPERAND_F64: return "KF64";
    }
    return "BAD";
}
int main(void) {
    for (int op = 0; op < 256; op++) {
        const InstructionInfo *ii = isa_get_info((uint8_t)op);
        if (!ii) continue;
        printf("%d %s %d %d", op, ii->name, ii->operand_count, ii->opcode);
        for (int i = 0; i < ii->operand_count; i++) printf(" %s/%u", kn(ii->operands[i]), isa_operand_size(ii->operands[i]));
        printf("\n");
    }
    printf("MAXSZ %d MAXOPS %d OPCOUNT %d\n", ISA_MAX_INSTRUCTION_SIZE, MAX_OPERANDS, OP_COUNT);
    return 0;
}
