"""Shared helpers for translators: compile a dump program against the repo's current sources, write .v only when changed."""
import os, subprocess, hashlib
VERIF = os.path.dirname(os.path.dirname(os.path.dirname(os.path.abspath(__file__))))
REPO = os.environ.get('VERIF_REPO', '/repo')
GEN_DIR = os.path.join(VERIF, 'coq', 'NV', 'gen')

def write_if_changed(path, text):
    os.makedirs(os.path.dirname(path), exist_ok=True)
    if os.path.exists(path) and open(path).read() == text:
        return False
    open(path, 'w').write(text)
    return True

def run_dump(b, csrc, extra_srcs=(), args=()):
    """Compile tools/gen/<csrc> with the repo's current headers + given repo sources (paths relative to /repo), run it."""
    out = os.path.join(b.root, 'gen', os.path.splitext(os.path.basename(csrc))[0])
    os.makedirs(os.path.dirname(out), exist_ok=True)
    cmd = ['cc'] + b.cflags + ['-I' + os.path.join(REPO, 'src/nanovm'), '-I' + os.path.join(REPO, 'src/nanovirt'),
           '-o', out, os.path.join(VERIF, 'tools', 'gen', csrc)] + [os.path.join(REPO, s) for s in extra_srcs] + ['-lm']
    r = subprocess.run(cmd, capture_output=True, text=True, timeout=120)
    if r.returncode != 0:
        raise RuntimeError('translator build failed: %s\n%s' % (' '.join(cmd), r.stderr[-3000:]))
    r = subprocess.run([out] + list(args), capture_output=True, text=True, timeout=60)
    if r.returncode != 0:
        raise RuntimeError('translator run failed: %s\n%s' % (out, r.stderr[-3000:]))
    return r.stdout
