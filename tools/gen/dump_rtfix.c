/* dump_rtfix: replays the two witnesses of the open C20 dyn findings on the CURRENT code, in a child process compiled
   with -fsanitize=address,undefined -fno-sanitize-recover=all.  Exit status 0 + "OK" = the code handles the case
   (repaired), anything else = it still leaves defined behaviour.  gen_rtparams.py turns the two answers into
   p_clone_struct_fixed / p_slice_clamped of the model parameters, so that the model follows the code that is present.
     dump_rtfix clone-struct      9 x push_struct(3 bytes), dyn_array_clone, compare
     dump_rtfix slice-overflow    nl_array_slice([1,2,3], 1, INT64_MAX) must be [2,3]
     dump_rtfix push-own-elem     push_struct(a, get_struct(a, i), elem_size) with length == capacity
   and measures the out-of-range policy of the struct accessors (not a repair guard: the model follows either answer):
     dump_rtfix struct-oob-get    get_struct(a, length): prints NULL when it answers NULL; dies by SIGABRT when it asserts
     dump_rtfix struct-oob-set    set_struct(a, length, ...): prints DROPPED when it returns with the array unchanged; SIGABRT when it asserts */
#include <stdio.h>
#include <stdlib.h>
#include <string.h>
#include <stdint.h>
#include <stdbool.h>
#include <assert.h>
#include "runtime/dyn_array.h"
#include "runtime/gc.h"
#include SLICE_INC

int main(int argc, char **argv) {
    if (argc < 2) return 2;
    if (!strcmp(argv[1], "clone-struct")) {
        DynArray *a = dyn_array_new(ELEM_STRUCT);
        for (int i = 0; i < 9; i++) { uint8_t s[3] = {(uint8_t)i, 7, (uint8_t)(i * 3)}; dyn_array_push_struct(a, s, 3); }
        DynArray *c = dyn_array_clone(a);
        if (!c || dyn_array_length(c) != 9 || c->elem_size != 3) return 3;
        for (int i = 0; i < 9; i++) { uint8_t *p = dyn_array_get_struct(c, i); if (!p || p[0] != i || p[1] != 7 || p[2] != (uint8_t)(i * 3)) return 4; }
        DynArray *e = dyn_array_clone(dyn_array_new(ELEM_STRUCT));
        if (!e || dyn_array_length(e) != 0) return 5;
        printf("OK\n"); return 0;
    }
    if (!strcmp(argv[1], "slice-overflow")) {
        DynArray *a = dyn_array_new(ELEM_INT);
        dyn_array_push_int(a, 1); dyn_array_push_int(a, 2); dyn_array_push_int(a, 3);
        DynArray *s = nl_array_slice(a, 1, INT64_MAX);
        if (!s || dyn_array_length(s) != 2 || dyn_array_get_int(s, 0) != 2 || dyn_array_get_int(s, 1) != 3) return 3;
        printf("OK\n"); return 0;
    }
    if (!strcmp(argv[1], "push-own-elem")) {
        /* what the transpiler emits for (array_push xs (at xs i)) on an array<struct>, at length == capacity (8, then 16) */
        DynArray *a = dyn_array_new(ELEM_STRUCT);
        for (int i = 0; i < 8; i++) { uint8_t s[3] = {(uint8_t)i, 9, (uint8_t)(i + 100)}; dyn_array_push_struct(a, s, 3); }
        a = dyn_array_push_struct(a, dyn_array_get_struct(a, 0), a->elem_size);
        for (int i = 9; i < 16; i++) { uint8_t s[3] = {(uint8_t)i, 9, (uint8_t)(i + 100)}; dyn_array_push_struct(a, s, 3); }
        a = dyn_array_push_struct(a, dyn_array_get_struct(a, 15), a->elem_size);
        uint8_t *p8 = dyn_array_get_struct(a, 8), *p16 = dyn_array_get_struct(a, 16);
        if (dyn_array_length(a) != 17 || !p8 || p8[0] != 0 || p8[2] != 100 || !p16 || p16[0] != 15 || p16[2] != 115) return 3;
        printf("OK\n"); return 0;
    }
    if (!strcmp(argv[1], "struct-oob-get") || !strcmp(argv[1], "struct-oob-set")) {
        DynArray *a = dyn_array_new(ELEM_STRUCT);
        uint8_t s[3] = {1, 2, 3}, z[3] = {9, 9, 9};
        dyn_array_push_struct(a, s, 3);
        if (argv[1][11] == 'g') {
            void *p = dyn_array_get_struct(a, 1); void *n = dyn_array_get_struct(a, -1);
            if (p == NULL && n == NULL) { printf("NULL\n"); return 0; }
            return 3;
        }
        dyn_array_set_struct(a, 1, z, 3); dyn_array_set_struct(a, -1, z, 3);
        uint8_t *q = dyn_array_get_struct(a, 0);
        if (dyn_array_length(a) == 1 && q && q[0] == 1 && q[2] == 3) { printf("DROPPED\n"); return 0; }
        return 3;
    }
    return 2;
}
