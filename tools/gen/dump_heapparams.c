/* dump_heapparams: layout facts of the NanoVM heap that the C14 model abstracts away, measured by the compiler on the repo's
   CURRENT headers: width and signedness of VmHeapHeader.ref_count (the model's count is an unbounded number), the size of the
   memory cell every reference occupies (NanoValue), and the VM's own fixed limits.  Consumed by gen_heapparams.py. */
#include <stdio.h>
#include <stddef.h>
#include <limits.h>
#include "vm.h"
#include "heap.h"

int main(void) {
    VmHeapHeader h; VmState *vm = 0; VmArray *a = 0; VmStruct *s = 0; VmTuple *t = 0; VmClosure *c = 0;
    memset(&h, 0, sizeof h);
    h.ref_count = 0; h.ref_count--;                       /* all ones if unsigned, -1 if signed */
    printf("RC_BITS %u\n", (unsigned)(sizeof(h.ref_count) * CHAR_BIT));
    printf("RC_UNSIGNED %d\n", h.ref_count > 0 ? 1 : 0);
    printf("RC_OFFSET %u\n", (unsigned)offsetof(VmHeapHeader, ref_count));
    printf("HEADER_BYTES %u\n", (unsigned)sizeof(VmHeapHeader));
    printf("VALUE_BYTES %u\n", (unsigned)sizeof(NanoValue));
    printf("HMENTRY_BYTES %u\n", (unsigned)sizeof(VmHMEntry));
    printf("MAX_GLOBALS %u\n", (unsigned)VM_MAX_GLOBALS);
    printf("MAX_FRAMES %u\n", (unsigned)VM_MAX_FRAMES);
    printf("STACK_INITIAL %u\n", (unsigned)VM_STACK_INITIAL);
    printf("STACK_SIZE_BITS %u\n", (unsigned)(sizeof(vm->stack_size) * CHAR_BIT));
    printf("ARRAY_LENGTH_BITS %u\n", (unsigned)(sizeof(a->length) * CHAR_BIT));
    printf("STRUCT_COUNT_BITS %u\n", (unsigned)(sizeof(s->field_count) * CHAR_BIT));
    printf("TUPLE_COUNT_BITS %u\n", (unsigned)(sizeof(t->count) * CHAR_BIT));
    printf("CLOSURE_COUNT_BITS %u\n", (unsigned)(sizeof(c->capture_count) * CHAR_BIT));
    printf("POINTER_BITS %u\n", (unsigned)(sizeof(void *) * CHAR_BIT));
    return 0;
}
