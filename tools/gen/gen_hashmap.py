"""T: the open-addressing HashMap<K,V> that src/transpiler.c emits  ->  coq/NV/gen/HashMapParams.v, build/gen/nl_hashmap.inc (compiled
   into probes/hm_probe.c), build/gen/hashmap_params.json (for the history generators).
   The emitted text is obtained from the compiler under test itself: `nanoc -S` on a program that instantiates the four supported
   maps; the section between the HashMap markers of the generated C is what every native program gets.
   Read from that text: initial capacity, load factor, growth factor, minimum capacity, the constants of the two hash functions, and the
   SHAPE of the tombstone branch of find_slot (token template: Nested / Flat / unknown)."""
import os, re, json, hashlib, subprocess, shutil
from genlib import write_if_changed, GEN_DIR, VERIF

OUT = os.path.join(VERIF, 'build', 'gen')
INC = os.path.join(OUT, 'nl_hashmap.inc')
PROG = ('fn main() -> int {\n    let a: HashMap<string, int> = (map_new)\n    let b: HashMap<int, string> = (map_new)\n    let c: HashMap<string, string> = (map_new)\n'
        '    let d: HashMap<int, int> = (map_new)\n    (map_put a "k" 1)\n    (map_put b 1 "v")\n    (map_put c "k" "v")\n    (map_put d 1 2)\n    (println (map_size a))\n'
        '    (println (map_get b 1))\n    (println (map_has c "k"))\n    (map_remove d 1)\n    (println (map_size d))\n    return 0\n}\nshadow main {\n    assert (== 1 1)\n}\n')

FIND_HEAD = ('static int64_t nl_hashmap_@S@_find_slot(HashMap_@S@ *hm, @KT@ key, bool *out_found) { if (out_found) *out_found = false; '
             'if (!hm || hm->capacity <= 0) return -1; uint64_t h = @HASH@(key); int64_t mask = hm->capacity - 1; int64_t idx = (int64_t)(h & (uint64_t)mask); '
             'int64_t first_tomb = -1; for (int64_t probe = 0; probe < hm->capacity; probe++) { HashMap_@S@_Entry *e = &hm->entries[idx]; '
             'if (e->state == 0) { if (first_tomb != -1) idx = first_tomb; return idx; } ')
FIND_TAIL = ' idx = (idx + 1) & mask; } return first_tomb; }'
BRANCH = {
    'Nested': 'if (e->state == 2) { if (first_tomb == -1) first_tomb = idx; } else { if (@CMP@) { if (out_found) *out_found = true; return idx; } }',
    'Flat': 'if (e->state == 2 && first_tomb == -1) { first_tomb = idx; } else if (@CMP@) { if (out_found) *out_found = true; return idx; }',
}


def norm(s):
    s = re.sub(r'/\*.*?\*/', ' ', s, flags=re.S)
    return re.sub(r'\s+', ' ', s).strip()


def func(text, name):
    m = re.search(r'static [^\n]*\b%s\([^)]*\) \{\n(.*?)\n\}\n' % re.escape(name), text, re.S)
    return m.group(0) if m else ''


def generate(b):
    d = os.path.join(OUT, 'hm_emit')
    shutil.rmtree(d, ignore_errors=True)
    os.makedirs(os.path.join(d, 'tmp'))
    src = os.path.join(d, 'hm4.nano')
    open(src, 'w').write(PROG)
    env = dict(os.environ, NANO_CC='true', TMPDIR=os.path.join(d, 'tmp'))
    r = subprocess.run([b.bin('nanoc'), src, '-o', os.path.join(d, 'hm4'), '-S'], capture_output=True, text=True, timeout=120, env=env, cwd=d)
    genc = src + '.genC'
    if not os.path.exists(genc):
        raise RuntimeError('gen_hashmap: nanoc -S produced no generated C (rc=%s): %s' % (r.returncode, (r.stdout + r.stderr)[-1500:]))
    t = open(genc).read()
    fw = re.search(r'/\* =+ HashMap Forward Declarations =+ \*/\n(.*?)/\* =+ End HashMap Forward Declarations =+ \*/', t, re.S)
    rt = re.search(r'/\* =+ HashMap Runtime \(Generated\) =+ \*/\n(.*?)/\* =+ End HashMap Runtime \(Generated\) =+ \*/', t, re.S)
    if not fw or not rt:
        raise RuntimeError('gen_hashmap: HashMap markers not found in the generated C')
    text = fw.group(1) + '\n' + rt.group(1)
    write_if_changed(INC, text)
    P = dict(init=0, load_num=0, load_den=0, growth=0, min=0, fnv_offset=0, fnv_prime=0, mix1=0, mix2=0, mix_shift=0)
    m = re.search(r'return nl_hashmap_string_int_alloc\((\d+)\);', text); P['init'] = int(m.group(1)) if m else 0
    m = re.search(r'\(hm->size \+ hm->tombstones\) \* (\d+) >= hm->capacity \* (\d+)', text)
    if m: P['load_den'], P['load_num'] = int(m.group(1)), int(m.group(2))        # (size+tombs)*den >= cap*num
    m = re.search(r'_rehash\(hm, hm->capacity \* (\d+)\);', text); P['growth'] = int(m.group(1)) if m else 0
    m = re.search(r'if \(new_cap < (\d+)\) new_cap = (\d+);', text); P['min'] = int(m.group(1)) if m and m.group(1) == m.group(2) else 0
    hs = norm(func(text, 'nl_hashmap_hash_string'))
    m = re.search(r'uint64_t hash = (\d+)ULL; while \(\*s\) \{ hash \^= \(uint8_t\)\(\*s\+\+\); hash \*= (\d+)ULL; \} return hash;', hs)
    if m: P['fnv_offset'], P['fnv_prime'] = int(m.group(1)), int(m.group(2))
    hi = norm(func(text, 'nl_hashmap_hash_int'))
    m = re.search(r'uint64_t z = \(uint64_t\)x; z \^= z >> (\d+); z \*= (0x[0-9a-f]+)ULL; z \^= z >> (\d+); z \*= (0x[0-9a-f]+)ULL; z \^= z >> (\d+); return z;', hi)
    if m and m.group(1) == m.group(3) == m.group(5):
        P['mix_shift'], P['mix1'], P['mix2'] = int(m.group(1)), int(m.group(2), 16), int(m.group(4), 16)
    shapes = {}
    for suf, kt, hf, cmp_ in (('string_int', 'const char*', 'nl_hashmap_hash_string', 'nl_hashmap_key_eq_string(e->key, key)'),
                              ('int_string', 'int64_t', 'nl_hashmap_hash_int', 'e->key == key'),
                              ('string_string', 'const char*', 'nl_hashmap_hash_string', 'nl_hashmap_key_eq_string(e->key, key)'),
                              ('int_int', 'int64_t', 'nl_hashmap_hash_int', 'e->key == key')):
        got = norm(func(text, 'nl_hashmap_%s_find_slot' % suf))
        head = FIND_HEAD.replace('@S@', suf).replace('@KT@', kt).replace('@HASH@', hf)
        shapes[suf] = 'ShapeUnknown'
        for name, br in BRANCH.items():
            if got == head + br.replace('@CMP@', cmp_) + FIND_TAIL:
                shapes[suf] = name
    shape = shapes['string_int'] if len(set(shapes.values())) == 1 else 'ShapeUnknown'
    P['shape'] = shape; P['shapes'] = shapes
    P['text_sha256'] = hashlib.sha256(text.encode()).hexdigest()
    write_if_changed(os.path.join(OUT, 'hashmap_params.json'), json.dumps(P, indent=1, sort_keys=True))
    v = ['(* GENERATED by tools/gen/gen_hashmap.py from the HashMap runtime the compiler under test emits (nanoc -S) -- do not edit *)',
         'From Coq Require Import NArith.', 'From NV Require Import Runtime.HashMapRt.', '',
         '(* tombstone branch of nl_hashmap_<K>_<V>_find_slot, token template per instantiation: %s *)' % ', '.join('%s=%s' % kv for kv in sorted(shapes.items())),
         'Definition hm_params : hparams := {| hp_shape := %s; hp_init := %d; hp_load_num := %d; hp_load_den := %d; hp_growth := %d; hp_min := %d;' % (
             shape, P['init'], P['load_num'], P['load_den'], P['growth'], P['min']),
         '  hp_fnv_offset := %d%%N; hp_fnv_prime := %d%%N; hp_mix1 := %d%%N; hp_mix2 := %d%%N; hp_mix_shift := %d%%N |}.' % (
             P['fnv_offset'], P['fnv_prime'], P['mix1'], P['mix2'], P['mix_shift']),
         '(* sha256 of the emitted text the probe was compiled with: %s *)' % P['text_sha256'], '']
    return write_if_changed(os.path.join(GEN_DIR, 'HashMapParams.v'), '\n'.join(v))
