"""T: facts about the daemon read from the current source/binary  ->  coq/NV/gen/VmdFacts.v
   * call sequence of client_thread / run_standalone from clang's JSON AST (source order = pre-order):
       verify_before_execute  := nvm_verify occurs, and before vm_execute, in client_thread (vmd_server.c)
       standalone_verifies    := the same in run_standalone (nanovm/main.c)
       vmd_exit_from_main / standalone_exit_from_main := vm_get_result occurs after vm_execute in client_thread / run_standalone
       vmd_client_has_timeout := some call on the client side of a session bounds a blocking read/write (see client_timeouts)
       send_results_ignored   := no vmd_msg_send* call in client_thread has its value used
       vmd_error_texts        := string literals handed to vmd_msg_send_error in client_thread
   * signal disposition of the freshly built nano_vmd, read from /proc/<pid>/status (SigIgn) of a private instance
     that is listening (so setup_signals() has run); cross-checked with the AST (sigaction(13, ...) in setup_signals)."""
import os, json, subprocess, tempfile, shutil, time, signal, socket
from genlib import write_if_changed, GEN_DIR, REPO


def _ast(b, src, fn):
    cmd = ['clang'] + [f for f in b.cflags if not f.startswith('-fsanitize') and f != '-fno-sanitize-recover=all'] + \
          ['-I' + os.path.join(REPO, 'src/nanovm'), '-fsyntax-only', '-Xclang', '-ast-dump=json',
           '-Xclang', '-ast-dump-filter=' + fn, os.path.join(REPO, src)]
    r = subprocess.run(cmd, capture_output=True, text=True, timeout=120)
    if r.returncode != 0:
        raise RuntimeError('clang AST dump failed: ' + r.stderr[-2000:])
    dec = json.JSONDecoder()
    s = r.stdout
    i = 0
    docs = []
    while True:
        while i < len(s) and s[i] != '{':
            i += 1
        if i >= len(s):
            break
        d, i = dec.raw_decode(s, i)
        docs.append(d)
    for d in docs:
        if d.get('kind') == 'FunctionDecl' and d.get('name') == fn and any(x.get('kind') == 'CompoundStmt' for x in d.get('inner', [])):
            return d
    raise RuntimeError('function %s not found in %s' % (fn, src))


def _callee(n):
    x = n
    while x.get('inner'):
        x = x['inner'][0]
        if x.get('kind') == 'DeclRefExpr':
            return x.get('referencedDecl', {}).get('name')
    return None


def _strlit(n):
    if n.get('kind') == 'StringLiteral':
        return json.loads(n['value']) if n.get('value', '').startswith('"') else None
    for x in n.get('inner', []):
        r = _strlit(x)
        if r is not None:
            return r
    return None


def _intval(n):
    if n.get('kind') == 'IntegerLiteral':
        return int(n['value'])
    for x in n.get('inner', []):
        r = _intval(x)
        if r is not None:
            return r
    return None


DISCARD = ('CompoundStmt', 'CaseStmt', 'DefaultStmt', 'LabelStmt')


def _calls(fn):
    """[(callee, value_discarded, [args])] in source order."""
    out = []
    def walk(n, parent, idx):
        if n.get('kind') == 'CallExpr':
            pk = parent.get('kind') if parent else None
            disc = pk in DISCARD or (pk in ('IfStmt',) and idx > 0) or (pk in ('WhileStmt', 'ForStmt') and idx == len(parent['inner']) - 1)
            out.append((_callee(n), disc, n.get('inner', [])[1:]))
        for i, x in enumerate(n.get('inner', []) or []):
            if isinstance(x, dict):
                walk(x, n, i)
    walk(fn, None, 0)
    return out


def _before(calls, a, b_):
    names = [c[0] for c in calls]
    return a in names and b_ in names and names.index(a) < names.index(b_)


def _live_sigign(b):
    d = tempfile.mkdtemp(prefix='nvmd_facts_')
    sock = os.path.join(d, 's.sock')
    env = dict(os.environ, NANOLANG_VERIF_VMD_SOCK=sock, NANOLANG_VERIF_VMD_PID=os.path.join(d, 's.pid'))
    p = subprocess.Popen([b.bin('nano_vmd'), '--foreground', '--idle-timeout', '20'], env=env, stdin=subprocess.DEVNULL,
                         stdout=subprocess.DEVNULL, stderr=subprocess.DEVNULL, cwd=d)
    try:
        t0 = time.time()
        ok = False
        while time.time() - t0 < 10 and p.poll() is None:
            if os.path.exists(sock):
                try:
                    s = socket.socket(socket.AF_UNIX); s.settimeout(2); s.connect(sock); s.close(); ok = True; break
                except OSError:
                    pass
            time.sleep(0.01)
        if not ok:
            raise RuntimeError('nano_vmd did not come up (rc=%s)' % p.poll())
        for l in open('/proc/%d/status' % p.pid):
            if l.startswith('SigIgn:'):
                return int(l.split()[1], 16)
        raise RuntimeError('no SigIgn line')
    finally:
        if p.poll() is None:
            os.kill(p.pid, signal.SIGTERM)
            try:
                p.wait(3)
            except subprocess.TimeoutExpired:
                os.kill(p.pid, signal.SIGKILL); p.wait(3)
        shutil.rmtree(d, ignore_errors=True)


TIMED_WAITS = {'alarm', 'ualarm', 'setitimer', 'timer_settime', 'poll', 'ppoll', 'select', 'pselect', 'epoll_wait', 'epoll_pwait',
               'sem_timedwait', 'pthread_cond_timedwait'}


def _tu_functions(b, rel):
    cmd = ['clang'] + [f for f in b.cflags if not f.startswith('-fsanitize') and f != '-fno-sanitize-recover=all'] + \
          ['-I' + os.path.join(REPO, 'src/nanovm'), '-w', '-fsyntax-only', '-Xclang', '-ast-dump=json', os.path.join(REPO, rel)]
    r = subprocess.run(cmd, capture_output=True, text=True, timeout=300)
    if r.returncode != 0:
        raise RuntimeError('clang AST dump failed: ' + r.stderr[-2000:])
    out = {}
    for n in json.loads(r.stdout).get('inner', []):
        if n.get('kind') == 'FunctionDecl' and any(c.get('kind') == 'CompoundStmt' for c in n.get('inner', [])):
            out[n['name']] = n
    return out


def _ival(n):
    """constant value of an argument (through casts/parens), None if not a literal expression"""
    k = n.get('kind')
    if k == 'IntegerLiteral':
        return int(n['value'])
    if k in ('ImplicitCastExpr', 'ParenExpr', 'CStyleCastExpr', 'ConstantExpr') and n.get('inner'):
        return _ival(n['inner'][0])
    return None


def client_timeouts(b, K):
    """Every call in the client side of a session (vmd_client.c; the shared read/write helpers of vmd_protocol.c; run_daemon in
    nanovm/main.c) that can bound the time a blocking read or write on the session socket waits:
    setsockopt(.., SO_RCVTIMEO | SO_SNDTIMEO, ..) (or a non-constant option name), alarm/setitimer, poll/select/epoll_wait.
    [(unit, function, what)]"""
    sites = []
    for rel, only in (('src/nanovm/vmd_client.c', None), ('src/nanovm/vmd_protocol.c', None), ('src/nanovm/main.c', ('run_daemon',))):
        for fname, fn in sorted(_tu_functions(b, rel).items()):
            if only and fname not in only:
                continue
            for c in _calls(fn):
                cal, args = c[0], c[2]
                if cal == 'setsockopt' and len(args) >= 3:
                    opt = _ival(args[2])
                    if opt is None:
                        sites.append((rel, fname, 'setsockopt(non-constant option)'))
                    elif opt in (K['SO_RCVTIMEO'], K['SO_SNDTIMEO']):
                        sites.append((rel, fname, 'setsockopt(%s)' % ('SO_RCVTIMEO' if opt == K['SO_RCVTIMEO'] else 'SO_SNDTIMEO')))
                elif cal in TIMED_WAITS:
                    sites.append((rel, fname, cal))
    return sites


def facts(b):
    ct = _calls(_ast(b, 'src/nanovm/vmd_server.c', 'client_thread'))
    rs = _calls(_ast(b, 'src/nanovm/main.c', 'run_standalone'))
    ss = _calls(_ast(b, 'src/nanovm/vmd_server.c', 'setup_signals'))
    f = {}
    f['client_thread_calls'] = [c[0] or '?' for c in ct]
    f['run_standalone_calls'] = [c[0] or '?' for c in rs]
    f['verify_before_execute'] = _before(ct, 'nvm_verify', 'vm_execute')
    f['standalone_verifies'] = _before(rs, 'nvm_verify', 'vm_execute')
    # main's int result becomes the exit status: vm_get_result is consulted after vm_execute
    f['exit_from_main'] = _before(ct, 'vm_execute', 'vm_get_result')
    f['standalone_exit_from_main'] = _before(rs, 'vm_execute', 'vm_get_result')
    sends = [c for c in ct if (c[0] or '').startswith('vmd_msg_send')]
    f['send_results_ignored'] = bool(sends) and all(c[1] for c in sends)
    f['error_texts'] = [t for t in (_strlit(c[2][1]) if len(c[2]) > 1 else None for c in ct if c[0] == 'vmd_msg_send_error') if t is not None]
    f['setup_signals_sigaction_signals'] = [v for v in (_intval(c[2][0]) if c[2] else None for c in ss if c[0] == 'sigaction') if v is not None]
    from genlib import run_dump
    K = {}
    for l in run_dump(b, 'dump_vmdconsts.c', ['src/nanovm/vmd_protocol.c']).splitlines():
        w = l.split()
        if w[0] in ('SO_RCVTIMEO', 'SO_SNDTIMEO'):
            K[w[0]] = int(w[1])
    f['client_timeouts'] = client_timeouts(b, K)
    mask = _live_sigign(b)
    f['sigign_mask'] = mask
    f['ignores_sigpipe'] = bool(mask & (1 << (signal.SIGPIPE - 1)))
    return f


def _bl(x):
    return 'true' if x else 'false'


def generate(b):
    f = facts(b)
    def strs(l):
        return '[' + '; '.join('"%s"%%string' % s.replace('"', '""') for s in l) + ']'
    v = ['(* GENERATED by tools/gen/gen_vmdfacts.py from /repo/src/nanovm/vmd_server.c, main.c (clang AST) and the',
         '   signal dispositions of the freshly built nano_vmd (/proc/<pid>/status) -- do not edit *)',
         'From Coq Require Import NArith List String.', 'Import ListNotations.', 'Local Open Scope N_scope.', '',
         '(* callees of client_thread in source order *)',
         'Definition client_thread_calls : list string := %s.' % strs(f['client_thread_calls']),
         'Definition run_standalone_calls : list string := %s.' % strs(f['run_standalone_calls']),
         '(* nvm_verify is called, and before vm_execute, in client_thread / in run_standalone *)',
         'Definition verify_before_execute : bool := %s.' % _bl(f['verify_before_execute']),
         'Definition standalone_verifies : bool := %s.' % _bl(f['standalone_verifies']),
         '(* vm_get_result is consulted after vm_execute (main\'s int result becomes the exit status) in client_thread / in run_standalone *)',
         'Definition vmd_exit_from_main : bool := %s.' % _bl(f['exit_from_main']),
         'Definition standalone_exit_from_main : bool := %s.' % _bl(f['standalone_exit_from_main']),
         '(* every vmd_msg_send* in client_thread is an expression statement: a failed write does not end the session early *)',
         'Definition send_results_ignored : bool := %s.' % _bl(f['send_results_ignored']),
         '(* calls on the client side of a session (vmd_client.c, vmd_protocol.c, run_daemon) that put a time limit on a blocking read/write of',
         '   the session socket: setsockopt(SO_RCVTIMEO|SO_SNDTIMEO), alarm/setitimer, poll/select/epoll_wait; (unit, function, call) *)',
         'Definition vmd_client_timeout_calls : list (string * (string * string)) := [%s].' % '; '.join(
             '("%s"%%string, ("%s"%%string, "%s"%%string))' % t for t in f['client_timeouts']),
         'Definition vmd_client_has_timeout : bool := %s.' % _bl(bool(f['client_timeouts'])),
         '(* SigIgn mask of the listening daemon; bit 12 = SIGPIPE *)',
         'Definition vmd_sigign_mask : N := %d.' % f['sigign_mask'],
         'Definition vmd_ignores_sigpipe : bool := %s.' % _bl(f['ignores_sigpipe']),
         'Definition setup_signals_sigaction_signals : list N := [%s].' % '; '.join(str(x) for x in f['setup_signals_sigaction_signals']),
         '(* literals handed to vmd_msg_send_error in client_thread, as bytes *)',
         'Definition vmd_error_texts : list (list N) := [',
         ';\n'.join('  [%s] (* %s *)' % ('; '.join(str(c) for c in t.encode()), t.replace('*)', '* )')) for t in f['error_texts']),
         '].', '']
    return write_if_changed(os.path.join(GEN_DIR, 'VmdFacts.v'), '\n'.join(v))
