"""T: /repo/src/nanoisa/nvm_format.{h,c}  ->  coq/NV/gen/NvmConsts.v

Two sources, neither a regular expression over C text:
 * tools/gen/dump_nvmconsts.c #includes the repo's nvm_format.c and prints the wire constants (macros / enum values /
   field widths), the 256-entry table built by the repo's own crc32_init(), and nvm_crc32 test vectors;
 * clang's JSON AST of crc32_init and nvm_crc32: the *shape* of both functions (loops, shifts, xors, masks) is compared
   with the shape the Coq model NV.Nvm.Crc transcribes, and the three integer literals in the holes of that shape are
   POLY, INIT and XOROUT.  A different shape yields crc_shape_ok := false (theorem C12_crc_shape then fails).
The Coq side re-checks everything: table_of poly = dumped table, model CRC = nvm_crc32 on every vector."""
import os, json, subprocess
from genlib import run_dump, write_if_changed, GEN_DIR, REPO

KEEP = {'ForStmt', 'IfStmt', 'ReturnStmt', 'BinaryOperator', 'CompoundAssignOperator', 'UnaryOperator',
        'IntegerLiteral', 'DeclRefExpr', 'ArraySubscriptExpr', 'VarDecl', 'CallExpr', 'WhileStmt', 'DoStmt',
        'ConditionalOperator', 'CStyleCastExpr'}


def _sig(n):
    k = n.get('kind')
    inner = [s for s in (_sig(c) for c in n.get('inner', []) if isinstance(c, dict) and c.get('kind')) if s]
    if k not in KEEP:
        return ' '.join(inner)
    if k == 'IntegerLiteral':
        return n.get('value')
    if k == 'DeclRefExpr':
        return (n.get('referencedDecl') or {}).get('name', '?')
    if k == 'VarDecl':
        head = 'var:' + n.get('name', '?')
    elif k in ('BinaryOperator', 'CompoundAssignOperator', 'UnaryOperator'):
        head = n.get('opcode')
    elif k == 'ArraySubscriptExpr':
        head = 'idx'
    elif k == 'CStyleCastExpr':
        head = 'cast:' + (n.get('type') or {}).get('qualType', '?')
    else:
        head = k
    return '(' + head + (' ' + ' '.join(inner) if inner else '') + ')'


def _functions(src, cflags):
    cmd = ['clang', '-Xclang', '-ast-dump=json', '-fsyntax-only', '-w'] + [f for f in cflags if f.startswith('-I') or f.startswith('-D')] + [src]
    r = subprocess.run(cmd, capture_output=True, text=True, timeout=120)
    if r.returncode != 0 or not r.stdout:
        raise RuntimeError('clang AST dump failed: ' + r.stderr[-2000:])
    tu = json.loads(r.stdout)
    out = {}
    for d in tu.get('inner', []):
        if d.get('kind') == 'FunctionDecl' and d.get('name') in ('crc32_init', 'nvm_crc32') and any(c.get('kind') == 'CompoundStmt' for c in d.get('inner', [])):
            body = [c for c in d['inner'] if c.get('kind') == 'CompoundStmt'][0]
            out[d['name']] = _sig(body)
    return out

# the shape transcribed by NV.Nvm.Crc (holes: POLY INIT XOROUT)
SHAPE_INIT = ('(IfStmt crc32_initialized (ReturnStmt)) '
              '(ForStmt (var:i 0) (< i 256) (++ i) (var:crc i) '
              '(ForStmt (var:j 0) (< j 8) (++ j) (IfStmt (& crc 1) (= crc (^ (>> crc 1) POLY)) (>>= crc 1))) '
              '(= (idx crc32_table i) crc)) (= crc32_initialized 1)')
SHAPE_CRC = ('(CallExpr crc32_init) (var:crc INIT) '
             '(ForStmt (var:i 0) (< i size) (++ i) (= crc (^ (>> crc 8) (idx crc32_table (& (^ crc (idx data i)) 255))))) '
             '(ReturnStmt (^ crc XOROUT))')


def _match(shape, sig):
    """token-wise match; returns dict hole->literal or None"""
    a = shape.replace('(', ' ( ').replace(')', ' ) ').split()
    b = sig.replace('(', ' ( ').replace(')', ' ) ').split()
    if len(a) != len(b):
        return None
    holes = {}
    for x, y in zip(a, b):
        if x in ('POLY', 'INIT', 'XOROUT'):
            if not y.isdigit():
                return None
            holes[x] = int(y)
        elif x != y:
            return None
    return holes


def _steer(table, init, xorout, body):
    """four bytes t with crc(body + t) == crc(body) for the reflected table-driven CRC whose table was dumped (same
    formula as NV.Nvm.Crc.steer_tail, re-implemented here only to build the probe input)"""
    poly = table[128]
    s = init
    for x in body:
        s = (s >> 8) ^ table[(s ^ x) & 0xff]
    y = s
    for _ in range(32):
        y = (((y ^ poly) << 1) | 1) if (y >> 31) & 1 else (y << 1)
        y &= 0xffffffff
    return (s ^ y).to_bytes(4, 'little')


def _reject_trailing(b, table, init):
    sample = run_dump(b, 'dump_nvmconsts.c', args=['sample']).strip()
    f = bytes.fromhex(sample)
    if run_dump(b, 'dump_nvmconsts.c', args=['load', sample]).strip() != '1':
        raise RuntimeError('translator: the loader refuses a file nvm_serialize just wrote')
    t = _steer(table, init, 0, f[32:])
    return run_dump(b, 'dump_nvmconsts.c', args=['load', (f + t).hex()]).strip() == '0'


def generate(b):
    out = run_dump(b, 'dump_nvmconsts.c')
    consts, widths, table, vecs, magic = {}, {}, [], [], []
    for line in out.splitlines():
        f = line.split()
        if f[0] == 'MAGIC':
            magic = [int(x) for x in f[1:]]
        elif f[0] == 'C':
            consts[f[1]] = int(f[2])
        elif f[0] == 'W':
            widths[f[1]] = [int(x) for x in f[2:]]
        elif f[0] == 'TABLE':
            table = [int(x) for x in f[1:]]
        elif f[0] == 'VEC':
            bs = [] if f[1] == '-' else list(bytes.fromhex(f[1]))
            vecs.append((bs, int(f[2])))
    sigs = _functions(os.path.join(REPO, 'src/nanoisa/nvm_format.c'), b.cflags)
    h1 = _match(SHAPE_INIT, sigs.get('crc32_init', ''))
    h2 = _match(SHAPE_CRC, sigs.get('nvm_crc32', ''))
    shape_ok = h1 is not None and h2 is not None
    poly = (h1 or {}).get('POLY', table[128] if len(table) == 256 else 0)
    init = (h2 or {}).get('INIT', 0)
    xorout = (h2 or {}).get('XOROUT', 0)
    v = ['(* GENERATED by tools/gen/gen_nvmconsts.py from /repo/src/nanoisa/nvm_format.{h,c} -- do not edit *)',
         'From Coq Require Import NArith List.', 'Import ListNotations.', 'Local Open Scope N_scope.', '']
    v.append('Definition crc_poly : N := %d.' % poly)
    v.append('Definition crc_init : N := %d.' % init)
    v.append('Definition crc_xorout : N := %d.' % xorout)
    v.append('(* does the current nvm_deserialize refuse a valid file followed by a CRC-preserving 4-byte tail? (asked of the real code) *)')
    v.append('Definition reject_trailing : bool := %s.' % ('true' if _reject_trailing(b, table, init) else 'false'))
    v.append('(* shape of crc32_init / nvm_crc32 in the clang AST equals the shape the model transcribes *)')
    v.append('Definition crc_shape_ok : bool := %s.' % ('true' if shape_ok else 'false'))
    if not shape_ok:
        v.append('(* crc32_init: %s *)' % sigs.get('crc32_init', '?').replace('*)', '* )'))
        v.append('(* nvm_crc32 : %s *)' % sigs.get('nvm_crc32', '?').replace('*)', '* )'))
    v.append('Definition crc_table_dump : list N := [%s].' % '; '.join(str(x) for x in table))
    v.append('Definition crc_vectors : list (list N * N) := [')
    v.append(';\n'.join('  ([%s], %d)' % ('; '.join(str(x) for x in bs), c) for bs, c in vecs))
    v.append('].')
    v.append('Definition nvm_magic : list N := [%s].' % '; '.join(str(x) for x in magic))
    for k in ('format_version', 'header_size', 'section_entry_size', 'function_entry_size', 'debug_entry_size',
              'import_entry_base_size', 'max_sections', 'sec_code', 'sec_strings', 'sec_functions', 'sec_imports',
              'sec_debug', 'flag_has_main', 'flag_needs_extern', 'flag_debug_info'):
        v.append('Definition %s : N := %d.' % (k, consts[k]))
    for k in ('fn', 'imp', 'dbg'):
        v.append('Definition %s_field_widths : list N := [%s].' % (k, '; '.join(str(x) for x in widths[k])))
    v.append('')
    return write_if_changed(os.path.join(GEN_DIR, 'NvmConsts.v'), '\n'.join(v))


if __name__ == '__main__':
    import sys
    sys.path.insert(0, os.path.dirname(os.path.dirname(os.path.abspath(__file__))))
    from build_repo import build
    print(generate(build('plain')))
