"""Helper for translators that read facts from `clang -Xclang -ast-dump=json` (no regex over C text).
functions(b, relpath, names) -> {name: FunctionDecl json with a body}."""
import json, os, subprocess
REPO = os.environ.get('VERIF_REPO', '/repo')


def _flags(b):
    return [f for f in b.cflags if f.startswith(('-I', '-D', '-std'))] + ['-I' + os.path.join(REPO, 'src/nanovm'),
                                                                           '-I' + os.path.join(REPO, 'src/nanovirt')]


def functions(b, relpath, names):
    out = {}
    for name in names:
        cmd = ['clang'] + _flags(b) + ['-w', '-fsyntax-only', '-Xclang', '-ast-dump=json', '-Xclang', '-ast-dump-filter=' + name,
                                       os.path.join(REPO, relpath)]
        r = subprocess.run(cmd, capture_output=True, text=True, timeout=300)
        if r.returncode != 0:
            raise RuntimeError('clang ast dump failed: %s\n%s' % (' '.join(cmd), r.stderr[-2000:]))
        dec = json.JSONDecoder()
        s = r.stdout
        i = 0
        while True:
            j = s.find('{', i)
            if j < 0:
                break
            try:
                obj, k = dec.raw_decode(s, j)
            except ValueError:
                i = j + 1
                continue
            i = k
            if obj.get('kind') == 'FunctionDecl' and obj.get('name') == name and \
               any(c.get('kind') == 'CompoundStmt' for c in obj.get('inner', [])):
                out[name] = obj
    return out


def walk(node):
    yield node
    for c in node.get('inner', []) or []:
        if isinstance(c, dict):
            yield from walk(c)


def const_eval(node):
    """Integer value of a constant expression made of literals, casts, parens and + - * << (None if not)."""
    k = node.get('kind')
    if k == 'IntegerLiteral':
        return int(node['value'])
    if k in ('ImplicitCastExpr', 'ParenExpr', 'CStyleCastExpr', 'ConstantExpr'):
        return const_eval(node['inner'][0])
    if k == 'BinaryOperator':
        a, c = const_eval(node['inner'][0]), const_eval(node['inner'][1])
        if a is None or c is None:
            return None
        op = node['opcode']
        return {'*': a * c, '+': a + c, '-': a - c, '<<': a << c}.get(op)
    if k == 'UnaryOperator' and node.get('opcode') == '-':
        a = const_eval(node['inner'][0])
        return None if a is None else -a
    return None


def callee_name(call):
    """Name of the function a CallExpr calls directly (None for indirect calls)."""
    f = call['inner'][0]
    while f.get('kind') in ('ImplicitCastExpr', 'ParenExpr'):
        f = f['inner'][0]
    if f.get('kind') == 'DeclRefExpr':
        return f.get('referencedDecl', {}).get('name')
    return None
