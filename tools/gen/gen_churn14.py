"""T: real-VM instruction streams of the churn family -> coq/NV/gen/ChurnC14.v

Each churn program (a loop whose values die every iteration) is compiled with the current nano_virt, run on the current
VM under probes/heap_trace.c, and the decoded instruction stream the probe logged is translated (by nvref_c14's `C`
command, i.e. by the same opcode->constructor table the correspondence uses) into a Coq list of NV.Heap.Ops.instr,
together with the number of objects that were live on the real VM after main returned.  Properties_C14.v then
re-checks, by vm_compute on this table, that the model run of every stream ends with exactly that many live objects,
that the exact families are leak-free / equal across iteration counts and that the leaking ones grow."""
import os, sys
from genlib import write_if_changed, GEN_DIR, VERIF

PRELUDE = '''struct P { x: int, name: string, items: array<int> }
struct Q { p: P, tags: array<string> }
union Shape {
    Circle { label: string },
    Box { elems: array<string> },
    Dot { dn: int }
}
let mut g_names: array<string> = []
let mut g_arr: array<int> = [7]
let g_s: string = "alpha"

fn id_arr(a: array<int>) -> array<int> {
    return a
}
fn pass2(a: array<int>) -> array<int> {
    let r: array<int> = (id_arr a)
    return r
}
fn pass3(a: array<int>) -> array<int> {
    let r: array<int> = (pass2 a)
    let l: int = (array_length r)
    return r
}
fn id_str(s: string) -> string {
    return s
}
fn str2(s: string) -> string {
    let t: string = (id_str s)
    return (id_str t)
}
fn mkp(s: string, a: array<int>) -> P {
    return P { x: (array_length a), name: s, items: a }
}
fn mkq(p: P, s: string) -> Q {
    return Q { p: p, tags: [s, p.name, s] }
}
fn keep(s: string) -> int {
    set g_names (array_push g_names s)
    return (array_length g_names)
}
fn swapg(a: array<int>) -> array<int> {
    let old: array<int> = g_arr
    set g_arr a
    return old
}
fn shape_of(k: int, s: string, ss: array<string>) -> Shape {
    if (== k 0) {
        return Shape.Circle { label: s }
    } else {
        if (== k 1) {
            return Shape.Box { elems: ss }
        } else {
            return Shape.Dot { dn: k }
        }
    }
}
fn shape_name(sh: Shape) -> string {
    match sh {
        Circle(c) => { return c.label }
        Box(b) => {
            let its: array<string> = b.elems
            if (> (array_length its) 0) {
                let r: string = (at its 0)
                return r
            } else {
                return "empty"
            }
        }
        Dot(d) => { return "dot" }
    }
}
fn dbl(x: int) -> int {
    return (* x 2)
}
'''


# churn family: a loop whose values die each iteration; K is substituted.  exact = no construct with a known leak.
CHURN = {
    'strings': ('let s: string = (+ "it" (int_to_string i))\n        let t: string = (+ s s)\n        let n: int = (str_length t)', True),
    'array_literal': ('let a: array<int> = [i, 2, 3]\n        let b: array<int> = (pass3 a)\n        let c: array<int> = (array_slice b 0 2)', True),
    'array_of_strings': ('let mut a: array<string> = []\n        set a (array_push a (+ "k" (int_to_string i)))\n        set a (array_push a "t1")\n        let x: string = (array_pop a)', True),
    'struct': ('let p: P = (mkp (+ "n" (int_to_string i)) [i, i])\n        let q: Q = (mkq p "t1")\n        let pp: P = q.p\n        let its: array<int> = pp.items', True),
    'union_tuple': ('let sh: Shape = (shape_of 1 "c" [(int_to_string i), "b"])\n        let nm: string = (shape_name sh)\n        let t: (string, int) = (nm, i)\n        let u: string = t.0', True),
    'nested_arrays': ('let a: array<int> = [i]\n        let mut aa: array<array<int>> = [a, a]\n        set aa (array_push aa a)\n        (array_set aa 0 [i, i])', True),
    'global_swap': ('let old: array<int> = (swapg [i, 1])\n        let l: int = (array_length old)', True),
    'array_remove': ('let mut a: array<string> = [(+ "r" (int_to_string i)), "keep"]\n        set a (array_remove_at a 0)', True),
    'array_set_inrange': ('let a: array<string> = ["z", (+ "y" (int_to_string i))]\n        (array_set a 1 (+ "n" (int_to_string i)))\n        (array_set a 0 "t1")', True),
    'fn_value_call': ('let f: fn(int) -> int = dbl\n        let r: int = (f i)', True),
    'extern_string_arg': ('let s: string = (+ "arg" (int_to_string i))\n        let n: int = (strlen s)', True),
}
EXTRA_DECLS = {'extern_string_arg': 'extern fn strlen(s: string) -> int\n'}


def churn_program(body, k, fam=None):
    return EXTRA_DECLS.get(fam, '') + PRELUDE + '''fn main() -> int {
    let mut i: int = 0
    while (< i %d) {
        %s
        set i (+ i 1)
    }
    return 0
}
''' % (k, body)



KS_COQ = (3, 12)


def generate(b):
    sys.path.insert(0, os.path.join(VERIF, 'tools'))
    import vlib
    probe = b.link_probe(os.path.join(VERIF, 'probes', 'heap_trace.c'))
    ref = vlib.build_nvref('c14')
    scr = os.path.join(vlib.BUILD, 'c14'); os.makedirs(scr, exist_ok=True)
    v = ['(* GENERATED by tools/gen/gen_churn14.py from the instruction streams of the current nano_virt + NanoVM -- do not edit *)',
         'From Coq Require Import List ZArith.', 'From NV Require Import Heap.Heap Heap.Ops.', 'Import ListNotations.', '']
    rows = []
    for fam, (body, exact) in CHURN.items():
        per_k = []
        for k in KS_COQ:
            name = 'churn_%s_%d' % (fam, k)
            try:
                src = os.path.join(scr, 'churngen_%s_%d.nano' % (fam, k)); nvm = src[:-5] + '.nvm'
                open(src, 'w').write(churn_program(body, k, fam))
                rc, o, e = vlib.sh([b.bin('nano_virt'), src, '--emit-nvm', '-o', nvm], timeout=30, cwd=b.root)
                if rc != 0 or not os.path.exists(nvm):
                    raise RuntimeError('does not compile: %s' % (o + e)[-300:])
                rc, o, e = vlib.sh([probe, nvm, '200000'], timeout=60)
                if rc not in (0, 10):
                    raise RuntimeError('failed on the VM (rc=%s): %s' % (rc, e[-300:]))
                ilines = [l for l in o.splitlines() if l.startswith('I ') and ' DESTROY ' not in l]
                slines = [l for l in o.splitlines() if l.startswith('S ')]
                real_live = len(slines[-1].split()) - 4
                terms = vlib.run_lines(ref, ['C' + l[1:] for l in ilines])
                if len(terms) != len(ilines) or any(t in ('U', 'bad') for t in terms):
                    raise RuntimeError('has an instruction outside the model')
            except Exception as ex:
                # the stream cannot be produced on this tree: emit a row that fails C14_churn_bounded_partial (the check then
                # goes on to the correspondence, which finds and reports the concrete failing input)
                v.append('(* %s: %s *)' % (name, str(ex).replace('*)', '* )').replace('(*', '( *')[:300]))
                terms, real_live = [], 4000
            v.append('Definition %s : list instr := [' % name)
            v.append(';\n'.join('  ' + t for t in terms))
            v.append('].')
            per_k.append('(%d, %s, %d)' % (k, name, real_live))
        rows.append('  (%s, [%s])' % ('true' if exact else 'false', '; '.join(per_k)))
    v.append('(* (family is expected to be exact, [(iterations, stream, live objects on the real VM after main returned)]) in the order: %s *)' % ', '.join(CHURN))
    v.append('Definition churn_table : list (bool * list (nat * list instr * nat)) := [')
    v.append(';\n'.join(rows))
    v.append('].')
    v.append('')
    return write_if_changed(os.path.join(GEN_DIR, 'ChurnC14.v'), '\n'.join(v))
