"""T: the four places that load a .nvm image  ->  coq/NV/gen/LoadPaths.v

  nano_vm      src/nanovm/main.c        run_standalone()
  nano_vmd     src/nanovm/vmd_server.c  client_thread()          (VMD_MSG_LOAD_EXEC)
  nano_cop     src/nanovm/cop_main.c    handle_init()
  wrapper      src/nanovirt/wrapper_gen.c write_wrapper_c()      (the main it prints)

For each C function the clang JSON AST is checked against this rule (stated shape, no regular expression over C text):
 (D1) the only call expression of type `NvmModule *` in the function is nvm_deserialize(...);
 (D2) every write to a variable of type `NvmModule *` (declaration with initialiser, or `v = e`) has as its value such a
      nvm_deserialize call or a null pointer constant;
 (D3) there is at least one nvm_deserialize call and the first argument of every one is a plain variable B which is the
      buffer handed to the receive step: B is an argument of a call to vmd_msg_recv_payload / cop_recv_payload / fread,
      or B is initialised by read_file(...);
 (V)  verifies: a call nvm_verify(v) on a module variable lies (source order) after the first nvm_deserialize call and
      before the first vm_init call.
So the module a session runs can only be the result of deserialising the bytes received in THIS session: nothing kept
from an earlier request (a cache, a global) can stand in for it.  For the wrapper the same is read off the string
literals of write_wrapper_c: exactly one literal assigns `module`, and it is
`NvmModule *module = nvm_deserialize(nvm_blob, %u);` (the embedded array).
The Coq side (Nvm/LoadPaths.v, Properties_C12) needs every *_deserializes_received flag and the verify flags of the two
paths that execute received bytes (nano_vm, nano_vmd) to be true."""
import os, json, subprocess
from genlib import write_if_changed, GEN_DIR, REPO

RECV = ('vmd_msg_recv_payload', 'cop_recv_payload', 'fread')


def _docs(txt):
    dec = json.JSONDecoder(); i = 0; out = []
    while True:
        i = txt.find('{', i)
        if i < 0:
            return out
        d, i = dec.raw_decode(txt, i)
        out.append(d)


def _func(src, fn, cflags):
    cmd = ['clang', '-Xclang', '-ast-dump=json', '-Xclang', '-ast-dump-filter=' + fn, '-fsyntax-only', '-w'] + \
          [f for f in cflags if f.startswith('-I') or f.startswith('-D')] + \
          ['-I' + os.path.join(REPO, 'src/nanovm'), '-I' + os.path.join(REPO, 'src/nanovirt'), src]
    r = subprocess.run(cmd, capture_output=True, text=True, timeout=180)
    if r.returncode != 0:
        raise RuntimeError('clang AST dump failed for %s: %s' % (src, r.stderr[-1500:]))
    for d in _docs(r.stdout):
        if d.get('kind') == 'FunctionDecl' and d.get('name') == fn and any(c.get('kind') == 'CompoundStmt' for c in d.get('inner', [])):
            return d
    raise RuntimeError('function %s not found in %s' % (fn, src))


def _walk(n):
    yield n
    for c in n.get('inner', []) or []:
        if isinstance(c, dict):
            yield from _walk(c)


def _strip(n):
    while n.get('kind') in ('ImplicitCastExpr', 'ParenExpr', 'CStyleCastExpr') and n.get('inner'):
        n = n['inner'][0]
    return n


def _off(n):
    b = (n.get('range') or {}).get('begin') or {}
    if 'offset' in b:
        return b['offset']
    for k in ('expansionLoc', 'spellingLoc'):
        if k in b and 'offset' in b[k]:
            return b[k]['offset']
    return -1


def _is_modptr(n):
    return (n.get('type') or {}).get('qualType', '').replace('const ', '').strip() in ('NvmModule *', 'struct NvmModule *')


def _callee(n):
    if n.get('kind') != 'CallExpr' or not n.get('inner'):
        return None
    c = _strip(n['inner'][0])
    return (c.get('referencedDecl') or {}).get('name') if c.get('kind') == 'DeclRefExpr' else None


def _is_null(n):
    n = _strip(n)
    return n.get('kind') == 'GNUNullExpr' or (n.get('kind') == 'IntegerLiteral' and n.get('value') == '0')


def check_function(fd):
    """-> (deserializes_received, verifies, reasons)"""
    why = []
    nodes = list(_walk(fd))
    deser = [n for n in nodes if _callee(n) == 'nvm_deserialize']
    # D1
    for n in nodes:
        if n.get('kind') == 'CallExpr' and _is_modptr(n) and _callee(n) != 'nvm_deserialize':
            why.append('D1: call of type NvmModule* to %s' % _callee(n))
    # D2
    for n in nodes:
        if n.get('kind') == 'VarDecl' and _is_modptr(n) and n.get('inner'):
            v = _strip([c for c in n['inner'] if isinstance(c, dict) and c.get('kind')][-1])
            if not (_callee(v) == 'nvm_deserialize' or _is_null(v)):
                why.append('D2: %s initialised by %s' % (n.get('name'), _callee(v) or v.get('kind')))
        if n.get('kind') == 'BinaryOperator' and n.get('opcode') == '=' and len(n.get('inner', [])) == 2 and _is_modptr(n['inner'][0]):
            v = _strip(n['inner'][1])
            if not (_callee(v) == 'nvm_deserialize' or _is_null(v)):
                why.append('D2: module variable assigned from %s' % (_callee(v) or v.get('kind')))
    # D3
    if not deser:
        why.append('D3: no nvm_deserialize call')
    recv_bufs = set()
    for n in nodes:
        if _callee(n) in RECV:
            for a in n['inner'][1:]:
                a = _strip(a)
                if a.get('kind') == 'DeclRefExpr':
                    recv_bufs.add((a.get('referencedDecl') or {}).get('name'))
        if n.get('kind') == 'VarDecl' and n.get('inner'):
            v = _strip([c for c in n['inner'] if isinstance(c, dict) and c.get('kind')][-1])
            if _callee(v) == 'read_file':
                recv_bufs.add(n.get('name'))
    for n in deser:
        a = _strip(n['inner'][1]) if len(n['inner']) > 1 else {}
        nm = (a.get('referencedDecl') or {}).get('name') if a.get('kind') == 'DeclRefExpr' else None
        if nm is None or nm not in recv_bufs:
            why.append('D3: nvm_deserialize argument %s is not the receive buffer %s' % (nm, sorted(recv_bufs)))
    # V
    ver = [n for n in nodes if _callee(n) == 'nvm_verify']
    inits = [n for n in nodes if _callee(n) == 'vm_init']
    verifies = False
    if deser and ver:
        d0 = min(_off(n) for n in deser)
        i0 = min([_off(n) for n in inits] or [1 << 60])
        verifies = any(d0 < _off(n) < i0 for n in ver)
    return (not why), verifies, why


def check_wrapper(fd):
    lits = [n.get('value') or '' for n in _walk(fd) if n.get('kind') == 'StringLiteral']
    assigns = [l for l in lits if 'module = ' in l]
    ok = len(assigns) == 1 and 'NvmModule *module = nvm_deserialize(nvm_blob, %u);' in assigns[0]
    why = [] if ok else ['wrapper: literals assigning module: %r' % assigns[:3]]
    return ok, any('nvm_verify(' in l for l in lits), why


def facts(b):
    out = {}
    for name, src, fn in (('nano_vm', 'src/nanovm/main.c', 'run_standalone'),
                          ('vmd', 'src/nanovm/vmd_server.c', 'client_thread'),
                          ('cop', 'src/nanovm/cop_main.c', 'handle_init')):
        out[name] = check_function(_func(os.path.join(REPO, src), fn, b.cflags))
    out['wrapper'] = check_wrapper(_func(os.path.join(REPO, 'src/nanovirt/wrapper_gen.c'), 'write_wrapper_c', b.cflags))
    return out


def generate(b):
    f = facts(b)
    v = ['(* GENERATED by tools/gen/gen_loadpaths.py from the clang AST of the four loaders -- do not edit.',
         '   rule D1-D3 / V: see the translator; a false flag is followed by the reasons the rule gave *)']
    B = lambda x: 'true' if x else 'false'
    for name in ('nano_vm', 'vmd', 'cop', 'wrapper'):
        d, ver, why = f[name]
        v.append('Definition %s_deserializes_received : bool := %s.' % (name, B(d)))
        v.append('Definition %s_verifies : bool := %s.' % (name, B(ver)))
        for w in why:
            v.append('(* %s: %s *)' % (name, w.replace('*)', '* )')))
    v.append('')
    return write_if_changed(os.path.join(GEN_DIR, 'LoadPaths.v'), '\n'.join(v))


if __name__ == '__main__':
    import sys
    sys.path.insert(0, os.path.dirname(os.path.dirname(os.path.abspath(__file__))))
    from build_repo import build
    bb = build('plain')
    for k, x in facts(bb).items():
        print(k, x)
    print(generate(bb))
