"""T: src/typechecker.c  ->  coq/NV/gen/DiagSites.v

The type checker's ERROR DIAGNOSTIC CALL SITES, read from clang's JSON AST (no regular expression over C text):
  * a call of emit_context_error(title, ...) whose title literal does not name a warning, or
  * a call of fprintf / safe_fprintf (stderr, fmt, ...) whose format literal contains "Error" / "error" and not "Warning",
inside a function defined in src/typechecker.c (the printing helpers themselves excluded).
For every site: how the enclosing path reports the failure to its caller -- looking at the statements of the innermost
enclosing block `{ ... }` of which the call statement is a direct child:
  Flag        the block assigns `<x>.has_error = true` / `<x>->has_error = true`; or the site is an emit_context_error call and
              emit_context_error itself bumps a file-level counter that type_check reads in its return statement; or the
              block sets a local bool that the function returns AND every call of the function in the file is
              `if (f(..)) <x>.has_error = true;` (reporting helper, e.g. report_duplicate_params)
  RetUnknown  a later statement of the block is `return TYPE_UNKNOWN;`
  RetFalse    a later statement of the block is `return false;` / `return NULL;` / `return 0;` (helper predicates)
  Neither     none of these: the diagnostic is printed and checking goes on as if nothing had happened
A site is identified by (function, title or format text, hint text) -- never by line number -- with an ordinal when the same
texts occur twice in a function.  Also listed: the calls of check_expression whose result is discarded (expression
statements), per function: that is where a `RetUnknown` verdict is lost.
Obligation (Props/Properties_C05.v): every site is Flag/RetUnknown/RetFalse or is listed in the committed triage table
NV/Lang/DiagTriage.v (a finding with a concrete program, or a justified propagation path)."""
import os, sys, json, re, subprocess
from genlib import write_if_changed, GEN_DIR, REPO

SKIP_FUNCS = {'emit_context_error', 'print_error_header', 'print_error_context_line', 'read_source_line'}


def _ast(b):
    cmd = ['clang'] + [f for f in b.cflags if f.startswith(('-I', '-D', '-std'))] + \
          ['-w', '-fsyntax-only', '-Xclang', '-ast-dump=json', os.path.join(REPO, 'src/typechecker.c')]
    r = subprocess.run(cmd, capture_output=True, text=True, timeout=300)
    if r.returncode != 0:
        raise RuntimeError('clang ast dump failed: ' + r.stderr[-2000:])
    return json.loads(r.stdout)


def _strip(n):
    while n.get('kind') in ('ImplicitCastExpr', 'ParenExpr', 'CStyleCastExpr') and n.get('inner'):
        n = n['inner'][0]
    return n


def _callee(call):
    f = _strip(call['inner'][0])
    if f.get('kind') == 'DeclRefExpr':
        return (f.get('referencedDecl') or {}).get('name')
    return None


def _lit(n):
    n = _strip(n)
    if n.get('kind') == 'StringLiteral':
        v = n.get('value') or ''
        try:
            return json.loads(v)
        except Exception:
            return v.strip('"')
    return None


def _walk(n):
    yield n
    for c in n.get('inner', []) or []:
        if isinstance(c, dict):
            yield from _walk(c)


def _is_flag_assign(st):
    for n in _walk(st):
        if n.get('kind') == 'BinaryOperator' and n.get('opcode') == '=':
            lhs = _strip(n['inner'][0])
            if lhs.get('kind') == 'MemberExpr' and lhs.get('name') == 'has_error':
                return True
    return False


def _ret_kind(st):
    if st.get('kind') != 'ReturnStmt':
        return None
    if not st.get('inner'):
        return 'void'
    v = _strip(st['inner'][0])
    if v.get('kind') == 'DeclRefExpr':
        nm = (v.get('referencedDecl') or {}).get('name')
        return 'RetUnknown' if nm == 'TYPE_UNKNOWN' else 'other:' + str(nm)
    if v.get('kind') == 'CXXBoolLiteralExpr':
        return 'RetFalse' if not v.get('value') else 'other:true'
    if v.get('kind') == 'IntegerLiteral':
        return 'RetFalse' if v.get('value') == '0' else 'other:int'
    if v.get('kind') in ('GNUNullExpr',):
        return 'RetFalse'
    return 'other'


def _slug(s, n=90):
    s = re.sub(r'%[-0-9.]*[a-z]+', '_', s or '')
    s = re.sub(r'[^A-Za-z0-9_ ]+', ' ', s)
    return ' '.join(s.split())[:n]


def sites_of(fn):
    """yield dict(function, what, kind) for every error diagnostic call in fn"""
    out = []
    drops = 0

    def visit(node, block, idx):
        """block/idx: innermost CompoundStmt of which the statement containing `node` is direct child number idx"""
        nonlocal drops
        if node.get('kind') == 'CompoundStmt':
            for i, c in enumerate(node.get('inner', []) or []):
                if isinstance(c, dict):
                    if c.get('kind') == 'CallExpr' and _callee(c) == 'check_expression':
                        drops += 1           # value of check_expression discarded
                    visit(c, node, i)
            return
        if node.get('kind') == 'CallExpr':
            name = _callee(node)
            args = node['inner'][1:]
            what = None
            if name == 'emit_context_error' and args:
                title = _lit(args[0]) or '?'
                if 'WARNING' not in title.upper():
                    msg = _lit(args[4]) if len(args) > 4 else None
                    hint = _lit(args[5]) if len(args) > 5 else None
                    what = title + ' / ' + _slug(msg if msg else (hint or ''))
            elif name in ('fprintf', 'safe_fprintf') and len(args) >= 2:
                a0 = _strip(args[0])
                is_stderr = any((m.get('referencedDecl') or {}).get('name') == 'stderr' for m in _walk(args[0]) if m.get('kind') == 'DeclRefExpr')
                fmt = _lit(args[1])
                if is_stderr and fmt and re.search(r'[Ee]rror', fmt) and 'arning' not in fmt:
                    what = _slug(fmt)
            if what is not None:
                kind = 'Neither'
                if block is not None:
                    sts = [c for c in (block.get('inner') or []) if isinstance(c, dict)]
                    if any(_is_flag_assign(s) and s.get('kind') != 'IfStmt' and s.get('kind') != 'CompoundStmt' for s in sts):
                        kind = 'Flag'
                    else:
                        for s in sts[idx + 1:]:
                            rk = _ret_kind(s)
                            if rk in ('RetUnknown', 'RetFalse'):
                                kind = rk
                                break
                            if rk is not None:
                                break            # returns something else first
                result_var = None
                if kind == 'Neither' and block is not None:
                    # the block records the failure in a local bool (reporting helper: `found = true;`)
                    for st in sts:
                        st2 = _strip(st)
                        if st2.get('kind') == 'BinaryOperator' and st2.get('opcode') == '=':
                            lhs, rhs = _strip(st2['inner'][0]), _strip(st2['inner'][1])
                            if lhs.get('kind') == 'DeclRefExpr' and (lhs.get('referencedDecl') or {}).get('kind') == 'VarDecl' and \
                               ((rhs.get('kind') == 'CXXBoolLiteralExpr' and rhs.get('value')) or
                                (rhs.get('kind') == 'IntegerLiteral' and rhs.get('value') == '1')):
                                result_var = (lhs.get('referencedDecl') or {}).get('name')
                out.append(dict(function=fn['name'], what=what, kind=kind, helper=(name == 'emit_context_error'), result_var=result_var))
        for c in node.get('inner', []) or []:
            if isinstance(c, dict):
                if c.get('kind') == 'CompoundStmt':
                    visit(c, None, 0)
                else:
                    # a statement that is not itself a block keeps the enclosing (block, idx) only when it IS the direct child
                    # (case/default labels are transparent: the labelled statement is a statement of the enclosing block)
                    visit(c, block if node.get('kind') not in ('IfStmt', 'WhileStmt', 'ForStmt', 'SwitchStmt', 'DoStmt') else None, idx)
    body = [c for c in fn.get('inner', []) if isinstance(c, dict) and c.get('kind') == 'CompoundStmt'][0]
    visit(body, None, 0)
    return out, drops


def helper_counts_errors(tu):
    """True when emit_context_error itself records the error in a file-level variable that type_check reads in a return
    statement (then every emit_context_error site fails the compilation whatever its block does)."""
    bumped = set()
    for n in tu['inner']:
        if n.get('kind') == 'FunctionDecl' and n.get('name') == 'emit_context_error':
            for m in _walk(n):
                if m.get('kind') == 'UnaryOperator' and m.get('opcode') in ('++',) or \
                   (m.get('kind') in ('BinaryOperator', 'CompoundAssignOperator') and m.get('opcode') in ('=', '+=')):
                    tgt = _strip(m['inner'][0])
                    if tgt.get('kind') == 'DeclRefExpr' and (tgt.get('referencedDecl') or {}).get('kind') == 'VarDecl':
                        bumped.add((tgt.get('referencedDecl') or {}).get('name'))
    if not bumped:
        return False
    for n in tu['inner']:
        if n.get('kind') == 'FunctionDecl' and n.get('name') == 'type_check':
            for m in _walk(n):
                if m.get('kind') == 'ReturnStmt':
                    if any(k.get('kind') == 'DeclRefExpr' and (k.get('referencedDecl') or {}).get('name') in bumped for k in _walk(m)):
                        return True
    return False


def reporting_helpers(tu):
    """{function name: result variable} for functions `static bool f(..)` that end in `return <local>;` and whose EVERY call in
    the file is the whole condition of an `if` whose then-branch assigns has_error (`if (f(x)) tc->has_error = true;`).
    A diagnostic of such a function that sets that local to true in its block fails the compilation through its callers."""
    cand = {}
    for n in tu['inner']:
        if n.get('kind') != 'FunctionDecl' or 'includedFrom' in n.get('loc', {}):
            continue
        body = [c for c in n.get('inner', []) if isinstance(c, dict) and c.get('kind') == 'CompoundStmt']
        if not body or not (n.get('type', {}).get('qualType', '').startswith(('bool', '_Bool'))):
            continue
        sts = [c for c in body[0].get('inner', []) if isinstance(c, dict)]
        if sts and sts[-1].get('kind') == 'ReturnStmt' and sts[-1].get('inner'):
            v = _strip(sts[-1]['inner'][0])
            if v.get('kind') == 'DeclRefExpr' and (v.get('referencedDecl') or {}).get('kind') == 'VarDecl':
                cand[n['name']] = (v.get('referencedDecl') or {}).get('name')
    if not cand:
        return {}
    calls = {f: 0 for f in cand}
    good = {f: 0 for f in cand}

    def walk(node):
        if not isinstance(node, dict):
            return
        if node.get('kind') == 'IfStmt':
            inner = [c for c in node.get('inner', []) if isinstance(c, dict)]
            if len(inner) >= 2:
                c = _strip(inner[0])
                if c.get('kind') == 'CallExpr' and _callee(c) in cand and any(_is_flag_assign(x) for x in _walk(inner[1])):
                    good[_callee(c)] += 1
        if node.get('kind') == 'CallExpr' and _callee(node) in cand:
            calls[_callee(node)] += 1
        for c in node.get('inner', []) or []:
            walk(c)
    for n in tu['inner']:
        if n.get('kind') == 'FunctionDecl' and 'includedFrom' not in n.get('loc', {}):
            walk(n)
    return {f: v for f, v in cand.items() if calls[f] > 0 and calls[f] == good[f]}


def collect(b):
    tu = _ast(b)
    via_helper = helper_counts_errors(tu)
    rep_helpers = reporting_helpers(tu)
    sites, drops = [], []
    for n in tu['inner']:
        if n.get('kind') != 'FunctionDecl' or not any(isinstance(c, dict) and c.get('kind') == 'CompoundStmt' for c in n.get('inner', [])):
            continue
        loc = n.get('loc', {})
        if 'includedFrom' in loc or 'includedFrom' in (loc.get('expansionLoc') or {}):
            continue
        if n['name'] in SKIP_FUNCS:
            continue
        s, d = sites_of(n)
        for x in s:
            if x['kind'] == 'Neither' and x.get('result_var') and rep_helpers.get(n['name']) == x['result_var']:
                x['kind'] = 'Flag'
        if via_helper:
            for x in s:
                if x['kind'] == 'Neither' and x.get('helper'):
                    x['kind'] = 'Flag'
        sites += s
        if d:
            drops.append((n['name'], d))
    # stable ids
    seen = {}
    for s in sites:
        k = s['function'] + ': ' + s['what']
        seen[k] = seen.get(k, 0) + 1
        s['id'] = k if seen[k] == 1 else '%s #%d' % (k, seen[k])
    return sites, drops


def coq_str(s):
    return '"' + s.replace('"', '""') + '"'


def generate(b):
    sites, drops = collect(b)
    v = ['(* GENERATED by tools/gen/gen_diagsites.py from src/typechecker.c (clang JSON AST) -- do not edit *)',
         'From Coq Require Import String List.', 'Import ListNotations.', 'Open Scope string_scope.',
         'Inductive site_kind := Flag | RetUnknown | RetFalse | Neither.',
         '(* (site id = function: title-or-format / message-or-hint [#ordinal], how the failure is reported) *)',
         'Definition diag_sites : list (string * site_kind) := [']
    v.append(';\n'.join('  (%s, %s)' % (coq_str(s['id']), s['kind']) for s in sites))
    v.append('].')
    v.append('(* calls of check_expression whose result is discarded, per function *)')
    v.append('Definition dropped_check_expression : list (string * nat) := [%s].' % '; '.join('(%s, %d)' % (coq_str(f), n) for f, n in drops))
    v.append('')
    return write_if_changed(os.path.join(GEN_DIR, 'DiagSites.v'), '\n'.join(v))


if __name__ == '__main__':
    sys.path.insert(0, os.path.dirname(os.path.dirname(os.path.abspath(__file__))))
    from build_repo import build
    bb = build('plain')
    s, d = collect(bb)
    import collections
    print(len(s), collections.Counter(x['kind'] for x in s))
    for x in s:
        if x['kind'] == 'Neither':
            print('  ', x['id'])
    print(d)
    print(generate(bb))
