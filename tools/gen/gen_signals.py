"""T: does each executable ignore SIGPIPE?  ->  coq/NV/gen/Signals.v
Rule (stated, checked dynamically by tools/props/c16.py against /proc/<pid>/status of the running nano_vm):
  1. the translation units of a binary that can change a signal disposition at all are those whose freshly built object
     imports signal / sigaction / sigignore / sigset / bsd_signal / __sysv_signal (nm -u on build/plain/obj);
  2. in the clang AST of those units and of the binary's main unit, a call signal(SIGPIPE, SIG_IGN) or
     sigaction(SIGPIPE, &sa, ..) whose most recent assignment to .sa_handler in the same function is SIG_IGN counts,
     provided its enclosing function is reachable through direct calls inside those units from main, or from
     vm_ffi_call_cop (the entry of every isolated extern call, reached from main through vm_execute).
No regular expression over C text is involved."""
import os, subprocess, json
from genlib import run_dump, write_if_changed, GEN_DIR, REPO
import build_repo

SIGFUNCS = {'signal', 'sigaction', 'sigignore', 'sigset', 'bsd_signal', '__sysv_signal', 'sysv_signal'}


def _obj(b, s):
    return os.path.join(b.obj, s[len('src/'):].replace('/', '__')[:-2] + '.o')


_IMP = {}


def _imports(b, s):
    if (b.obj, s) not in _IMP:
        _IMP[(b.obj, s)] = _imports1(b, s)
    return _IMP[(b.obj, s)]


def _imports1(b, s):
    r = subprocess.run(['nm', '-u', _obj(b, s)], capture_output=True, text=True, timeout=60)
    if r.returncode != 0:
        raise RuntimeError('nm failed on %s: %s' % (_obj(b, s), r.stderr))
    return {l.split()[-1].split('@')[0] for l in r.stdout.splitlines() if l.strip()} & SIGFUNCS


def _tu_functions(b, rel):
    """{name: FunctionDecl} for the functions DEFINED in this unit (whole-TU AST)"""
    flags = [f for f in b.cflags if f.startswith(('-I', '-D', '-std'))] + ['-I' + os.path.join(REPO, 'src/nanovm'), '-I' + os.path.join(REPO, 'src/nanovirt')]
    cmd = ['clang'] + flags + ['-w', '-fsyntax-only', '-Xclang', '-ast-dump=json', os.path.join(REPO, rel)]
    r = subprocess.run(cmd, capture_output=True, text=True, timeout=600)
    if r.returncode != 0:
        raise RuntimeError('clang ast dump failed for %s: %s' % (rel, r.stderr[-2000:]))
    tu = json.loads(r.stdout)
    out = {}
    for n in tu.get('inner', []):
        if n.get('kind') == 'FunctionDecl' and any(c.get('kind') == 'CompoundStmt' for c in n.get('inner', [])):
            out[n['name']] = n
    return out


def _walk(n):
    yield n
    for c in n.get('inner', []) or []:
        if isinstance(c, dict):
            yield from _walk(c)


def _const(n):
    import clang_ast
    return clang_ast.const_eval(n)


def _callee(call):
    import clang_ast
    return clang_ast.callee_name(call)


def _ignoring_sites(fn, SIGPIPE, SIG_IGN):
    """source-order scan of one function: [(kind, detail)] for calls that set SIGPIPE to SIG_IGN"""
    sites = []
    last_handler = None
    for n in _walk(fn):
        k = n.get('kind')
        if k == 'BinaryOperator' and n.get('opcode') == '=':
            lhs, rhs = n['inner'][0], n['inner'][1]
            names = [m.get('name', '') for m in _walk(lhs) if m.get('kind') == 'MemberExpr']
            if any('sa_handler' in x for x in names):
                last_handler = _const(rhs)
        elif k == 'CallExpr':
            cn = _callee(n)
            args = n['inner'][1:]
            if cn in ('signal', 'bsd_signal', '__sysv_signal', 'sysv_signal', 'sigset') and len(args) >= 2:
                if _const(args[0]) == SIGPIPE and _const(args[1]) == SIG_IGN:
                    sites.append((cn, fn['name']))
            elif cn == 'sigignore' and args and _const(args[0]) == SIGPIPE:
                sites.append((cn, fn['name']))
            elif cn == 'sigaction' and args and _const(args[0]) == SIGPIPE and last_handler == SIG_IGN:
                sites.append((cn, fn['name']))
    return sites


# functions that run before the first write to the co-process pipe on every isolated extern call although the path from main
# to them leaves the scanned units (main -> vm_execute -> ... -> TRAP_EXTERN_CALL -> vm_ffi_call_cop)
EXTRA_ROOTS = {'nano_vm': ['vm_ffi_call_cop'], 'nano_vmd': ['vm_ffi_call_cop'], 'nano_cop': []}


def _reachable(funcs, roots=('main',)):
    seen, todo = set(), list(roots)
    while todo:
        f = todo.pop()
        if f in seen or f not in funcs:
            continue
        seen.add(f)
        for n in _walk(funcs[f]):
            if n.get('kind') == 'CallExpr':
                c = _callee(n)
                if c and c not in seen:
                    todo.append(c)
    return seen


def generate(b):
    kv = dict(l.split() for l in run_dump(b, 'dump_signals.c').splitlines())
    SIGPIPE, SIG_IGN = int(kv['SIGPIPE']), int(kv['SIG_IGN'])
    common, runtime = build_repo._make_vars()
    nanoisa = ['src/nanoisa/' + f for f in build_repo.NANOISA]
    nanovm = ['src/nanovm/' + f for f in build_repo.NANOVM]
    vmd = ['src/nanovm/' + f for f in build_repo.VMD]
    bins = {
        'nano_vm': ('src/nanovm/main.c', nanovm + nanoisa + common + runtime + ['src/nanovm/vmd_protocol.c', 'src/nanovm/vmd_client.c']),
        'nano_cop': ('src/nanovm/cop_main.c', nanovm + nanoisa + common + runtime),
        'nano_vmd': ('src/nanovm/vmd_main.c', nanovm + nanoisa + common + runtime + vmd),
    }
    # unchanged objects + unchanged translator => same answer (the AST dumps of the main units cost ~20 s)
    import hashlib
    hh = hashlib.sha256(open(__file__, 'rb').read())
    for s_ in sorted({x for m, ss in bins.values() for x in [m] + ss}):
        hh.update(s_.encode()); hh.update(open(_obj(b, s_) + '.key').read().encode() if os.path.exists(_obj(b, s_) + '.key') else os.urandom(8))
    hh.update(('%d %d' % (SIGPIPE, SIG_IGN)).encode())
    cpath = os.path.join(b.root, 'gen', 'signals.cache.json')
    key = hh.hexdigest()
    if os.path.exists(cpath):
        try:
            cj = json.load(open(cpath))
            if cj.get('key') == key:
                return write_if_changed(os.path.join(GEN_DIR, 'Signals.v'), cj['text'])
        except ValueError:
            pass
    cache = {}
    lines = ['(* GENERATED by tools/gen/gen_signals.py from the clang AST of the units of each binary that import a signal-disposition',
             '   function (nm -u on the fresh objects) -- do not edit *)', 'From Coq Require Import NArith.', 'Local Open Scope N_scope.', '',
             'Definition SIGPIPE_number : N := %d.' % SIGPIPE]
    for name, (mainsrc, srcs) in bins.items():
        cands = [s for s in [mainsrc] + srcs if _imports(b, s)]
        funcs = {}
        for s in [mainsrc] + [c for c in cands if c != mainsrc]:
            if s not in cache:
                cache[s] = _tu_functions(b, s)
            for k, v in cache[s].items():
                funcs.setdefault(k, v)
        reach = _reachable(funcs, ['main'] + EXTRA_ROOTS.get(name, []))
        sites = []
        for f in sorted(reach):
            sites += _ignoring_sites(funcs[f], SIGPIPE, SIG_IGN)
        lines.append('(* %s: units importing a disposition function: %s; SIGPIPE ignored at: %s *)' % (
            name, ', '.join(cands) or 'none', ', '.join('%s in %s' % s for s in sites) or 'nowhere'))
        lines.append('Definition %s_ignores_sigpipe : bool := %s.' % (name, 'true' if sites else 'false'))
    lines.append('')
    json.dump(dict(key=key, text='\n'.join(lines)), open(cpath, 'w'))
    return write_if_changed(os.path.join(GEN_DIR, 'Signals.v'), '\n'.join(lines))
