/* Translator helper: the numeric values the AST shows after macro expansion. */
#include <stdio.h>
#include <signal.h>
#include <stdint.h>
int main(void) {
    printf("SIGPIPE %d\n", SIGPIPE);
    printf("SIG_IGN %ld\n", (long)(intptr_t)SIG_IGN);
    printf("SIG_DFL %ld\n", (long)(intptr_t)SIG_DFL);
    return 0;
}
