/* Translator (T): prints the co-process protocol constants of the repo's current cop_protocol.h / isa.h
   (value tags, message types, header geometry, limits).  One "NAME value" per line. */
#include <stdio.h>
#include <stddef.h>
#include "cop_protocol.h"
#include "vm.h"
#define P(n) printf(#n " %llu\n", (unsigned long long)(n))
int main(void) {
    P(TAG_VOID); P(TAG_INT); P(TAG_U8); P(TAG_FLOAT); P(TAG_BOOL); P(TAG_STRING); P(TAG_BSTRING); P(TAG_ARRAY);
    P(TAG_STRUCT); P(TAG_ENUM); P(TAG_UNION); P(TAG_FUNCTION); P(TAG_TUPLE); P(TAG_HASHMAP); P(TAG_OPAQUE); P(TAG_COUNT);
    P(COP_MSG_INIT); P(COP_MSG_FFI_REQ); P(COP_MSG_SHUTDOWN); P(COP_MSG_FFI_RESULT); P(COP_MSG_FFI_ERROR); P(COP_MSG_READY);
    P(COP_HEADER_SIZE); P(COP_PROTO_VERSION); P(COP_MAX_PAYLOAD);
    printf("HDR_SIZEOF %zu\n", sizeof(CopMsgHeader));
    printf("HDR_OFF_VERSION %zu\n", offsetof(CopMsgHeader, version));
    printf("HDR_OFF_TYPE %zu\n", offsetof(CopMsgHeader, msg_type));
    printf("HDR_OFF_RESERVED %zu\n", offsetof(CopMsgHeader, reserved));
    printf("HDR_OFF_LEN %zu\n", offsetof(CopMsgHeader, payload_len));
    printf("SIZEOF_NANOVALUE %zu\n", sizeof(NanoValue));
    printf("VM_ERROR_MSG_SIZE %zu\n", sizeof(((VmState *)0)->error_msg));
    { unsigned x = 1; printf("LITTLE_ENDIAN %d\n", *(unsigned char *)&x == 1); }
    return 0;
}
