/* Translator (T): the payload length the REAL receiver vmd_msg_recv_header (vmd_protocol.c of the current tree, compiled in) accepts,
   per message type byte: for every type 0..255 the largest accepted payload_len (binary search over 0 .. 2^32-1 on headers written
   into a pipe), followed by a check that the accepted set really is the prefix [0, max] on boundary and pseudo-random lengths
   (NONMONO line otherwise), and the set of accepted version bytes.
   Output:  TYPE <t> <max | none>   ...   VERSION <v> ...   NONMONO <t> <len> <accepted> (only on violation) */
#include <stdio.h>
#include <stdint.h>
#include <string.h>
#include <unistd.h>
#include "vmd_protocol.h"

static int accepts(unsigned ver, unsigned type, uint32_t len) {
    int p[2];
    if (pipe(p) != 0) return -1;
    unsigned char h[8] = { (unsigned char)ver, (unsigned char)type, 0, 0,
                           (unsigned char)(len & 0xff), (unsigned char)((len >> 8) & 0xff),
                           (unsigned char)((len >> 16) & 0xff), (unsigned char)((len >> 24) & 0xff) };
    ssize_t w = write(p[1], h, 8); (void)w;
    close(p[1]);
    VmdMsgHeader hd; memset(&hd, 0, sizeof hd);
    int ok = vmd_msg_recv_header(p[0], &hd) ? 1 : 0;
    close(p[0]);
    return ok;
}

int main(void) {
    uint32_t seed = 12345;
    for (unsigned t = 0; t < 256; t++) {
        if (!accepts(VMD_PROTO_VERSION, t, 0)) {
            /* is anything accepted at all? */
            int any = 0;
            uint32_t probes[] = { 1, 4, 8, 255, 65536, 1u << 20, (uint32_t)VMD_MAX_PAYLOAD, 0xffffffffu };
            for (unsigned i = 0; i < sizeof probes / sizeof probes[0]; i++) if (accepts(VMD_PROTO_VERSION, t, probes[i])) { any = 1; printf("NONMONO %u %u 1\n", t, probes[i]); }
            if (!any) printf("TYPE %u none\n", t);
            continue;
        }
        uint64_t lo = 0, hi = 0xffffffffull;            /* invariant: lo accepted */
        while (lo < hi) {
            uint64_t mid = lo + (hi - lo + 1) / 2;
            if (accepts(VMD_PROTO_VERSION, t, (uint32_t)mid)) lo = mid; else hi = mid - 1;
        }
        printf("TYPE %u %llu\n", t, (unsigned long long)lo);
        /* prefix check */
        uint32_t pts[40]; unsigned n = 0;
        uint32_t fixed[] = { 1, 4, 5, 8191, 8192, 8193, 65535, 65536, 65537, 73728, 1u << 18, 1u << 20, 1u << 22, 0x7fffffffu, 0x80000000u, 0xffffffffu };
        for (unsigned i = 0; i < sizeof fixed / sizeof fixed[0]; i++) pts[n++] = fixed[i];
        for (unsigned i = 0; i < 16; i++) { seed = seed * 1664525u + 1013904223u; pts[n++] = (i % 2) ? seed : (uint32_t)(seed % ((uint32_t)lo + 1u ? (uint32_t)lo + 1u : 1u)); }
        if (lo < 0xffffffffull) pts[n++] = (uint32_t)lo + 1u;
        for (unsigned i = 0; i < n; i++) {
            int a = accepts(VMD_PROTO_VERSION, t, pts[i]);
            int want = pts[i] <= lo;
            if (a != want) printf("NONMONO %u %u %d\n", t, pts[i], a);
        }
    }
    for (unsigned v = 0; v < 256; v++)
        if (accepts(v, VMD_MSG_PING, 0)) printf("VERSION %u\n", v);
    return 0;
}
