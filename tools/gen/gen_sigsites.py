"""T: every call that sets the SIGPIPE disposition in the sources linked into nano_vmd  ->  coq/NV/gen/SigpipeSites.v
Rule set (no regular expression over C text):
  1. candidate units = link list of nano_vmd (tools/build_repo.py) whose fresh object imports signal / sigaction / sigignore /
     sigset / bsd_signal / __sysv_signal (nm -u);
  2. in the clang JSON AST of each candidate unit, every CallExpr  signal(SIGPIPE, h) / sigset / bsd_signal,  sigignore(SIGPIPE),
     sigaction(SIGPIPE, &sa, ..) (h = the most recent assignment to .sa_handler in the same function) is a site; its value is
     1 = SIG_IGN, 0 = SIG_DFL, 2 = anything else (a handler function, a non-constant); a call whose signal number is not a
     constant is recorded with value 2 as well (it could be SIGPIPE);
  3. ss_child: the call sits in the then-branch of `if (p == 0)` where p received the result of fork() in the same function
     (it runs in the forked child only, before exec);
  4. ss_session: the enclosing function is reachable from client_thread: its own section .text.<fn> is reachable in the relocation
     graph of tools/gen/gen_sharedstate.py, or (static function inlined by the compiler) one of its callers in the same unit is;
  5. ss_startup: the same from main (vmd_main.c)."""
import os, json, hashlib, subprocess
from genlib import run_dump, write_if_changed, GEN_DIR, REPO
import clang_ast
import gen_sharedstate as G

SIGFUNCS = {'signal', 'sigaction', 'sigignore', 'sigset', 'bsd_signal', '__sysv_signal', 'sysv_signal'}


def _imports(obj):
    r = subprocess.run(['nm', '-u', obj], capture_output=True, text=True, timeout=60, check=True)
    return {l.split()[-1].split('@')[0] for l in r.stdout.splitlines() if l.strip()} & SIGFUNCS


def _tu_functions(b, rel):
    cmd = ['clang'] + clang_ast._flags(b) + ['-w', '-fsyntax-only', '-Xclang', '-ast-dump=json', os.path.join(REPO, rel)]
    r = subprocess.run(cmd, capture_output=True, text=True, timeout=600)
    if r.returncode != 0:
        raise RuntimeError('clang ast dump failed for %s: %s' % (rel, r.stderr[-2000:]))
    out = {}
    for n in json.loads(r.stdout).get('inner', []):
        if n.get('kind') == 'FunctionDecl' and any(c.get('kind') == 'CompoundStmt' for c in n.get('inner', [])):
            out[n['name']] = n
    return out


def _declname(n):
    while n.get('kind') in ('ImplicitCastExpr', 'ParenExpr'):
        n = n['inner'][0]
    return n.get('referencedDecl', {}).get('name') if n.get('kind') == 'DeclRefExpr' else None


def _is_fork(n):
    while n.get('kind') in ('ImplicitCastExpr', 'ParenExpr', 'CStyleCastExpr'):
        n = n['inner'][0]
    return n.get('kind') == 'CallExpr' and clang_ast.callee_name(n) in ('fork', 'vfork')


def _sites(fn, K):
    """[(api, value, child)] in source order"""
    out = []
    forkvars = set()
    state = dict(handler=None)

    def val(n):
        v = clang_ast.const_eval(n)
        return 1 if v == K['SIG_IGN'] else 0 if v == K['SIG_DFL'] else 2

    def visit(n, child):
        k = n.get('kind')
        if k == 'VarDecl' and n.get('inner') and _is_fork(n['inner'][-1]):
            forkvars.add(n.get('name'))
        if k == 'BinaryOperator' and n.get('opcode') == '=':
            lhs, rhs = n['inner'][0], n['inner'][1]
            if _declname(lhs) and _is_fork(rhs):
                forkvars.add(_declname(lhs))
            if any('sa_handler' in m.get('name', '') for m in clang_ast.walk(lhs) if m.get('kind') == 'MemberExpr'):
                state['handler'] = val(rhs)
        if k == 'IfStmt' and n.get('inner'):
            cond = n['inner'][0]
            c = cond
            while c.get('kind') in ('ImplicitCastExpr', 'ParenExpr'):
                c = c['inner'][0]
            is_child = False
            if c.get('kind') == 'BinaryOperator' and c.get('opcode') == '==':
                a, b_ = c['inner']
                if (_declname(a) in forkvars and clang_ast.const_eval(b_) == 0) or (_declname(b_) in forkvars and clang_ast.const_eval(a) == 0):
                    is_child = True
            visit(cond, child)
            for i, x in enumerate(n['inner'][1:]):
                visit(x, child or (is_child and i == 0))
            return
        if k == 'CallExpr':
            cn = clang_ast.callee_name(n)
            args = n['inner'][1:]
            if cn in SIGFUNCS and args:
                sig = clang_ast.const_eval(args[0])
                if sig == K['SIGPIPE'] or sig is None:
                    if cn == 'sigignore':
                        out.append((cn, 1 if sig is not None else 2, child))
                    elif cn == 'sigaction':
                        if len(args) >= 2 and clang_ast.const_eval(args[1]) == 0:
                            pass                                  # sigaction(sig, NULL, &old): query only
                        else:
                            out.append((cn, (state['handler'] if state['handler'] is not None else 2) if sig is not None else 2, child))
                    elif len(args) >= 2:
                        out.append((cn, val(args[1]) if sig is not None else 2, child))
        for x in n.get('inner', []) or []:
            if isinstance(x, dict):
                visit(x, child)
    visit(fn, False)
    return out


def analyse(b):
    K = {k: int(v) for k, v in (l.split() for l in run_dump(b, 'dump_signals.c').splitlines())}
    srcs = G.vmd_sources()
    cands = [s for s in srcs if _imports(os.path.join(b.obj, G.objname(s)))]
    objs = G.section_objects(b, srcs)
    symsec, gdef, edges = G.reloc_graph(objs)
    reach_s = G.reachable(edges, [('nanovm__vmd_server.o', '.text.client_thread')])
    mains = [(ob, sec) for (ob, sec) in edges if ob == 'nanovm__vmd_main.o' and sec in ('.text.main', '.text.startup.main')]
    reach_m = G.reachable(edges, mains)
    rows = []
    for s in cands:
        funcs = _tu_functions(b, s)
        ob = G.objname(s)
        callers = {}
        for f, node in funcs.items():
            for n in clang_ast.walk(node):
                if n.get('kind') == 'CallExpr':
                    c = clang_ast.callee_name(n)
                    if c in funcs:
                        callers.setdefault(c, set()).add(f)

        def reach_fn(f, reach, seen=None):
            seen = seen or set()
            if f in seen:
                return False
            seen.add(f)
            for sec in ('.text.' + f, '.text.startup.' + f, '.text.unlikely.' + f):
                if (ob, sec) in reach:
                    return True
            if any((ob, '.text.' + f + suf) in edges for suf in ('',)):
                return False                          # has its own section and that section is not reachable
            return any(reach_fn(g, reach, seen) for g in callers.get(f, ()))
        for f, node in sorted(funcs.items()):
            for api, v, child in _sites(node, K):
                rows.append(dict(unit=s, fn=f, api=api, value=v, child=child, session=reach_fn(f, reach_s), startup=reach_fn(f, reach_m)))
    return K, cands, rows


def generate(b):
    # unchanged objects + unchanged translators => same answer
    hh = hashlib.sha256(open(__file__, 'rb').read() + open(G.__file__, 'rb').read())
    for s in G.vmd_sources():
        kf = os.path.join(b.obj, G.objname(s)) + '.key'
        hh.update(s.encode()); hh.update(open(kf).read().encode() if os.path.exists(kf) else os.urandom(8))
    key = hh.hexdigest()
    cpath = os.path.join(b.root, 'gen', 'sigsites.cache.json')
    if os.path.exists(cpath):
        try:
            cj = json.load(open(cpath))
            if cj.get('key') == key:
                return write_if_changed(os.path.join(GEN_DIR, 'SigpipeSites.v'), cj['text'])
        except ValueError:
            pass
    K, cands, rows = analyse(b)
    bl = lambda x: 'true' if x else 'false'
    v = ['(* GENERATED by tools/gen/gen_sigsites.py: every call that sets the SIGPIPE disposition in the units linked into nano_vmd',
         '   (clang AST; units importing a disposition function: %s).' % (', '.join(cands) or 'none'),
         '   ss_value: 1 = SIG_IGN, 0 = SIG_DFL, 2 = other; ss_child: runs only in a forked child; ss_session / ss_startup: the enclosing',
         '   function is reachable from client_thread / from main (relocation graph) -- do not edit *)',
         'From Coq Require Import NArith List String.', 'Import ListNotations.', 'Local Open Scope string_scope.', '',
         'Record sigsite := { ss_unit : string; ss_fn : string; ss_api : string; ss_value : N; ss_child : bool; ss_session : bool; ss_startup : bool }.',
         'Definition SIGPIPE_number : N := %d%%N.' % K['SIGPIPE'],
         'Definition sigpipe_sites : list sigsite := [']
    v.append(';\n'.join('  {| ss_unit := "%s"; ss_fn := "%s"; ss_api := "%s"; ss_value := %d%%N; ss_child := %s; ss_session := %s; ss_startup := %s |}' % (
        r['unit'], r['fn'], r['api'], r['value'], bl(r['child']), bl(r['session']), bl(r['startup'])) for r in rows))
    v.append('].')
    v.append('')
    text = '\n'.join(v)
    json.dump(dict(key=key, text=text), open(cpath, 'w'))
    return write_if_changed(os.path.join(GEN_DIR, 'SigpipeSites.v'), text)
