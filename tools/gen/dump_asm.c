/* Translator (T): prints the constants the assembler/disassembler model depends on, read from the repo's current
   sources.  The two .c files are #included so that their file-local #defines (MAX_DISASM_LABELS, MAX_LABELS,
   MAX_PATCHES) and sizeof of their file-local structs are visible to the compiler that prints them. */
#include "assembler.c"
#include "disassembler.c"
int main(void) {
    printf("max_disasm_labels %d\n", MAX_DISASM_LABELS);
    printf("max_labels %d\n", MAX_LABELS);
    printf("max_patches %d\n", MAX_PATCHES);
    printf("label_name_size %d\n", (int)sizeof(((Label *)0)->name));
    printf("patch_label_size %d\n", (int)sizeof(((Patch *)0)->label));
    printf("disasm_label_name_size %d\n", (int)sizeof(((DisasmLabel *)0)->name));
    printf("op_push_str %d\n", OP_PUSH_STR);
    printf("op_call %d\n", OP_CALL);
    printf("op_call_extern %d\n", OP_CALL_EXTERN);
    printf("flag_has_main %d\n", NVM_FLAG_HAS_MAIN);
    printf("flag_needs_extern %d\n", NVM_FLAG_NEEDS_EXTERN);
    printf("flag_debug_info %d\n", NVM_FLAG_DEBUG_INFO);
    printf("asm_ok %d\n", ASM_OK);
    printf("asm_err_syntax %d\n", ASM_ERR_SYNTAX);
    printf("asm_err_unknown_opcode %d\n", ASM_ERR_UNKNOWN_OPCODE);
    printf("asm_err_bad_operand %d\n", ASM_ERR_BAD_OPERAND);
    printf("asm_err_undefined_label %d\n", ASM_ERR_UNDEFINED_LABEL);
    printf("asm_err_duplicate_label %d\n", ASM_ERR_DUPLICATE_LABEL);
    printf("asm_err_no_function %d\n", ASM_ERR_NO_FUNCTION);
    printf("asm_err_memory %d\n", ASM_ERR_MEMORY);
    return 0;
}
