"""T: process-wide writable state of nano_vmd  ->  coq/NV/gen/SharedState.v
   inventory : `nm` over every object linked into nano_vmd (/verif/build/plain/obj, link list of tools/build_repo.py):
               every symbol of type b/B/d/D/C/s/S/g/G (writable data, initialised or not) with its size.
   reachability (two independent computations over the same sources recompiled with -ffunction-sections -fdata-sections):
     s_linked  : the symbol's section survives `ld --gc-sections` of the daemon (roots: the daemon's entry point) -- the linker's own
                 answer, read from --print-gc-sections;
     s_session : the symbol's section is reachable from .text.client_thread in the relocation graph (objdump -r / -t):
                 everything a client session can name, directly or through tables of function pointers.
   Consistency rule enforced here: s_session implies s_linked.
   Names of function-local statics carry a compiler-chosen numeric suffix (buf.3): it is stripped, duplicates are kept apart by a count."""
import os, re, subprocess, hashlib, sys
from concurrent.futures import ThreadPoolExecutor
from genlib import write_if_changed, GEN_DIR, REPO, VERIF
sys.path.insert(0, os.path.join(VERIF, 'tools'))
import build_repo

WRITABLE = set('bBdDCsSgG')


def vmd_sources():
    common, runtime = build_repo._make_vars()
    return (['src/nanovm/' + f for f in build_repo.NANOVM] + ['src/nanoisa/' + f for f in build_repo.NANOISA] + common + runtime +
            ['src/nanovm/' + f for f in build_repo.VMD] + ['src/nanovm/vmd_main.c'])


def objname(s):
    return s[len('src/'):].replace('/', '__')[:-2] + '.o'


def inventory(b, srcs):
    inv = []
    for s in srcs:
        o = os.path.join(b.obj, objname(s))
        out = subprocess.run(['nm', '-S', o], capture_output=True, text=True, timeout=60, check=True).stdout
        for l in out.splitlines():
            f = l.split()
            if len(f) == 4 and f[2] in WRITABLE:
                inv.append(dict(obj=objname(s), raw=f[3], name=re.sub(r'\.\d+$', '', f[3]), kind=f[2], size=int(f[1], 16)))
            elif len(f) == 3 and f[1] in WRITABLE:
                inv.append(dict(obj=objname(s), raw=f[2], name=re.sub(r'\.\d+$', '', f[2]), kind=f[1], size=0))
    return inv


def section_objects(b, srcs):
    od = os.path.join(b.root, 'gen', 'secobj')
    os.makedirs(od, exist_ok=True)
    hh = build_repo._headers_hash()
    flags = b.cflags + ['-ffunction-sections', '-fdata-sections']

    def one(s):
        o = os.path.join(od, objname(s))
        sp = os.path.join(REPO, s)
        key = hashlib.sha256(open(sp, 'rb').read() + hh.encode() + ' '.join(flags).encode()).hexdigest()
        kf = o + '.key'
        if os.path.exists(o) and os.path.exists(kf) and open(kf).read() == key:
            return o, None
        r = subprocess.run(['cc'] + flags + ['-c', sp, '-o', o], capture_output=True, text=True, timeout=600)
        if r.returncode != 0:
            return o, r.stderr[-2000:]
        open(kf, 'w').write(key)
        return o, None
    with ThreadPoolExecutor(16) as ex:
        res = list(ex.map(one, srcs))
    errs = [e for _, e in res if e]
    if errs:
        raise RuntimeError('gen_sharedstate: compile failed:\n' + errs[0])
    return [o for o, _ in res]


def linker_gc(b, objs):
    out = os.path.join(b.root, 'gen', 'secobj', 'nano_vmd_gc')
    r = subprocess.run(['cc', '-o', out] + objs + ['-lm', '-lpthread', '-ldl', '-Wl,--gc-sections', '-Wl,--print-gc-sections'],
                       capture_output=True, text=True, timeout=300)
    if r.returncode != 0:
        raise RuntimeError('gen_sharedstate: gc link failed: ' + r.stderr[-2000:])
    return set((os.path.basename(f), s) for s, f in re.findall(r"removing unused section '([^']+)' in file '([^']+)'", r.stderr))


def reloc_graph(objs):
    """-> (symsec: (obj, symbol) -> section for local+global definitions, gdef: global symbol -> (obj, section), edges: (obj, sec) -> set of (obj, sec))."""
    symsec, gdef, refs = {}, {}, {}
    for o in objs:
        ob = os.path.basename(o)
        t = subprocess.run(['objdump', '-t', o], capture_output=True, text=True, timeout=120, check=True).stdout
        for l in t.splitlines():
            m = re.match(r'^[0-9a-f]{16} (.{7}) (\S+)\s+[0-9a-f]{16} (?:\.hidden )?(\S+)$', l)
            if not m:
                continue
            fl, sec, name = m.group(1), m.group(2), m.group(3)
            if sec in ('*UND*', '*ABS*'):
                continue
            if sec == '*COM*':
                sec = '.bss.' + name
            symsec[(ob, name)] = sec
            if fl[0] in 'gu' or fl[1] == 'w' or fl[0] == ' ' and 'g' in fl:
                gdef.setdefault(name, (ob, sec))
        r = subprocess.run(['objdump', '-r', o], capture_output=True, text=True, timeout=120, check=True).stdout
        cur = None
        for l in r.splitlines():
            m = re.match(r'^RELOCATION RECORDS FOR \[(.+)\]:', l)
            if m:
                cur = (ob, m.group(1)); refs.setdefault(cur, set()); continue
            m = re.match(r'^[0-9a-f]{16} R_\S+\s+(\S+?)(?:[+-]0x[0-9a-f]+)?$', l)
            if m and cur:
                refs[cur].add(m.group(1))
    edges = {}
    for (ob, sec), names in refs.items():
        tg = set()
        for n in names:
            if (ob, n) in symsec:
                tg.add((ob, symsec[(ob, n)]))
            elif n in gdef:
                tg.add(gdef[n])
        edges[(ob, sec)] = tg
    return symsec, gdef, edges


def reachable(edges, roots):
    seen = set(roots); todo = list(roots)
    while todo:
        x = todo.pop()
        for y in edges.get(x, ()):
            if y not in seen:
                seen.add(y); todo.append(y)
    return seen


def analyse(b):
    srcs = vmd_sources()
    inv = inventory(b, srcs)
    objs = section_objects(b, srcs)
    gc = linker_gc(b, objs)
    symsec, gdef, edges = reloc_graph(objs)
    root = ('nanovm__vmd_server.o', '.text.client_thread')
    if root not in edges:
        raise RuntimeError('gen_sharedstate: no section .text.client_thread in vmd_server.o')
    reach = reachable(edges, [root])
    for s in inv:
        sec = symsec.get((s['obj'], s['raw']))
        if sec is None:
            raise RuntimeError('gen_sharedstate: %s:%s has no section in the -fdata-sections object' % (s['obj'], s['raw']))
        s['section'] = sec
        s['relro'] = sec.startswith('.data.rel.ro')
        s['linked'] = (s['obj'], sec) not in gc
        s['session'] = (s['obj'], sec) in reach
        if s['session'] and not s['linked']:
            raise RuntimeError('gen_sharedstate: %s:%s reachable from client_thread but removed by the linker' % (s['obj'], s['raw']))
    return inv


def generate(b):
    inv = analyse(b)
    inv.sort(key=lambda s: (s['obj'], s['name'], s['size'], s['raw']))
    v = ['(* GENERATED by tools/gen/gen_sharedstate.py: writable symbols of every object linked into nano_vmd (nm), with',
         '   s_linked = survives ld --gc-sections of the daemon, s_session = reachable from client_thread in the relocation graph -- do not edit *)',
         'From Coq Require Import NArith List String.', 'Import ListNotations.', 'Local Open Scope string_scope.', '',
         'Record sym := { s_obj : string; s_name : string; s_kind : string; s_size : N; s_relro : bool; s_linked : bool; s_session : bool }.',
         'Definition symbols : list sym := [']
    bl = lambda x: 'true' if x else 'false'
    v.append(';\n'.join('  {| s_obj := "%s"; s_name := "%s"; s_kind := "%s"; s_size := %d%%N; s_relro := %s; s_linked := %s; s_session := %s |}' % (
        s['obj'], s['name'], s['kind'], s['size'], bl(s['relro']), bl(s['linked']), bl(s['session'])) for s in inv))
    v.append('].')
    v.append('Definition symbol_count : N := %d%%N.' % len(inv))
    v.append('')
    return write_if_changed(os.path.join(GEN_DIR, 'SharedState.v'), '\n'.join(v))
