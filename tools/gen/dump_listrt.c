/* dump_listrt: measures INITIAL_CAPACITY and GROWTH_FACTOR of the runtime list template by calling the current
   src/runtime/list_int.c (capacities after new, after the push that overflows it, after the next overflow; with_capacity(0) and
   with_capacity(3) followed by pushes).  Consumed by gen_listrt.py. */
#include <stdio.h>
#include "runtime/list_int.h"
int main(void) {
    List_int *l = list_int_new();
    int c0 = list_int_capacity(l);
    for (int i = 0; i <= c0; i++) list_int_push(l, i);
    int c1 = list_int_capacity(l);
    for (int i = c0 + 1; i <= c1; i++) list_int_push(l, i);
    int c2 = list_int_capacity(l);
    printf("GROW %d %d %d\n", c0, c1, c2);
    List_int *z = list_int_with_capacity(0);
    int z0 = list_int_capacity(z); list_int_push(z, 1);
    printf("ZERO %d %d\n", z0, list_int_capacity(z));
    List_int *t = list_int_with_capacity(3);
    for (int i = 0; i < 4; i++) list_int_push(t, i);
    printf("THREE %d\n", list_int_capacity(t));
    /* one insert far beyond the capacity in a single step: 3 -> 6 -> 12 (loop) */
    List_int *w = list_int_with_capacity(1);
    for (int i = 0; i < 5; i++) list_int_insert(w, 0, i);
    printf("ONE %d\n", list_int_capacity(w));
    return 0;
}
