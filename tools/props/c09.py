"""C09 -- the front end is total: every input ends in acceptance or a diagnostic.
Proof: NV/Props/Properties_C09.v (generic loop theorem; loop summaries + call graph regenerated from parser.c's clang AST;
parser-model hang witnesses; tokenizer model).
Correspondence / robustness: probes/front_probe.c built with ASan+UBSan (real tokenize, parse_program, type_check, every input in
a forked child under a wall-clock limit) on mutants, truncations and nesting ladders; tokenizer model vs real tokenize token for
token; nano_virt (ASan) --emit-nvm on a sample (adds import processing).
Two further streams (tools/props/c09_streams.py): "numeric positions" (boundary numerals in every position where the front end converts
a numeral; ASan probe + plain probe + plain nano_virt) and "module graphs" (multi-file programs through the real nano_virt / nanoc, plain
and ASan, bounded stack; generated import graphs also through the import-loader model NV.Front.ImportGraph)."""
import os, json, glob, hashlib, tempfile, shutil, re, time
import vlib, frontlib as fl
import c09_streams as cs

SEED_DIRS = ['tests', 'examples/language', 'tests/user_guide']


# ------------------------------------------------------------------ inputs
def ladders(n):
    return {
        'unary-minus': 'fn main() -> int { return ' + '- ' * n + '1 }',
        'unary-not': 'fn main() -> int { let b: bool = ' + 'not ' * n + 'true\n return 0 }',
        'else-if': 'fn main() -> int { let c: bool = true\n ' + 'if c { } else ' * n + '{ }\n return 0 }',
        'unsafe-nest': 'fn main() -> int { ' + 'unsafe { ' * n + '}' * n + ' return 0 }',
        'array-type': 'fn main() -> int { let x: ' + 'array<' * n + 'int' + '>' * n + ' = 0\n return 0 }',
        'fn-type': 'fn main() -> int { let x: ' + 'fn(' * n + 'int' + ') -> int' * n + ' = 0\n return 0 }',
        'tuple-type': 'fn main() -> int { let x: ' + '(' * n + 'int' + ', int)' * n + ' = 0\n return 0 }',
        'parens': 'fn main() -> int { return ' + '(' * n + '1' + ')' * n + ' }',
        'prefix-op': 'fn main() -> int { return ' + '(+ 1 ' * n + '1' + ')' * n + ' }',
        'blocks': 'fn main() -> int { ' + '{ ' * n + '}' * n + ' return 0 }',
        'if-nest': 'fn main() -> int { let c: bool = true\n ' + 'if c { ' * n + '}' * n + ' return 0 }',
        'call-nest': 'fn f(a: int) -> int { return a }\nfn main() -> int { return ' + '(f ' * n + '1' + ')' * n + ' }',
        'field-chain': 'fn main() -> int { return p' + '.x' * n + ' }',
        'infix-chain': 'fn main() -> int { return 1' + ' + 1' * n + ' }',
        'tuple-nest': 'fn main() -> int { let t: int = ' + '(1, ' * n + '1' + ')' * n + '\n return 0 }',
        'array-lit': 'fn main() -> int { let t: int = ' + '[' * n + '1' + ']' * n + '\n return 0 }',
        'struct-lit': 'fn main() -> int { let t: int = ' + 'P { x: ' * n + '1' + ' }' * n + '\n return 0 }',
        'cond-nest': 'fn main() -> int { let a: int = 1\n return ' + '(cond ((> a 0) ' * n + '1' + ') (else 0))' * n + ' }',
        'match-nest': 'fn main() -> int { ' + 'match x { A(v) => ' * n + '1' + ' }' * n + ' return 0 }',
        'while-nest': 'fn main() -> int { ' + 'while true { ' * n + '}' * n + ' return 0 }',
    }


# which ladder exercises the recursion through a given function (used to build the input for an unguarded cycle)
CYCLE_LADDER = {'parse_primary': 'unary-minus', 'parse_if_expression': 'else-if', 'parse_statement': 'unsafe-nest',
                'parse_type_with_element': 'array-type', 'parse_function_signature': 'fn-type'}
# how to reach a loop of a given function, with a slot for the token its sub-parser must reject without consuming
LOOP_TEMPLATE = {('parse_prefix_op', 1): 'fn main() -> int {{ return (+ 1 {tok}) }}'}
REJECT_TOKENS = ['else', ']', '}', ':', 'in', '=>', ',']


def seeds(ck):
    out = []
    for d in SEED_DIRS:
        for p in sorted(glob.glob(os.path.join(vlib.REPO, d, '*.nano'))):
            try:
                b = open(p, 'rb').read()
            except OSError:
                continue
            if 40 < len(b) < 3000 and b'import' not in b and b'module' not in b:
                out.append((os.path.relpath(p, vlib.REPO), b))
    ck.rng.shuffle(out)
    return out


TOKVOC = [b'(', b')', b'{', b'}', b'[', b']', b',', b':', b'::', b'->', b'=', b'.', b'+', b'-', b'*', b'/', b'%', b'==', b'!=', b'<', b'<=',
          b'>', b'>=', b'and', b'or', b'not', b'true', b'false', b'fn', b'let', b'mut', b'set', b'if', b'else', b'cond', b'while', b'for', b'in',
          b'return', b'break', b'continue', b'assert', b'shadow', b'struct', b'enum', b'union', b'match', b'unsafe', b'int', b'bool', b'string',
          b'array', b'x', b'f', b'Pt', b'main', b'0', b'1', b'-7', b'3.5', b'"s"', b"'c'", b'=>', b'pub', b'extern', b'opaque', b'resource']


def token_spans(probe_tokens, src):
    """byte offsets of token starts from the real lexer's line/column (for token-level edits and truncation)"""
    starts = [0]
    for i, c in enumerate(src):
        if c == 10:
            starts.append(i + 1)
    offs = []
    for t in probe_tokens:
        a = t.split(':')
        ln, col = int(a[1]), int(a[2])
        if 1 <= ln <= len(starts):
            offs.append(starts[ln - 1] + col - 1)
    return sorted(set(o for o in offs if 0 <= o <= len(src)))


def mutants(ck, probe, pool, n_tok, n_byte, n_trunc_files):
    rng = ck.rng
    out = []
    base = pool[:60] if not ck.thorough else pool[:200]
    lexed = fl.run_probe(probe, [('lex', 3000, b) for _, b in base], jobs=8)
    spans = []
    for (name, b), a in zip(base, lexed):
        v = fl.split_answer(a)[0]
        f = v.split()
        spans.append(token_spans(f[2:], b) if f and f[0] == 'ok' else [])
    usable = [i for i, s in enumerate(spans) if len(s) > 4]
    for _ in range(n_tok):
        i = rng.choice(usable)
        name, b = base[i]
        sp = spans[i] + [len(b)]
        b2 = b
        for _ in range(1 + rng.randrange(3)):
            k = rng.randrange(len(sp) - 1)
            lo, hi = sp[k], sp[k + 1]
            r = rng.random()
            if r < 0.35:
                b2 = b2[:lo] + b2[hi:] if lo < len(b2) else b2                      # delete a token
            elif r < 0.7:
                b2 = b2[:lo] + rng.choice(TOKVOC) + b' ' + b2[lo:]                  # insert a token
            elif r < 0.9:
                b2 = b2[:lo] + rng.choice(TOKVOC) + b' ' + b2[hi:]                  # replace a token
            else:
                k2 = rng.randrange(len(sp) - 1)
                b2 = b2[:lo] + b[sp[k2]:sp[k2 + 1]] + b2[lo:]                       # duplicate another token here
        out.append(('tokmut:' + name, b2))
    for _ in range(n_byte):
        i = rng.randrange(len(base))
        name, b = base[i]
        bb = bytearray(b)
        for _ in range(1 + rng.randrange(4)):
            if not bb:
                break
            k = rng.randrange(len(bb))
            r = rng.random()
            if r < 0.3:
                del bb[k]
            elif r < 0.6:
                bb[k] = rng.choice([0x22, 0x27, 0x5c, 0x2f, 0x2a, 0x23, 0x28, 0x29, 0x7b, 0x7d, 0x2d, 0x2e, 0x3c, 0x3e, 0x80, 0xff, 0x0a, 0x20, 0x39, 0x41])
            elif r < 0.8:
                bb.insert(k, rng.randrange(1, 256))
            else:
                bb[k] = rng.randrange(1, 256)
        out.append(('bytemut:' + name, bytes(bb)))
    for i in usable[:n_trunc_files]:
        name, b = base[i]
        for o in spans[i]:
            out.append(('trunc:' + name, b[:o]))
    return out


# ------------------------------------------------------------------ verdicts
def load_side():
    return json.load(open(os.path.join(vlib.BUILD, 'gen', 'parserloops.json')))


def loop_is_flagged(l):
    p = l.get('paths', {})
    return l['kind'] == 'cursor' and (p.get('PStuck') or p.get('PUnknown') or (p.get('PAdvMaybe') and not l['guard_excl_eof']))


def cycle_functions(side):
    g = side['unguarded_calls']

    def reach(x):
        seen, st = set(), [x]
        while st:
            y = st.pop()
            for z in g.get(y, ()):
                if z not in seen:
                    seen.add(z); st.append(z)
        return seen
    return [f for f in g if f in reach(f)]


def attribute(side, probe, verdict, err):
    """-> finding key for a hang / crash, from the stack: the innermost flagged loop (hang) or unguarded recursive function (overflow)"""
    frames = fl.resolve_stack(probe, verdict, err)
    pf = [(fn, ln) for fn, file, ln in frames if file == 'parser.c']
    overflow = 'stack-overflow' in err or (verdict.startswith('crash sig=11') and 'runtime error:' not in err and 'ERROR: AddressSanitizer' not in err)
    if not overflow:
        # a sanitizer report (also when the wall-clock limit fired while the report was being printed):
        # key = kind of report + first frame inside the repository's sources
        m = re.search(r'ERROR: AddressSanitizer: ([A-Za-z-]+)', err)
        kind = m.group(1) if m else ('ubsan' if 'runtime error:' in err else None)
        if kind:
            tail = err[err.find('runtime error:'):] if kind == 'ubsan' else err[m.start():]
            fm = re.search(r'#\d+ 0x[0-9a-f]+ in (\w+) /repo/src/', tail) or re.search(r'#\d+ 0x[0-9a-f]+ in (\w+) \S*/src/', tail)
            if fm:
                return 'c09:san:%s:%s' % (kind, fm.group(1)), frames
            if kind == 'ubsan':
                fm = re.search(r'/src/(\w+)\.c:(\d+):\d+: runtime error', err)
                for fn, file, ln in frames:
                    if fm and file == fm.group(1) + '.c' and ln == int(fm.group(2)):
                        return 'c09:san:ubsan:%s' % fn, frames
    if verdict.startswith('hang'):
        for fn, ln in pf:
            for l in side['loops']:
                if l['fn'] == fn and l['kind'] == 'cursor' and l.get('line') and l.get('end_line') and l['line'] <= ln <= l['end_line'] and loop_is_flagged(l):
                    return 'c09:loop:%s#%d' % (fn, l['ord']), frames
        return None, frames
    if overflow:
        cyc = cycle_functions(side)
        cnt = {}
        for fn, ln in pf[:40]:
            if fn in cyc:
                cnt[fn] = cnt.get(fn, 0) + 1
        if cnt:
            fn = max(cnt, key=lambda f: cnt[f])
            return 'c09:cycle:' + fn, frames
    return None, frames


def key_alias(ck, key):
    """a cycle through several functions is one finding: map c09:cycle:<fn> to the entry that lists fn in cycle_fns"""
    if key and key.startswith('c09:cycle:'):
        fn = key[len('c09:cycle:'):]
        for e in ck.known:
            if fn in (e.get('cycle_fns') or []):
                return e['key']
    return key


def judge(ck, side, probes, tag, src, ans, stats, recheck):
    """one `front` answer -> ok / failure bookkeeping.  probes = dict(asan=..., plain=...)"""
    v, diag, err = fl.split_answer(ans)
    kind = v.split(' ')[0] if not v.startswith('crash') else 'crash'
    stats[kind if kind in ('accept', 'hang', 'crash') else v] = stats.get(kind if kind in ('accept', 'hang', 'crash') else v, 0) + 1
    if v == 'accept':
        return
    if v.startswith('reject:'):
        if not diag:
            ck.fail('c09:silent-reject:' + hashlib.sha256(src).hexdigest()[:12], 'input refused (%s) without any diagnostic on stderr' % v,
                    dict(source_hex=src.hex(), engine='front_probe(asan) front', observed=v, origin=tag))
        return
    if v == 'probe-died':
        ck.fail('c09:probe-died:' + hashlib.sha256(src).hexdigest()[:12], 'front_probe itself died on this input', dict(source_hex=src.hex(), origin=tag))
        return
    recheck.append((tag, src, v, err))


def run(ck):
    ck.build('plain'); ck.build('asan')
    ck.gen(['gen_tokens', 'gen_parserconsts', 'gen_parserloops'])
    ck.prove()
    ref = ck.nvref('c09')
    probes = dict(asan=ck.probe('front_probe.c', 'asan'), plain=ck.probe('front_probe.c', 'plain'))
    side = load_side()
    stats, lstats, recheck = {}, {}, []
    pool = seeds(ck)
    # ---- corpus first
    cases = []
    cdir = os.path.join(vlib.VERIF, 'corpus', 'C09')
    for p in sorted(glob.glob(os.path.join(cdir, '*.nano'))):
        cases.append(('corpus:' + os.path.basename(p), open(p, 'rb').read()))
    # ---- valid programs, mutants, truncations
    nt, nb, ntf = (6000, 6000, 12) if ck.thorough else (1300, 1300, 3)
    cases += [('seed:' + n, b) for n, b in pool[:(200 if ck.thorough else 60)]]
    cases += mutants(ck, probes['plain'], pool, nt, nb, ntf)
    # ---- numeric positions: boundary numerals wherever the front end converts a numeral / uses it as an index
    ncases = cs.numeric_cases(ck)
    cases += ncases
    freqs = [('front', 3000 if t.startswith('numeric') else 800, b) for t, b in cases]
    ans = fl.run_probe(probes['asan'], freqs, jobs=14)
    # a limit that fired before the parser was even entered (no frame of the repository on the stack) is the machine, not the code
    ans, retried = fl.confirm_hangs(probes['asan'], freqs, ans,
                                    lambda r, a: not any(f[1].endswith('.c') and f[1] not in ('front_probe.c',) for f in fl.resolve_stack(probes['asan'], fl.split_answer(a)[0])),
                                    factor=8)
    ck.extra['hang_answers_without_repo_frame_retried_ok'] = retried
    dist = {}
    for (tag, b), a in zip(cases, ans):
        dist[tag.split(':')[0]] = dist.get(tag.split(':')[0], 0) + 1
        ck.count(('front', b), nontrivial=not tag.startswith('seed'))
        judge(ck, side, probes, tag, b, a, stats, recheck)
    numeric_verdicts = {t: fl.split_answer(a)[0].split(' ')[0] for (t, b), a in zip(cases, ans) if t.startswith('numeric')}
    # ---- nesting ladders
    depths = [10, 100, 999, 1001, 10000, 100000] if ck.thorough else [10, 999, 1001, 100000]
    lcases = []
    for d in depths:
        for name, s in ladders(d).items():
            lcases.append(('ladder:%s:%d' % (name, d), s.encode()))
    lcases.append(('ladder:else-if:166000', ladders(166000)['else-if'].encode()))
    lans = fl.run_probe(probes['asan'], [('front', 8000 if ck.thorough else 5000, b) for _, b in lcases], jobs=14, timeout=1200)
    for (tag, b), a in zip(lcases, lans):
        ck.count(('ladder', tag), nontrivial=True)
        st = {}
        judge(ck, side, probes, tag, b, a, st, recheck)
        lstats[tag[len('ladder:'):]] = list(st.keys())[0] if st else '?'
        for k, n in st.items():
            stats[k] = stats.get(k, 0) + n
    # ---- hangs / crashes: attribute each to a flagged loop / unguarded cycle, or report it
    unattributed = 0
    for tag, src, v, err in recheck:
        key, frames = attribute(side, probes['asan'], v, err)
        if key is None and ('stack-overflow' in err):
            # stack overflow outside the parser under ASan: does the uninstrumented build overflow too?  (ASan inflates frames)
            pa = fl.run_probe(probes['plain'], [('front', 20000, src)], jobs=1)
            pv, pd, pe = fl.split_answer(pa[0])
            if not pv.startswith('crash') and not pv.startswith('hang'):
                ck.note('stack overflow only in the ASan build (frames inflated by redzones), plain build answers "%s": %s, top frames %s'
                        % (pv, tag, [f[0] for f in frames[:3]]))
                stats['asan-only-stack-overflow'] = stats.get('asan-only-stack-overflow', 0) + 1
                continue
        key = key_alias(ck, key)
        top = ['%s:%s' % (f[0], f[2]) for f in frames[:6]]
        if key:
            ck.fail(key, '%s on %s; stack: %s' % (v.split(' ')[0], tag, ' <- '.join(top)),
                    dict(source_hex=src.hex() if len(src) < 20000 else None, origin=tag, observed=v[:200], stack=top, engine='front_probe(asan) front',
                         sanitizer=err[:600]))
        else:
            unattributed += 1
            ck.fail('c09:%s:%s' % (v.split(' ')[0], hashlib.sha256(src).hexdigest()[:12]),
                    'front end %s on %s (not inside a listed loop / recursion): %s' % (v.split(' ')[0], tag, ' <- '.join(top) or err[:200]),
                    dict(source_hex=src.hex() if len(src) < 200000 else None, origin=tag, observed=v[:300], stack=top, engine='front_probe(asan) front',
                         sanitizer=err[:1500]))
    # ---- inputs built from the summaries: every flagged loop / unguarded cycle of the CURRENT source gets its concrete input
    built = build_from_summaries(ck, side, probes)
    # ---- tokenizer model vs real tokenize
    lex_compare(ck, ref, probes['asan'], pool, cases)
    # ---- the parser-model theorems of part (3) are about the code only while the model still answers like the parser
    model_witnesses(ck, ref, probes['plain'])
    # ---- the real command line tool on a sample (adds import processing and code generation)
    nano_virt_sample(ck, cases, lcases)
    # ---- numeric positions again: the uninstrumented build (probe and real tool)
    t0 = time.time()
    numeric_plain(ck, side, probes, ncases, numeric_verdicts)
    t1 = time.time()
    # ---- module graphs through the real tools + the import-loader model
    cs.run_module_graphs(ck, ref)
    ck.extra['stream_seconds'] = dict(numeric_positions_plain=round(t1 - t0, 1), module_graphs=round(time.time() - t1, 1))
    # ---- replay of the open known findings
    for e in ck.known:
        if e.get('latent'):
            ck.note('latent finding %s: flagged by the loop summary, no input reaches it (not replayed)' % e['key'])
            continue
        if replay_entry(ck, probes, e):
            ck.fail(e['key'], e.get('what', ''), dict(input=e.get('input'), engine='front_probe(plain/asan) front'))
    # a latent finding is "seen" when the current summary still flags its loop
    for e in ck.known:
        if e.get('latent') and e.get('loop'):
            for l in side['loops']:
                if [l['fn'], l['ord']] == list(e['loop']) and loop_is_flagged(l):
                    ck.fail(e['key'], e.get('what', ''), dict(flagged_by='loop summary', loop=e['loop'], paths=l.get('paths')))
    ck.cov['rule'] = ('front end (real tokenize + parse_program + type_check, ASan+UBSan, forked per input, wall-clock limit) on: seed programs from '
                      '/repo/tests and /repo/examples/language, token-level mutants (delete/insert/replace/duplicate 1-3 tokens), byte-level mutants, '
                      'truncation at every token boundary, 20 nesting ladders x depths, numeric positions (templates x boundary numerals, also plain probe '
                      'and plain nano_virt); every answer must be accept or reject-with-diagnostic; module graphs (named scenarios + random import graphs) '
                      'through nano_virt --emit-nvm and nanoc, plain and ASan, 8 MB stack: exit 0, or a diagnostic with a non-zero non-crash status; '
                      'non-trivial = not an unmodified seed; distinct = distinct input bytes')
    ck.extra['exhaustive'] = False
    ck.extra['front_outcomes'] = stats
    ck.extra['ladder_outcomes'] = lstats
    ck.extra['input_distribution'] = dist
    ck.extra['unattributed_failures'] = unattributed
    ck.extra['summary_inputs'] = built
    ck.extra['loop_summary'] = dict(loops=len(side['loops']), cursor_loops=sum(l['kind'] == 'cursor' for l in side['loops']),
                                    flagged=[[l['fn'], l['ord'], l['line']] for l in side['loops'] if loop_is_flagged(l)],
                                    depth_guarded=side['guarded'], unguarded_cycle_functions=cycle_functions(side))
    ck.sample(dict(input=cases[len(cases) // 2][1][:200].decode('latin1'), origin=cases[len(cases) // 2][0], answer=fl.split_answer(ans[len(cases) // 2])[0]))
    ck.sample(dict(origin=lcases[0][0], answer=fl.split_answer(lans[0])[0]))
    ck.trusted += ['translator tools/gen/gen_parserloops.py (clang JSON AST of parser.c; rule set in its header; self-test tools/gen/test_parserloops.c on every regeneration)',
                   'translators gen_tokens.py / gen_parserconsts.py', 'extraction ExtrOcamlBasic only; extract/nvio.ml + c09_driver.ml',
                   'probes/front_probe.c (fork per input, SIGALRM / alternate-stack fatal-signal handlers print the stack as module offsets; addr2line resolves them)',
                   'attribution of a hang / stack overflow to a loop / recursive function by the innermost matching stack frame',
                   'the C07 correspondence for NV.Front.ExprParser (theorems C09_prefix_arg_loop_hangs, C09_depth_limit_reported_refuted)',
                   'tools/props/c09_streams.py: classification of a tool run by exit status / signal / sanitizer text; prlimit for the stack bound; '
                   'NANO_CC=true replaces the C compiler behind nanoc']
    ck.assumptions += ['the parser as a whole is not modelled: loops and recursion structure (generated summaries) + the expression fragment',
                       'type checker: exercised by the robustness runs only; import processing: model of the loader + cache over abstract graphs '
                       '(path resolution, the bodies of modules and the "failed import is ignored" defect of the pinned tree are not modelled: graphs '
                       'generated for the comparison have a missing file only when they are acyclic)',
                       'stack overflow that occurs only under ASan frame inflation is recorded as a note, not as a violation',
                       'advance() moves the cursor by one unless it is on the last token; exactly one EOF token, at the end (C09_tokenize_shape)']


def numeric_plain(ck, side, probes, ncases, asan_verdicts):
    reqs = [('front', 3000, b) for _, b in ncases]
    ans = fl.run_probe(probes['plain'], reqs, jobs=8)
    ans, _ = fl.confirm_hangs(probes['plain'], reqs, ans, lambda r, a: True, factor=6)
    st, rc, pv, noisy = {}, [], {}, {}
    for (tag, b), a in zip(ncases, ans):
        ck.count(('front-plain', b), nontrivial=True)
        pv[tag] = fl.split_answer(a)[0].split(' ')[0]
        if pv[tag] == 'accept' and fl.split_answer(a)[1]:
            noisy[tag] = 1
        judge(ck, side, probes, tag + ':plain', b, a, st, rc)
    for tag, src, v, err in rc:
        frames = fl.resolve_stack(probes['plain'], v, err)
        top = ['%s:%s' % (f[0], f[2]) for f in frames[:6]]
        ck.fail('c09:%s:%s' % (v.split(' ')[0], hashlib.sha256(src).hexdigest()[:12]),
                'front end (plain build) %s on %s: %s' % (v.split(' ')[0], tag, ' <- '.join(top) or err[:200]),
                dict(source_hex=src.hex() if len(src) < 200000 else None, origin=tag, observed=v[:300], stack=top, engine='front_probe(plain) front'))
    tool = cs.numeric_real_tool(ck, ncases, pv)
    # accepted although the numeral does not fit the type it is converted to (the index silently wraps): recorded, not a C09 matter
    wraps = sorted(t for t, v in pv.items() if v == 'accept' and t not in noisy and t.split(':')[1].startswith('tidx') and
                   re.fullmatch(r'-?\d{10,}', t.split(':')[2] or '') and abs(int(t.split(':')[2])) >= 2 ** 31)
    differ = sorted(t for t in pv if asan_verdicts.get(t) in ('accept', 'reject') and pv[t] in ('accept', 'reject') and asan_verdicts[t] != pv[t])
    rep = cs.numeric_sites_report()
    ck.extra['numeric_sites'] = rep['sites']
    ck.extra['numeric_positions'] = dict(templates=rep['templates'], pool=rep['pool'], inputs=len(ncases), templates_without_site=rep['templates_without_site'],
                                         plain_probe_outcomes=st, plain_nano_virt_outcomes=tool,
                                         accepted_with_output_on_stderr=dict(count=len(noisy), note='warnings, or errors that the type checker prints without failing (the latter: '
                                                                             'subject of C04/C05; nano_virt then exits 0, counted as error-exit0 above)'), asan_vs_plain_verdict_differs=differ[:10],
                                         tuple_index_wrapped_and_accepted=wraps[:12])


def build_from_summaries(ck, side, probes):
    out = {}
    for l in side['loops']:
        if not loop_is_flagged(l):
            continue
        key = 'c09:loop:%s#%d' % (l['fn'], l['ord'])
        tpl = LOOP_TEMPLATE.get((l['fn'], l['ord']))
        if not tpl:
            out[key] = 'no template (flagged by the summary only)'
            continue
        reqs = [('front', 700, tpl.format(tok=t).encode()) for t in REJECT_TOKENS]
        ans = fl.run_probe(probes['plain'], reqs, jobs=1)
        hit = [t for t, a in zip(REJECT_TOKENS, ans) if fl.split_answer(a)[0].startswith('hang')]
        out[key] = dict(template=tpl, stuck_sub_parsers=l.get('stuck_calls'), hanging_tokens=hit)
        if hit:
            src = tpl.format(tok=hit[0])
            ck.fail(key, 'loop %s#%d (parser.c:%s) does not progress when %s fails without consuming: "%s" hangs the parser'
                    % (l['fn'], l['ord'], l['line'], '/'.join(l.get('stuck_calls') or ['the sub-parser']), src),
                    dict(source=src, engine='front_probe(plain) front', built_from='loop summary', paths=l.get('paths')))
    for fn in cycle_functions(side):
        key = key_alias(ck, 'c09:cycle:' + fn)
        lad = CYCLE_LADDER.get(fn)
        if not lad:
            out['c09:cycle:' + fn] = 'no ladder template'
            continue
        res = None
        d = 166000 if lad == 'else-if' else 100000
        src = ladders(d)[lad].encode()
        a = fl.run_probe(probes['plain'], [('front', 30000, src)], jobs=1)
        v = fl.split_answer(a[0])[0]
        if v.startswith('crash') or v.startswith('hang'):
            res = (d, v)
        out['c09:cycle:' + fn] = dict(ladder=lad, result=res and dict(depth=res[0], observed=res[1][:60]))
        if res:
            ck.fail(key, 'recursion through %s is not depth-guarded: ladder %s at depth %d: %s' % (fn, lad, res[0], res[1][:40]),
                    dict(ladder=lad, depth=res[0], engine='front_probe(plain) front', built_from='call graph'))
    return out


def lex_compare(ck, ref, probe, pool, cases):
    rng = ck.rng
    srcs = [b for _, b in pool[:(150 if ck.thorough else 40)]]
    srcs += [b for t, b in cases if t.startswith('bytemut')][:(3000 if ck.thorough else 500)]
    specials = [b'', b'x-1', b'a -1', b'1.x', b'1.5.2', b"'a'", b"'\\n'", b"'\\q'", b"''", b"'ab'", b"'", b"'\\", b'"', b'"a\\', b'"a\\"b"', b'/*', b'/**/', b'/*/',
                b'/* a\n b */ c', b'# c\nx', b'#', b'= == => -> - -5 -x - 5', b'<= < <<= >= >> != !', b':: : :::', b'\xff\xfe a', b'a\x00b', b'\t\x0b\x0c\r\n x',
                b'and or not true false int u8 byte bstring print println range', b'_x9 x_ 9x', b'1.', b'.5', b'-.5', b'--1', b'0x10', b'1e5', b"'\xe9'", b"'\\\xe9'"]
    srcs += specials
    for _ in range(1500 if ck.thorough else 300):
        n = rng.randrange(0, 40)
        srcs.append(bytes(rng.choice(b'ab1 .-\'"\\/*#\n=<>!:(){}[],+%_9\xc3') for _ in range(n)))
    real = fl.run_probe(probe, [('lex', 3000, b) for b in srcs], jobs=10)
    model = vlib.run_lines(ref, ['lex ' + fl.hx(b) for b in srcs], timeout=600)
    bad = 0
    for b, r, m in zip(srcs, real, model):
        rv = fl.split_answer(r)[0]
        ck.count(('lex', b), nontrivial=len(b) > 0)
        if rv != m:
            bad += 1
            if bad < 6:
                ck.fail('c09:lexmodel:' + b.hex()[:60], 'tokenizer model and real tokenize differ on %r' % b[:60],
                        dict(correspondence='front_probe lex vs nvref_c09 lex', source_hex=b.hex(), model=m[:400], observed_real=rv[:400], engine='front_probe(asan) lex'))
    ck.extra['lexer_compare'] = dict(inputs=len(srcs), differing=bad, lexnull=sum(m == 'lexnull' for m in model))


def model_witnesses(ck, ref, probe):
    """the inputs of C09_prefix_arg_loop_hangs / C09_depth_limit_reported_refuted (and neighbours) on the real parser vs the model"""
    W = 'let v : int = '
    srcs = [W + '( + 1 else )', W + '(+ 1 ' * 1001 + '1' + ')' * 1001, W + '(+ 1 ' * 999 + '1' + ')' * 999, W + '(' * 1001 + '1 + 2' + ')' * 1001,
            W + '( f 1 else )', W + '( + 1 2 )', W + '( + 1 ( f ] ) )', W + '( not )', W + '( - - - 1 )', W + '( + ( + 1 else']
    real = [fl.split_answer(a)[0] for a in fl.run_probe(probe, [('expr', 1200, x) for x in srcs], jobs=5)]
    model = vlib.run_lines(ref, ['expr ' + fl.hx(x) for x in srcs], timeout=300)
    agree = 0
    for x, r, m in zip(srcs, real, model):
        rc = 'ok' if r.startswith('ok ') else ('hang' if r.startswith('hang') else ('error' if r in ('parsenull', 'lexnull') else r))
        ck.count(('witness', x), True)
        if m in ('unsupported', 'generic'):
            continue
        if rc != m:
            ck.fail('c09:model:' + x[:80], 'parser model and real parser differ on "%s": model=%s real=%s' % (x[:80], m, r[:60]),
                    dict(correspondence='front_probe expr vs nvref_c09 expr (inputs of the model theorems of Properties_C09 part 3)', source=x[:4000],
                         model=m, observed_real=r[:200], engine='front_probe(plain)'))
        else:
            agree += 1
    ck.extra['model_witnesses'] = dict(inputs=len(srcs), agree=agree, model=model)


def nano_virt_sample(ck, cases, lcases):
    b = ck.build('asan')
    rng = ck.rng
    sample = [c for c in cases if not c[0].startswith('trunc')]
    rng.shuffle(sample)
    sample = sample[:(600 if ck.thorough else 100)] + [c for c in lcases if c[0].endswith(':999') or c[0].endswith(':1001')]
    tmp = tempfile.mkdtemp(prefix='c09nv', dir=vlib.BUILD)
    env = dict(os.environ, ASAN_OPTIONS='detect_leaks=0:exitcode=77:allocator_may_return_null=1', UBSAN_OPTIONS='print_stacktrace=1:exitcode=77')
    outc = {}
    try:
        from concurrent.futures import ThreadPoolExecutor

        def one(k):
            tag, src = sample[k]
            d = os.path.join(tmp, str(k)); os.makedirs(d)
            open(os.path.join(d, 's.nano'), 'wb').write(src)
            rc, o, e = vlib.sh([b.bin('nano_virt'), 's.nano', '--emit-nvm', '-o', 'x.nvm'], timeout=5, cwd=d, env=env)
            return k, rc, e
        with ThreadPoolExecutor(12) as ex:
            for k, rc, e in ex.map(one, range(len(sample))):
                tag, src = sample[k]
                ck.count(('nano_virt', src), True)
                cls = 'exit%d' % rc if rc in (0, 1) else ('timeout' if rc == -9 else 'rc=%s' % rc)
                outc[cls] = outc.get(cls, 0) + 1
                if rc in (0, 1) and 'ERROR: AddressSanitizer' not in e and 'runtime error:' not in e:
                    if rc == 1 and not e.strip():
                        ck.fail('c09:nano_virt:silent:' + hashlib.sha256(src).hexdigest()[:12], 'nano_virt exits 1 without a diagnostic', dict(source_hex=src.hex(), origin=tag))
                    continue
                # a hang / sanitizer report / signal of the real tool: the same inputs went through front_probe above, where they are
                # attributed; here only failures that front_probe did NOT show are new (import processing, code generation)
                key = None
                first = re.search(r'#\d+ 0x[0-9a-f]+ in (\w+) \S*/src/([\w/]+\.c):', e[e.find('ERROR: '):] if 'ERROR: ' in e else e[e.find('runtime error:'):])
                if first and not re.match(r'(lexer|parser|typechecker|module|env|module_metadata)\.c$', first.group(2)):
                    ck.note('nano_virt (ASan) fails outside the front end (%s in %s) on %s: not a C09 matter' % (first.group(1), first.group(2), tag))
                    outc['outside-front-end'] = outc.get('outside-front-end', 0) + 1
                    continue
                if first and 'stack-overflow' not in e:
                    k2, _ = attribute(load_side(), ck.probe('front_probe.c', 'asan'), 'crash exit=77', e)
                    key = k2
                if rc == -9 or 'stack-overflow' in e:
                    fns = re.findall(r' in (\w+) \S*parser\.c:(\d+)', e)
                    side = load_side()
                    cyc = cycle_functions(side)
                    for fn, ln in fns[:30]:
                        if fn in cyc:
                            key = key_alias(ck, 'c09:cycle:' + fn); break
                if rc == -9 and key is None:
                    # no stack from a timed-out process: compare with the probe's verdict for the same input
                    pa = fl.run_probe(ck.probe('front_probe.c', 'plain'), [('front', 1500, src)], jobs=1)
                    pv, pd, pe = fl.split_answer(pa[0])
                    if pv.startswith('hang'):
                        k2, fr = attribute(load_side(), ck.probe('front_probe.c', 'plain'), pv, pe)
                        key = k2
                if key:
                    ck.fail(key, 'nano_virt (ASan) %s on %s' % (cls, tag), dict(source_hex=src.hex() if len(src) < 20000 else None, origin=tag, engine='nano_virt(asan) --emit-nvm'))
                else:
                    ck.fail('c09:nano_virt:%s:%s' % (cls, hashlib.sha256(src).hexdigest()[:12]), 'nano_virt (ASan) --emit-nvm: %s on %s' % (cls, tag),
                            dict(source_hex=src.hex() if len(src) < 200000 else None, origin=tag, stderr=e[-1500:], engine='nano_virt(asan) --emit-nvm'))
    finally:
        shutil.rmtree(tmp, ignore_errors=True)
    ck.extra['nano_virt_sample'] = outc


def entry_source(e):
    inp = e.get('input') or {}
    if inp.get('source'):
        return inp['source'].encode()
    if inp.get('ladder'):
        return ladders(int(inp.get('depth', 100000)))[inp['ladder']].encode()
    return None


def replay_entry(ck, probes, e):
    src = entry_source(e)
    if src is None:
        return False
    a = fl.run_probe(probes['asan' if e.get('needs') == 'asan' else 'plain'], [('front', 30000 if len(src) > 10000 else 2000, src)], jobs=1)
    v = fl.split_answer(a[0])[0]
    return v.startswith('hang') or v.startswith('crash')


def replay(ck, d):
    if d.get('tool') and (d.get('files') or d.get('scenario')):
        return cs.replay_modules(ck, d)
    ck.build('plain'); ck.build('asan'); ck.gen(['gen_tokens', 'gen_parserconsts', 'gen_parserloops'])
    probes = dict(asan=ck.probe('front_probe.c', 'asan'), plain=ck.probe('front_probe.c', 'plain'))
    if d.get('correspondence', '').startswith('front_probe lex'):
        ref = ck.nvref('c09')
        b = bytes.fromhex(d['source_hex'])
        r = fl.split_answer(fl.run_probe(probes['asan'], [('lex', 3000, b)], jobs=1)[0])[0]
        m = vlib.run_lines(ref, ['lex ' + fl.hx(b)])[0]
        print('source:', b); print('real :', r); print('model:', m)
        print('REPRODUCED' if r != m else 'not reproduced')
        return 0 if r == m else 1
    if d.get('source_hex'):
        src = bytes.fromhex(d['source_hex'])
    elif d.get('source'):
        src = d['source'].encode()
    elif d.get('ladder'):
        src = ladders(int(d.get('depth', 100000)))[d['ladder']].encode()
    elif isinstance(d.get('input'), dict):
        src = entry_source(d)
    else:
        print('replay file carries no input'); return 1
    bad = False
    for name in ('plain', 'asan'):
        a = fl.run_probe(probes[name], [('front', 30000 if len(src) > 10000 else 2000, src)], jobs=1)
        v, diag, err = fl.split_answer(a[0])
        print('%s: %s diag=%s' % (name, v[:120], diag))
        fr = fl.resolve_stack(probes[name], v, err)
        if fr:
            print('   stack:', ' <- '.join('%s:%s' % (f[0], f[2]) for f in fr[:8]))
        ok = v == 'accept' or (v.startswith('reject:') and diag)
        bad = bad or not ok
    print('REPRODUCED' if bad else 'not reproduced')
    return 1 if bad else 0
