"""Shared by c12.py and c10.py: program corpus, .nvm compilation, module-description generator, probe/model runners."""
import os, glob, hashlib, shutil
import vlib

SCRATCH = os.path.join(vlib.BUILD, 'nvm_scratch')

# small programs written for these checks: (name, source, main's return value or None)
PROGRAMS = [
    ('ret3', 'fn main() -> int { (println 7) return 3 }\nshadow main { assert true }\n', 3),
    ('ret0', 'fn main() -> int { (println "zero") return 0 }\nshadow main { assert true }\n', 0),
    ('ret256', 'fn main() -> int { (println "two five six") return 256 }\nshadow main { assert true }\n', 256),
    ('ret257', 'fn main() -> int { (println 257) return 257 }\nshadow main { assert true }\n', 257),
    ('retneg1', 'fn main() -> int { (println "neg") return -1 }\nshadow main { assert true }\n', -1),
    ('ret42fn', 'fn add(a: int, b: int) -> int { return (+ a b) }\nshadow add { assert (== (add 1 2) 3) }\n'
                'fn main() -> int { let x: int = (add 40 2)\n (println x)\n return x }\nshadow main { assert true }\n', 42),
    ('strings', 'fn greet(n: string) -> string { return (+ "hi \\"" (+ n "\\"")) }\nshadow greet { assert true }\n'
                'fn main() -> int { (println (greet "bob"))\n (println (greet "bob"))\n (println "")\n return 7 }\nshadow main { assert true }\n', 7),
    ('neardup', 'fn main() -> int { (println "item-a1")\n (println "item-a2")\n (println "item-b1")\n (println "jtem-a1")\n (println "item-a1")\n return 2 }\n'
                'shadow main { assert true }\n', 2),
    ('loop', 'fn main() -> int { let mut s: int = 0\n let mut i: int = 0\n while (< i 10) { set s (+ s i)\n set i (+ i 1) }\n (println s)\n return s }\n'
             'shadow main { assert true }\n', 45),
    ('floats', 'fn main() -> int { let x: float = (* 1.5 2.0)\n (println x)\n return 1 }\nshadow main { assert true }\n', 1),
    ('big', 'fn main() -> int { (println 1) return 4294967296 }\nshadow main { assert true }\n', 4294967296),
    # a global initialiser with an observable effect (the wrapper's generated main calls __init__ itself AND vm_execute does)
    ('ginit', 'fn side(x: int) -> int { (println x) return x }\nshadow side { assert true }\nlet g: int = (side 5)\n'
              'fn main() -> int { (println g) return 9 }\nshadow main { assert true }\n', 9),
    # runtime error: every runner must report 1
    ('rterr', 'fn f(x: int) -> int { assert (== x 2)\n return x }\nshadow f { assert (== (f 2) 2) }\n'
              'fn main() -> int { (println "before") return (f 3) }\nshadow main { assert true }\n', 'err'),
]


def scratch(sub):
    d = os.path.join(SCRATCH, sub)
    os.makedirs(d, exist_ok=True)
    return d


def write_programs(sub='src'):
    d = scratch(sub)
    out = []
    for name, src, ret in PROGRAMS:
        p = os.path.join(d, name + '.nano')
        if not os.path.exists(p) or open(p).read() != src:
            open(p, 'w').write(src)
        out.append((name, p, ret))
    return out


def example_programs(rng, count):
    """repository examples that do not depend on argv / stdin / time / randomness (by source text), sampled"""
    ps = []
    for p in sorted(glob.glob(os.path.join(vlib.REPO, 'examples', 'language', 'nl_*.nano'))):
        t = open(p, errors='replace').read()
        if any(w in t for w in ('get_argc', 'get_argv', 'random', 'time', 'readline', 'read_line', 'input', 'sleep', 'getenv')):
            continue
        if os.path.basename(p) in ('nl_primes_trial_division.nano', 'nl_pi_calculator.nano', 'nl_pi_chudnovsky.nano'):
            continue   # run for ~10 s
        ps.append(p)
    rng.shuffle(ps)
    return ps[:count]


def compile_nvm(b, src, out, timeout=30):
    """nano_virt src --emit-nvm -o out, run from the build root (so that modules/ and std/ resolve). -> (ok, stderr)"""
    rc, o, e = vlib.sh([b.bin('nano_virt'), src, '--emit-nvm', '-o', out], timeout=timeout, cwd=b.root)
    return rc == 0 and os.path.exists(out), (o + e)[-1500:]


def run_tool(cmd, cwd, timeout=20):
    rc, o, e = vlib.sh(cmd, timeout=timeout, cwd=cwd, input=b'')
    return rc, o, e


def probe_lines(probe, lines, timeout=900):
    """returns (answers, crashed_rc, stderr).  Leak checking stays on: error paths of nvm_deserialize must free the module."""
    env = dict(os.environ, ASAN_OPTIONS='detect_leaks=1:abort_on_error=0', UBSAN_OPTIONS='halt_on_error=1')
    rc, o, e = vlib.sh([probe], input=('\n'.join(lines) + '\n').encode(), timeout=timeout, env=env)
    return o.splitlines(), rc, e


def hexs(b):
    return b.hex() if b else '-'


# ---------------------------------------------------------------- module descriptions (the `rt` command)
def gen_desc(rng, big=False):
    """A module description within the C field widths; strings may repeat on purpose (nvm_add_string de-duplicates)."""
    def u(bits):
        k = rng.random()
        if k < 0.25: return rng.choice([0, 1, (1 << bits) - 1, 1 << (bits - 1)])
        if k < 0.6: return rng.randrange(0, 16)
        return rng.getrandbits(bits)
    ops = []
    pool = [b'', b'main', b'a', b'"q"', b'\x00', b'\x00\x00', 'héllo ☃'.encode(), b'main\x00x', b'__init__',
            b'maim', b'mbin', b'Main', b'ab', b'ac', b'a\x00', b'a\x01', b'main\x00y', b'\x00\x01']   # near-duplicates: same length, one byte apart
    ns = rng.choice([0, 0, 1, 2, 5, 12, 40 if big else 8])
    prev = []
    for _ in range(ns):
        k = rng.random()
        if k < 0.45:
            s = rng.choice(pool)
        elif k < 0.65 and prev and len(prev[-1]) > 0:
            s = bytearray(rng.choice(prev)); 
            if len(s) > 0:
                j = rng.randrange(len(s)); s[j] ^= 1 << rng.randrange(8)     # a copy of an earlier string with one bit changed
            s = bytes(s)
        else:
            s = bytes(rng.getrandbits(8) for _ in range(rng.choice([0, 1, 3, 4, 5, 17, 64])))
        prev.append(s)
        ops.append('s ' + hexs(s))
    for _ in range(rng.choice([0, 1, 1, 2, 3])):
        n = rng.choice([0, 1, 2, 9, 31, 200, 5000 if big else 33])
        ops.append('c ' + hexs(bytes(rng.getrandbits(8) for _ in range(n))))
    for _ in range(rng.choice([0, 0, 1, 2, 3, 20 if big else 6, 40 if big else 4])):
        ops.append('f %x %x %x %x %x %x' % (u(32), u(16), u(32), u(32), u(16), u(16)))
    for _ in range(rng.choice([0, 0, 1, 3, 300 if big else 5])):
        ops.append('d %x %x' % (u(32), u(32)))
    for _ in range(rng.choice([0, 0, 1, 2, 8, 40 if big else 3])):
        pc = rng.choice([0, 0, 1, 3, 16, rng.randrange(0, 40)])
        k = rng.random()
        if pc == 0:
            par = '-'
        elif k < 0.12:
            par = 'null'          # nvm_add_import(..., NULL) with param_count > 0
        else:
            par = bytes(rng.getrandbits(8) for _ in range(pc)).hex()
        ops.append('i %x %x %x %x %s' % (u(32), u(32), pc, u(8), par))
    rng.shuffle(ops)
    return '%x %x' % (u(32), u(32)) + ''.join(' ; ' + o for o in ops)


def fhash(b):
    return hashlib.blake2b(b, digest_size=6).hexdigest()


def wrapper_objdir(b):
    """NANO_VIRT_LIB layout expected by wrapper_gen.c (<dir>/nanovm/vm.o ..., <dir>/../src) as symlinks into the flat object cache"""
    root = os.path.join(b.root, 'wrap'); objd = os.path.join(root, 'obj')
    os.makedirs(objd, exist_ok=True)
    for o in glob.glob(os.path.join(b.obj, '*.o')):
        dst = os.path.join(objd, os.path.basename(o).replace('__', '/'))
        os.makedirs(os.path.dirname(dst), exist_ok=True)
        if os.path.islink(dst):
            if os.readlink(dst) == o:
                continue
            os.unlink(dst)
        os.symlink(o, dst)
    sl = os.path.join(root, 'src')
    if not os.path.islink(sl):
        os.symlink(os.path.join(vlib.REPO, 'src'), sl)
    return objd


def gen_flags():
    """current values of the generated booleans (which side of the conditional theorems is live)"""
    import re
    out = {}
    for fn in ('NvmConsts.v', 'RunnerFlags.v'):
        p = os.path.join(vlib.COQ, 'NV', 'gen', fn)
        if os.path.exists(p):
            for m in re.finditer(r'^Definition (\w+) : bool := (true|false)\.', open(p).read(), re.M):
                out[m.group(1)] = (m.group(2) == 'true')
    return out


def coqchk(ck):
    """thorough tier: re-check the compiled property file with the independent checker; records the context summary"""
    if not ck.thorough or ck.proof['broken']:
        return
    with vlib.Lock():
        rc, o, e = vlib.sh(['coqchk', '-o', '-silent', '-Q', 'NV', 'NV', 'NV.Props.Properties_%s' % ck.pid], cwd=vlib.COQ, timeout=1500)
    txt = (o + e)
    ok = rc == 0 and 'Axioms: <none>' in txt
    ck.extra['coqchk'] = 'ok: axioms <none>, no type-in-type, no unsafe fixpoints' if ok else 'FAILED: ' + txt[-600:]
    if not ok:
        ck.proof['broken'].append('coqchk failed on Properties_%s' % ck.pid)
