"""C07 -- prefix and infix notation denote the same program.
Proof: NV/Props/Properties_C07.v over the executable parser model NV/Front/ExprParser.v.
Correspondence: probes/front_probe.c (real tokenize + parse_program) vs the extracted model (nvref_c07) on the same
token streams; `nano_virt --emit-nvm` of the two spellings byte-identical on typed programs."""
import os, json, tempfile, shutil, hashlib
import vlib, frontlib as fl

INFIX_OPS = ['PLUS', 'MINUS', 'STAR', 'SLASH', 'PERCENT', 'EQ', 'NE', 'LT', 'LE', 'GT', 'GE', 'AND', 'OR']
UNARY_OPS = ['MINUS', 'NOT']
WRAP = 'let v : int = '
REST = ' let w : int = 0'


# ------------------------------------------------------------------ surface trees (mirror of ExprParser.sx)
def N(s): return ('N', str(s))
def V(s): return ('V', s)
def O(op, a, b): return ('O', op, a, b)
def U(op, a): return ('U', op, a)
def F(a, f): return ('F', a, f)
def I(a, i): return ('I', a, str(i))
def C(f, *args): return ('C', f, list(args))


def ser(t):
    c = fl.codes()
    k = t[0]
    if k == 'N': return 'N ' + fl.hx(t[1])
    if k == 'B': return 'B %d' % t[1]
    if k == 'V': return 'V ' + fl.hx(t[1])
    if k == 'O': return 'O %d %s %s' % (c[t[1]], ser(t[2]), ser(t[3]))
    if k == 'U': return 'U %d %s' % (c[t[1]], ser(t[2]))
    if k == 'F': return 'F %s %s' % (ser(t[1]), fl.hx(t[2]))
    if k == 'I': return 'I %s %s' % (ser(t[1]), fl.hx(t[2]))
    if k == 'C': return 'C %s %d %s' % (fl.hx(t[1]), len(t[2]), ' '.join(ser(a) for a in t[2]))
    raise ValueError(t)


def depth(t):
    k = t[0]
    if k in 'NBV': return 1
    if k == 'O': return 1 + max(depth(t[2]), depth(t[3]))
    if k == 'U': return 1 + depth(t[2])
    if k in 'FI': return 1 + depth(t[1])
    return 1 + max([depth(a) for a in t[2]] + [0])


def shapes():
    """operand shapes of DESIGN.md C07: literal, negative literal, var, p.x, t.0, (f a), unary; + uppercase var, nested postfix"""
    return [('lit', N(1)), ('neglit', N(-2)), ('var', V('a')), ('field', F(V('p'), 'x')), ('tidx', I(V('t'), 0)),
            ('call', C('f', V('a'))), ('neg', U('MINUS', V('b'))), ('not', U('NOT', V('c'))), ('upper', V('MAXV')),
            ('field2', F(F(V('q'), 'r'), 'x')), ('call0', C('g'))]


def gen_trees(ck):
    rng = ck.rng
    sh = shapes()
    core = [s for n, s in sh]
    out = []

    def add(tag, t):
        out.append((tag, t))
    # (i) every ordered pair of infix operators, left-associated, each operand position swept over all shapes
    for o1 in INFIX_OPS:
        for o2 in INFIX_OPS:
            add('pair', O(o2, O(o1, V('a'), V('b')), V('c')))
            add('pair-right', O(o1, V('a'), O(o2, V('b'), V('c'))))
            for pos in range(3):
                for n, s in sh:
                    ops = [V('a'), V('b'), V('c')]
                    ops[pos] = s
                    if ck.thorough or (INFIX_OPS.index(o1) + INFIX_OPS.index(o2) + pos + len(n)) % 4 == 0:
                        add('pair-shape', O(o2, O(o1, ops[0], ops[1]), ops[2]))
    # (ii) every operator x every pair of shapes
    for o1 in INFIX_OPS:
        for n1, s1 in sh:
            for n2, s2 in sh:
                add('op-shapes', O(o1, s1, s2))
    # (iii) operator triples, all five bracketings, variable operands
    a, b, c, d = V('a'), V('b'), V('c'), V('d')
    trip = [(o1, o2, o3) for o1 in INFIX_OPS for o2 in INFIX_OPS for o3 in INFIX_OPS]
    if not ck.thorough:
        trip = [t for i, t in enumerate(trip) if i % 7 == ck.seed % 7]
    for o1, o2, o3 in trip:
        add('triple', O(o3, O(o2, O(o1, a, b), c), d))
        add('triple', O(o3, O(o1, a, O(o2, b, c)), d))
        add('triple', O(o1, a, O(o3, O(o2, b, c), d)))
        add('triple', O(o1, a, O(o2, b, O(o3, c, d))))
        add('triple', O(o2, O(o1, a, b), O(o3, c, d)))
    # (iv) unary / postfix / call argument positions over all shapes, two levels
    for n1, s1 in sh:
        for u in UNARY_OPS:
            add('unary', U(u, s1))
            add('unary2', U(u, U('MINUS', s1)))
            add('unary-bin', U(u, O('PLUS', s1, V('a'))))
            add('bin-unary', O('STAR', V('a'), O('PLUS', U(u, s1), N(1))))
        add('postfix', F(s1, 'y'))
        add('postfix', I(s1, 1))
        add('postfix-bin', F(O('PLUS', s1, V('a')), 'y'))
        for n2, s2 in sh:
            add('call', C('f', s1, s2))
            add('call-bin', C('f', O('MINUS', s1, s2), s2))
            add('call-nested', C('f', C('g', s1), O('LT', s2, s1)))
    # (v) random trees
    def rnd(dep):
        if dep <= 0 or rng.random() < 0.15:
            return rng.choice(core) if rng.random() < 0.6 else rng.choice([N(rng.randrange(-9, 100)), ('B', rng.randrange(2)),
                                                                          V(rng.choice(['a', 'b', 'x1', '_k', 'Zed', 'n']))])
        r = rng.random()
        if r < 0.55: return O(rng.choice(INFIX_OPS), rnd(dep - 1), rnd(dep - 1))
        if r < 0.70: return U(rng.choice(UNARY_OPS), rnd(dep - 1))
        if r < 0.80: return F(rnd(dep - 1), rng.choice(['x', 'y', 'Val']))
        if r < 0.85: return I(rnd(dep - 1), rng.randrange(3))
        return C(rng.choice(['f', 'g', 'h2']), *[rnd(dep - 1) for _ in range(rng.randrange(0, 4))])
    nr = 20000 if ck.thorough else 2500
    for i in range(nr):
        add('random', rnd(2 + i % 5))
    # deeper: left/right combs and mixed, depth up to 40 (thorough: 400)
    for dep in ([10, 20, 40] if not ck.thorough else [10, 20, 40, 100, 200, 400]):
        for k in range(6 if not ck.thorough else 30):
            t = rng.choice(core)
            for j in range(dep):
                r = rng.random()
                if r < 0.4: t = O(rng.choice(INFIX_OPS), t, rng.choice(core))
                elif r < 0.7: t = O(rng.choice(INFIX_OPS), rng.choice(core), t)
                elif r < 0.8: t = U(rng.choice(UNARY_OPS), t)
                elif r < 0.9: t = C('f', rng.choice(core), t)
                else: t = F(t, 'x')
            add('deep%d' % dep, t)
    return out


# ------------------------------------------------------------------ comparison
def expected_from_model(m, nrest):
    """what the real parse_program must answer (on `let v : int = EXPR REST`) if the model is right; None = not predicted"""
    f = m.split(' rest=')
    if m == 'hang':
        return 'hang'
    if m in ('unsupported', 'generic', 'fuel') or m.startswith('bad'):
        # generic: the real parser is inside parse_generic_type_args / parse_type_with_element (660 lines, not modelled);
        # what follows depends on it, so nothing is predicted -- the property check (c) below still applies to the real results
        return None
    body = f[0][3:]
    rest, err = f[1].split(' err=')
    if err == '1' or body == 'null' or int(rest) != nrest:
        return 'parsenull'
    return 'ok ' + body


def run(ck):
    b = ck.build('plain')
    ck.gen(['gen_tokens', 'gen_parserconsts'])
    ck.prove()
    ref = ck.nvref('c07')
    probe = ck.probe('front_probe.c', 'plain')
    c = fl.codes()
    trees = gen_trees(ck)
    for p in sorted(os.listdir(os.path.join(vlib.VERIF, 'corpus', 'C07'))) if os.path.isdir(os.path.join(vlib.VERIF, 'corpus', 'C07')) else []:
        if p.endswith('.json'):
            trees.insert(0, ('corpus', tuple_of(json.load(open(os.path.join(vlib.VERIF, 'corpus', 'C07', p)))['tree'])))
    sers = [ser(t) for _, t in trees]
    cases = vlib.run_lines(ref, ['case ' + s for s in sers], timeout=600)
    info = []
    for (tag, t), s, line in zip(trees, sers, cases):
        d = dict(x.split('=', 1) for x in line.split('\t'))
        info.append(d)
    # requests to the real front end: for each tree and each spelling, with and without a following top-level item
    reqs = []
    meta = []
    for i, d in enumerate(info):
        for sp in ('prefix', 'infix'):
            toks = [] if d[sp] == '-' else d[sp].split(',')
            text = fl.render(toks)
            withrest = (i % 3 == 0)
            src = WRAP + text + (REST if withrest else '')
            reqs.append(('lex', 3000, src)); reqs.append(('expr', 3000, src))
            meta.append((i, sp, toks, withrest, src))
    ans = fl.run_probe(probe, reqs, jobs=14)
    ans, _ = fl.confirm_hangs(probe, reqs, ans, lambda r, a: True, factor=4)
    # model on the REAL token streams
    mlines = []
    for k, (i, sp, toks, withrest, src) in enumerate(meta):
        rt = fl.lex_tokens(fl.split_answer(ans[2 * k])[0]) if ans[2 * k] else None
        meta[k] = meta[k] + (rt,)
        body = rt[5:-1] if rt else []
        mlines.append('parse 0 ' + ' '.join(body))
    mres = vlib.run_lines(ref, mlines, timeout=600)
    by_tree = {}
    dist = {}
    classes = {}
    outcomes = {}
    nbad = 0
    for k, (i, sp, toks, withrest, src, rt) in enumerate(meta):
        tag, t = trees[i]
        d = info[i]
        real, diag, err = fl.split_answer(ans[2 * k + 1])
        nrest = 6 if withrest else 0
        ck.count((sers[i], sp, withrest), nontrivial=(trees[i][1][0] in 'OUFIC'))
        dist[tag] = dist.get(tag, 0) + 1
        # (a) rendering: the real lexer gives back exactly the printed tokens
        want = toks + (['%d:6c6574' % c['LET'], '%d:77' % c['IDENTIFIER'], '%d:-' % c['COLON'], '%d:696e74' % c['TYPE_INT'], '%d:-' % c['ASSIGN'],
                        '%d:30' % c['NUMBER']] if withrest else [])
        if rt is None or fl.strip_kw_values(rt[5:-1]) != fl.strip_kw_values(want):
            nbad += 1
            if nbad < 10:
                ck.fail('c07:render:%s:%s' % (sp, sers[i]), 'real lexer does not give back the printed tokens for "%s"' % src,
                        dict(correspondence='render/lex', source=src, printed=toks, lexed=rt))
            continue
        # (b) model vs implementation on that token stream
        exp = expected_from_model(mres[k], nrest)
        outcomes[mres[k].split(' ')[0] if not mres[k].startswith('ok') else ('ok-err' if mres[k].endswith('err=1') else 'ok')] = \
            outcomes.get(mres[k].split(' ')[0] if not mres[k].startswith('ok') else ('ok-err' if mres[k].endswith('err=1') else 'ok'), 0) + 1
        if exp is not None and exp != real and not (exp == 'hang' and real.startswith('hang')):
            nbad += 1
            if nbad < 10:
                ck.fail('c07:model:%s:%s' % (sp, sers[i]), 'parser model and real parser differ on "%s": model=%s real=%s' % (src, mres[k], real),
                        dict(correspondence='front_probe expr vs nvref_c07 parse', source=src, tree=t, spelling=sp, model=mres[k],
                             expected_real=exp, observed_real=real, engine='front_probe(plain)'))
        by_tree.setdefault(i, {})[sp] = real
    # (b') the same comparison on malformed token streams (error paths, argument-loop hangs): token-level mutants of printed forms
    mutant_compare(ck, ref, probe, info, outcomes)
    # (c) the property on the implementation: both spellings give the AST the tree denotes
    viol = {}
    for i, r in by_tree.items():
        d = info[i]
        classes[d['class']] = classes.get(d['class'], 0) + 1
        want = 'ok ' + d['denote']
        if 'prefix' in r and r['prefix'] != want:
            ck.fail('c07:prefix:' + sers[i], 'prefix spelling does not parse to the denoted tree', replay_of(trees[i][1], d, r))
        if 'infix' in r and 'prefix' in r and r['infix'] != r['prefix']:
            key = 'c07:infix:' + d['class'] if d['class'] != 'safe' else 'c07:infix:safe:' + sers[i]
            viol.setdefault(key, []).append(i)
    for key, idx in viol.items():
        i = min(idx, key=lambda j: (depth(trees[j][1]), len(sers[j])))
        ck.fail(key, 'infix and prefix spelling parse to different programs (%d trees of this class in this run); smallest: %s vs %s'
                % (len(idx), fl.render(info[i]['infix'].split(',')), fl.render(info[i]['prefix'].split(','))),
                replay_of(trees[i][1], info[i], by_tree[i]))
    ck.extra['unsafe_class_trees'] = classes
    ck.extra['model_outcomes'] = outcomes
    ck.extra['infix_differs_by_key'] = {k: len(v) for k, v in viol.items()}
    # (d) compiled code of the two spellings
    nvm_compare(ck, b, ref)
    # (4) replay every open known finding on the real code
    for e in ck.known:
        if replay_entry(ck, probe, b, e):
            ck.fail(e['key'], e.get('what', ''), dict(input=e.get('input'), engine='front_probe(plain)'))
    ck.cov['rule'] = ('surface trees over 13 infix + 2 unary operators, literals, variables, field access, tuple index, calls; '
                      'each tree printed by the model in prefix and infix spelling, rendered to text, lexed and parsed by the real front end '
                      '(with and without a following top-level item); non-trivial = tree with at least one operator/postfix/call node; '
                      'distinct = (tree, spelling, rest)')
    ck.extra['exhaustive'] = 'all 13x13 infix operator pairs (both bracketings) and all operator x shape x shape pairs are swept; triples: %s' % (
        'all 13^3 x 5 bracketings' if ck.thorough else '1/7 of 13^3 x 5 bracketings (seed dependent)')
    ck.extra['input_distribution'] = dist
    for i in (0, len(trees) // 2, len(trees) - 1):
        ck.sample(dict(tree=sers[i], infix=fl.render(info[i]['infix'].split(',')), prefix=fl.render(info[i]['prefix'].split(',')),
                       real=by_tree.get(i), cls=info[i]['class']))
    ck.trusted += ['translators tools/gen/gen_tokens.py (clang JSON AST of compiler_schema.h) and gen_parserconsts.py (clang -dM + cc)',
                   'extraction: ExtrOcamlBasic only; extract/nvio.ml + c07_driver.ml (S-expression printer of the model AST)',
                   'probes/front_probe.c (S-expression printer over the public ASTNode; wrapper `let v : int = <expr>`)',
                   'tools/props/frontlib.py render(): token -> text table, re-checked on every case by lexing the text with the real lexer']
    ck.assumptions += ['AST line/column fields are not compared', 'glibc atoll saturates (strtoll) -- number literals in the sweep are small',
                       'the model covers the expression fragment without { [ if cond match :: and float literals (outcome Unsupported, never compared)']


def mutant_compare(ck, ref, probe, info, outcomes):
    rng = ck.rng
    c = fl.codes()
    vocab = ['%d:-' % c[n] for n in ('LPAREN', 'RPAREN', 'LPAREN', 'RPAREN', 'DOT', 'COMMA', 'PLUS', 'MINUS', 'STAR', 'LT', 'GT', 'EQ', 'AND', 'OR', 'NOT',
                                     'TRUE', 'FALSE', 'ELSE', 'RBRACKET', 'COLON', 'RBRACE', 'ASSIGN', 'SET')] + \
            ['%d:%s' % (c['NUMBER'], fl.hx(x)) for x in ('0', '7', '-3')] + ['%d:%s' % (c['IDENTIFIER'], fl.hx(x)) for x in ('a', 'f', 'p', 'Q', 'x')]
    n = 20000 if ck.thorough else 2500
    srcs = []
    pool = [d[sp].split(',') for d in info[::7] for sp in ('prefix', 'infix') if d[sp] != '-' and len(d[sp].split(',')) < 40]
    for i in range(n):
        t = list(rng.choice(pool))
        for _ in range(1 + rng.randrange(3)):
            r = rng.random()
            k = rng.randrange(len(t) + 1)
            if r < 0.35 and t: del t[min(k, len(t) - 1)]
            elif r < 0.7: t.insert(k, rng.choice(vocab))
            elif r < 0.9 and t: t[min(k, len(t) - 1)] = rng.choice(vocab)
            elif t: t = t[:k]
        srcs.append(WRAP + fl.render(t))
    reqs = []
    for s_ in srcs:
        reqs.append(('lex', 400, s_)); reqs.append(('expr', 400, s_))
    ans = fl.run_probe(probe, reqs, jobs=14)
    mlines = []
    pre = []
    for k in range(len(srcs)):
        rt = fl.lex_tokens(fl.split_answer(ans[2 * k])[0]) if ans[2 * k] else None
        pre.append('parse 0 ' + ' '.join(rt[5:-1] if rt else []))
    premodel = vlib.run_lines(ref, pre, timeout=600)
    # a `hang` the model does not predict may be the wall-clock limit firing on a busy machine: confirm with a longer limit
    hang_pred = {2 * k + 1 for k in range(len(srcs)) if premodel[k] == 'hang'}
    ans, requeried = fl.confirm_hangs(probe, reqs, ans, lambda r, a: True, factor=8, skip=hang_pred)
    outcomes['mutant:unpredicted-hang-answers-retried-ok'] = requeried
    for k in range(len(srcs)):
        rt = fl.lex_tokens(fl.split_answer(ans[2 * k])[0]) if ans[2 * k] else None
        mlines.append('parse 0 ' + ' '.join(rt[5:-1] if rt else []))
    mres = vlib.run_lines(ref, mlines, timeout=600)
    bad = 0
    for k, s_ in enumerate(srcs):
        real = fl.split_answer(ans[2 * k + 1])[0]
        m = mres[k]
        tag = m.split(' ')[0] if not m.startswith('ok') else ('ok-err' if (m.endswith('err=1') or m.startswith('ok null')) else 'ok')
        outcomes['mutant:' + tag] = outcomes.get('mutant:' + tag, 0) + 1
        ck.count(('mutant', s_), nontrivial=True)
        exp = expected_from_model(m, 0)
        if exp is None:
            continue
        if exp != real and not (exp == 'hang' and real.startswith('hang')):
            bad += 1
            if bad < 6:
                ck.fail('c07:model:mutant:' + s_, 'parser model and real parser differ on "%s": model=%s real=%s' % (s_, m, real),
                        dict(correspondence='front_probe expr vs nvref_c07 parse (token mutants)', source=s_, model=m, expected_real=exp,
                             observed_real=real, engine='front_probe(plain)'))


def replay_of(t, d, r):
    return dict(tree=t, infix=fl.render(d['infix'].split(',')), prefix=fl.render(d['prefix'].split(',')), denote=d['denote'],
                cls=d['class'], real=r, engine='front_probe(plain)')


def tuple_of(x):
    if isinstance(x, list):
        if x and x[0] == 'C':
            return ('C', x[1], [tuple_of(a) for a in x[2]])
        return tuple(tuple_of(a) for a in x)
    return x


# ------------------------------------------------------------------ byte-identical bytecode of the two spellings
PRELUDE = '''struct P {{ x: int, flag: bool }}
fn f(k: int) -> int {{ return (+ k 1) }}
fn g(k: int) -> bool {{ return (> k 0) }}
fn main() -> int {{
  let p: P = P {{ x: 3, flag: true }}
  let t: (int, int) = (4, 5)
  let a: int = 7
  let b: int = 2
  let c: bool = false
  let LIMIT: int = 9
  let r: {ty} = {expr}
  (println r)
  return 0
}}
'''


def typed_tree(rng, ty, dep, safe):
    """type-correct trees; safe=True avoids the one shape that is still read differently (a parenthesised group that begins
    with a unary operator) so that both spellings must compile identically; postfix forms appear in every operand position"""
    def operand(ty, rhs):
        if ty == 'int':
            ch = [N(rng.randrange(0, 50)), V('a'), V('b'), C('f', V('a')), F(V('p'), 'x'), I(V('t'), rng.randrange(2)), V('LIMIT')]
            return rng.choice(ch)
        ch = [('B', rng.randrange(2)), V('c'), C('g', V('b')), F(V('p'), 'flag')]
        return rng.choice(ch)

    def go(ty, dep, rhs=False, grouped=False):
        if dep <= 0 or rng.random() < 0.2:
            return operand(ty, rhs)
        r = rng.random()
        if ty == 'int':
            if r < 0.75:
                return O(rng.choice(['PLUS', 'MINUS', 'STAR', 'SLASH', 'PERCENT']), go('int', dep - 1, False, grouped), go('int', dep - 1, True, True))
            if r < 0.85 and not (safe and grouped):
                return U('MINUS', go('int', 0, True))
            return C('f', go('int', dep - 1, False, True))
        if r < 0.4:
            return O(rng.choice(['EQ', 'NE', 'LT', 'LE', 'GT', 'GE']), go('int', dep - 1, False, grouped), go('int', dep - 1, True, True))
        if r < 0.8:
            return O(rng.choice(['AND', 'OR']), go('bool', dep - 1, False, grouped), go('bool', dep - 1, True, True))
        if r < 0.9 and not (safe and grouped):
            return U('NOT', go('bool', 0, True))
        return C('g', go('int', dep - 1, False, True))
    return go(ty, dep)


def nvm_compare(ck, b, ref):
    rng = ck.rng
    n = 400 if ck.thorough else 60
    cases = []
    for i in range(n):
        ty = 'int' if i % 2 == 0 else 'bool'
        cases.append((ty, typed_tree(rng, ty, 1 + i % 4, safe=True)))
    lines = vlib.run_lines(ref, ['case ' + ser(t) for _, t in cases])
    tmp = tempfile.mkdtemp(prefix='c07nvm', dir=vlib.BUILD)
    same = diff = rejected = 0
    try:
        from concurrent.futures import ThreadPoolExecutor

        def one(k):
            ty, t = cases[k]
            d = dict(x.split('=', 1) for x in lines[k].split('\t'))
            outs = {}
            for sp in ('prefix', 'infix'):
                dd = os.path.join(tmp, '%d_%s' % (k, sp)); os.makedirs(dd)
                src = PRELUDE.format(ty=ty, expr=fl.render(d[sp].split(',')))
                open(os.path.join(dd, 'x.nano'), 'w').write(src)
                rc, o, e = vlib.sh([b.bin('nano_virt'), 'x.nano', '--emit-nvm', '-o', 'x.nvm'], timeout=20, cwd=dd)
                outs[sp] = (rc, open(os.path.join(dd, 'x.nvm'), 'rb').read() if rc == 0 and os.path.exists(os.path.join(dd, 'x.nvm')) else None, src, e[-400:])
            return k, d, outs
        with ThreadPoolExecutor(12) as ex:
            for k, d, outs in ex.map(one, range(len(cases))):
                ck.count(('nvm', ser(cases[k][1])), True)
                p, q = outs['prefix'], outs['infix']
                if p[0] != 0:
                    rejected += 1      # generator produced something the checker refuses in prefix form too: not a notation issue
                    continue
                if q[0] != 0 or p[1] != q[1]:
                    diff += 1
                    key = 'c07:nvm:' + (d['class'] if d['class'] != 'safe' else 'safe:' + ser(cases[k][1]))
                    ck.fail(key, 'nano_virt --emit-nvm differs between the two spellings (infix rc=%s)' % q[0],
                            dict(prefix_source=p[2], infix_source=q[2], infix_rc=q[0], infix_stderr=q[3], engine='nano_virt --emit-nvm',
                                 prefix_sha=hashlib.sha256(p[1]).hexdigest(), infix_sha=hashlib.sha256(q[1] or b'').hexdigest()))
                else:
                    same += 1
    finally:
        shutil.rmtree(tmp, ignore_errors=True)
    ck.extra['nvm_compare'] = dict(programs=len(cases), identical=same, different=diff, prefix_rejected=rejected)


def replay_entry(ck, probe, b, e):
    """True when the finding still reproduces on the real parser"""
    inp = e.get('input', {})
    reqs = [('expr', 3000, WRAP + inp['infix']), ('expr', 3000, WRAP + inp['prefix'])]
    a = fl.run_probe(probe, reqs, jobs=1)
    ri, rp = fl.split_answer(a[0])[0], fl.split_answer(a[1])[0]
    return ri != rp


def replay(ck, d):
    b = ck.build('plain'); ck.gen(['gen_tokens', 'gen_parserconsts'])
    probe = ck.probe('front_probe.c', 'plain')
    if 'prefix_source' in d:
        tmp = tempfile.mkdtemp(prefix='c07rp', dir=vlib.BUILD)
        try:
            res = []
            for sp in ('prefix', 'infix'):
                dd = os.path.join(tmp, sp); os.makedirs(dd)
                open(os.path.join(dd, 'x.nano'), 'w').write(d[sp + '_source'])
                rc, o, e = vlib.sh([b.bin('nano_virt'), 'x.nano', '--emit-nvm', '-o', 'x.nvm'], timeout=20, cwd=dd)
                res.append((rc, open(os.path.join(dd, 'x.nvm'), 'rb').read() if rc == 0 else None))
                print(sp, 'rc=%s' % rc, e[-300:])
            same = res[0] == res[1] and res[0][0] == 0
        finally:
            shutil.rmtree(tmp, ignore_errors=True)
        print('REPRODUCED' if not same else 'not reproduced')
        return 0 if same else 1
    if 'source' in d:
        a = fl.run_probe(probe, [('expr', 3000, d['source'])], jobs=1)
        print('source:', d['source']); print('real  :', a[0]); print('model :', d.get('model'), '(expected real: %s)' % d.get('expected_real'))
        same = fl.split_answer(a[0])[0] == d.get('expected_real')
        print('REPRODUCED' if not same else 'not reproduced')
        return 0 if same else 1
    reqs = [('expr', 3000, WRAP + d['infix']), ('expr', 3000, WRAP + d['prefix'])]
    a = fl.run_probe(probe, reqs, jobs=1)
    print('infix :', d['infix'], '->', a[0]); print('prefix:', d['prefix'], '->', a[1]); print('denote:', d.get('denote'))
    same = fl.split_answer(a[0])[0] == fl.split_answer(a[1])[0]
    print('REPRODUCED' if not same else 'not reproduced')
    return 0 if same else 1
