"""Shared helpers of the C17/C18 checks: private nano_vmd instances (hook h3), raw protocol sessions, .nvm surgery,
standalone observations.  Every daemon lives under its own tempfile.mkdtemp() directory and is killed by pid."""
import os, sys, socket, struct, subprocess, tempfile, shutil, time, signal, zlib, atexit, ctypes, json, re, hashlib, threading
import vlib

VERSION = 1
T_LOAD_EXEC, T_PING, T_STATUS, T_SHUTDOWN = 1, 2, 3, 4
T_OUTPUT, T_EXIT, T_ERROR, T_PONG, T_STATUS_RSP = 0x10, 0x11, 0x12, 0x13, 0x14
MAX_PAYLOAD = 100 * 1024 * 1024

_live = []


def _cleanup():
    for d in list(_live):
        try:
            d.stop()
        except Exception:
            pass
atexit.register(_cleanup)


def _pdeathsig():
    try:
        ctypes.CDLL('libc.so.6').prctl(1, signal.SIGKILL)     # PR_SET_PDEATHSIG: the daemon dies with the check
    except Exception:
        pass


class Daemon:
    """One private nano_vmd (foreground, no idle timeout) on <tmpdir>/s.sock."""
    def __init__(self, b, env_extra=None, args=('--foreground', '--no-timeout')):
        self.b = b
        self.dir = tempfile.mkdtemp(prefix='nvmd_')
        self.sock = os.path.join(self.dir, 's.sock')
        self.pidf = os.path.join(self.dir, 's.pid')
        self.errp = os.path.join(self.dir, 'stderr')
        self.outp = os.path.join(self.dir, 'stdout')
        self.env = dict(os.environ, NANOLANG_VERIF_VMD_SOCK=self.sock, NANOLANG_VERIF_VMD_PID=self.pidf)
        self.env.pop('NANOLANG_VERIF_FUEL', None)
        if env_extra:
            self.env.update(env_extra)
        self.args = list(args)
        self.proc = None

    def start(self, wait=10.0):
        self.ef = open(self.errp, 'wb'); self.of = open(self.outp, 'wb')
        self.proc = subprocess.Popen([self.b.bin('nano_vmd')] + self.args, env=self.env, stdin=subprocess.DEVNULL,
                                     stdout=self.of, stderr=self.ef, preexec_fn=_pdeathsig, cwd=self.dir)
        _live.append(self)
        t0 = time.time()
        while time.time() - t0 < wait:
            if self.proc.poll() is not None:
                raise RuntimeError('nano_vmd exited at start rc=%s: %s' % (self.proc.returncode, self.stderr()[-500:]))
            if os.path.exists(self.sock):
                try:
                    s = socket.socket(socket.AF_UNIX); s.settimeout(2); s.connect(self.sock); s.close()
                    return self
                except OSError:
                    pass
            time.sleep(0.01)
        self.stop()
        raise RuntimeError('nano_vmd did not start listening within %ss' % wait)

    @property
    def pid(self):
        return self.proc.pid if self.proc else None

    def alive(self):
        return self.proc is not None and self.proc.poll() is None

    def exit_status(self):
        return None if self.proc is None else self.proc.poll()

    def stderr(self):
        try:
            self.ef.flush()
        except Exception:
            pass
        try:
            return open(self.errp, 'rb').read().decode('utf-8', 'replace')
        except OSError:
            return ''

    def stdout(self):
        try:
            return open(self.outp, 'rb').read()
        except OSError:
            return b''

    def ping(self, timeout=5.0):
        try:
            r = raw_session(self.sock, frame(T_PING), timeout=timeout)
            return r['recv'] == frame(T_PONG)
        except OSError:
            return False

    def status(self, timeout=5.0):
        try:
            r = raw_session(self.sock, frame(T_STATUS), timeout=timeout)
            fs, rest = parse_frames(r['recv'])
            if len(fs) == 1 and fs[0][0] == T_STATUS_RSP:
                m = re.match(rb'^active_clients=(-?\d+)$', fs[0][1])
                return int(m.group(1)) if m else None
        except OSError:
            pass
        return None

    def sigign_mask(self):
        """SigIgn of the live daemon from /proc/<pid>/status (bit n-1 = signal n)."""
        for l in open('/proc/%d/status' % self.pid):
            if l.startswith('SigIgn:'):
                return int(l.split()[1], 16)
        return None

    def stop(self):
        if self in _live:
            _live.remove(self)
        p = self.proc
        rc = None
        if p is not None:
            if p.poll() is None:
                try:
                    os.kill(p.pid, signal.SIGTERM)
                except OSError:
                    pass
                try:
                    p.wait(3)
                except subprocess.TimeoutExpired:
                    try:
                        os.kill(p.pid, signal.SIGKILL)
                    except OSError:
                        pass
                    try:
                        p.wait(3)
                    except subprocess.TimeoutExpired:
                        pass
            rc = p.returncode
        for f in (getattr(self, 'ef', None), getattr(self, 'of', None)):
            try:
                f and f.close()
            except Exception:
                pass
        self.last_stderr = self.stderr()
        # a `nano_vm --daemon` client that finds no daemon launches one itself (vmd_connect -> launch_daemon, detached with setsid);
        # it inherits our private paths and writes its pid into our pid file: never leave it behind
        try:
            stray = int(open(self.pidf).read().split()[0])
            if stray > 1 and (p is None or stray != p.pid) and 'nano_vmd' in os.readlink('/proc/%d/exe' % stray):
                os.kill(stray, signal.SIGTERM)
                for _ in range(30):
                    time.sleep(0.05)
                    if not os.path.exists('/proc/%d' % stray):
                        break
                else:
                    os.kill(stray, signal.SIGKILL)
        except (OSError, ValueError, IndexError):
            pass
        shutil.rmtree(self.dir, ignore_errors=True)
        return rc

    def __enter__(self):
        return self.start()

    def __exit__(self, *a):
        self.stop()


# ------------------------------------------------------------------------------------------ protocol
def header(t, n, version=VERSION, flags=0):
    return struct.pack('<BBHI', version & 0xff, t & 0xff, flags & 0xffff, n & 0xffffffff)


def frame(t, payload=b'', version=VERSION, flags=0):
    return header(t, len(payload), version, flags) + payload


def parse_frames(data):
    """-> ([(type, payload, version, flags)], rest) ; stops at the first incomplete frame."""
    out = []
    i = 0
    while len(data) - i >= 8:
        v, t, fl, n = struct.unpack('<BBHI', data[i:i + 8])
        if len(data) - i - 8 < n:
            break
        out.append((t, data[i + 8:i + 8 + n], v, fl))
        i += 8 + n
    return out, data[i:]


def raw_session(sock_path, data, mode='full', read_limit=None, timeout=20.0, chunks=None, pause=0.0):
    """One client connection.  mode: 'full' send everything, half-close, read until EOF;
       'noshut' send, read until EOF without half-close (server must end the session by itself);
       'abandon' send and close at once without reading; 'read_n' read read_limit bytes then close.
       chunks: list of cut offsets at which the payload is sent in separate send() calls (with `pause` between)."""
    s = socket.socket(socket.AF_UNIX, socket.SOCK_STREAM)
    s.settimeout(timeout)
    res = dict(recv=b'', reset=False, timeout=False, send_error=None)
    try:
        t0 = time.time()
        while True:
            try:
                s.connect(sock_path)
                break
            except BlockingIOError:           # listen backlog momentarily full (non-blocking connect under settimeout)
                if time.time() - t0 > timeout:
                    raise
                time.sleep(0.005)
        try:
            if chunks:
                prev = 0
                for c in list(chunks) + [len(data)]:
                    if c > prev:
                        s.sendall(data[prev:c]); prev = c
                        if pause:
                            time.sleep(pause)
            else:
                s.sendall(data)
        except OSError as e:
            res['send_error'] = str(e)
        if mode == 'abandon':
            return res
        if mode == 'full':
            try:
                s.shutdown(socket.SHUT_WR)
            except OSError:
                pass
        buf = b''
        while True:
            if mode == 'read_n' and len(buf) >= (read_limit or 0):
                break
            try:
                x = s.recv(65536)
            except ConnectionResetError:
                res['reset'] = True; break
            except socket.timeout:
                res['timeout'] = True; break
            if not x:
                break
            buf += x
        res['recv'] = buf
        return res
    finally:
        s.close()


# ------------------------------------------------------------------------------------------ programs
def compile_nvm(b, src_text, outdir, name):
    """nano source text -> .nvm path (None + diagnostics when nano_virt refuses)."""
    sp = os.path.join(outdir, name + '.nano'); op = os.path.join(outdir, name + '.nvm')
    open(sp, 'w').write(src_text)
    rc, o, e = vlib.sh([b.bin('nano_virt'), sp, '--emit-nvm', '-o', op], timeout=60, cwd=outdir)
    if rc != 0 or not os.path.exists(op):
        return None, (rc, o[-800:], e[-800:])
    return op, None


def run_cmd(cmd, env=None, timeout=60, cwd=None):
    """bytes-exact observation (rc, stdout, stderr)."""
    try:
        r = subprocess.run(cmd, env=env, capture_output=True, timeout=timeout, cwd=cwd, stdin=subprocess.DEVNULL)
        return r.returncode, r.stdout, r.stderr
    except subprocess.TimeoutExpired as e:
        return -9, e.stdout or b'', (e.stderr or b'') + b'\n[timeout]'


def standalone(b, nvm, timeout=60):
    return run_cmd([b.bin('nano_vm'), nvm], timeout=timeout)


def via_daemon(b, d, nvm, timeout=60):
    return run_cmd([b.bin('nano_vm'), '--daemon', nvm], env=d.env, timeout=timeout)


# ------------------------------------------------------------------------------------------ .nvm surgery
def nvm_sections(blob):
    n = struct.unpack_from('<I', blob, 16)[0]
    secs = []
    for i in range(n):
        t, off, sz = struct.unpack_from('<III', blob, 32 + 12 * i)
        secs.append((t, off, sz))
    return secs


def nvm_fix_crc(blob):
    blob = bytearray(blob)
    struct.pack_into('<I', blob, 28, zlib.crc32(bytes(blob[32:])) & 0xffffffff)
    return bytes(blob)


def nvm_patch_function(blob, fn_index, **fields):
    """Rewrite fields of function-table entry fn_index (name_idx, arity, code_offset, code_length, local_count, upvalue_count)."""
    blob = bytearray(blob)
    layout = dict(name_idx=(0, '<I'), arity=(4, '<H'), code_offset=(6, '<I'), code_length=(10, '<I'),
                  local_count=(14, '<H'), upvalue_count=(16, '<H'))
    for t, off, sz in nvm_sections(blob):
        if t == 3:
            for k, v in fields.items():
                o, fmt = layout[k]
                struct.pack_into(fmt, blob, off + 18 * fn_index + o, v)
    return nvm_fix_crc(bytes(blob))


def nvm_entry_point(blob):
    return struct.unpack_from('<I', blob, 12)[0]


def hostile_module(valid_blob, kind='code_offset'):
    """A module that nvm_deserialize accepts (CRC fixed) and nvm_verify refuses."""
    e = nvm_entry_point(valid_blob)
    if kind == 'code_offset':          # entry function starts far outside the code section
        return nvm_patch_function(valid_blob, e, code_offset=0x7ffffff0, code_length=16)
    if kind == 'code_length':          # function range runs past the end of the code section
        return nvm_patch_function(valid_blob, e, code_length=0x00ffffff)
    raise ValueError(kind)


# ------------------------------------------------------------------------------------------ program generator
def _fn(body):
    return body


PROGRAM_KINDS = ('lines', 'globals', 'strings', 'noeol', 'rterr', 'arrays', 'big', 'silent', 'mixed')
RETURNS = ('0', '0', '3', '255', '256', '(- 0 1)', '7', '1')     # main's int result = the exit status of standalone nano_vm


def gen_program(rng, tag, kind=None, scale=1, ret=None):
    """A nano program whose output is long and distinctive for `tag`.  Returns (kind, source).
    main returns `ret` (default: drawn from RETURNS); kind 'ffi' makes extern calls (labs / toupper / strlen through the FFI)."""
    kind = kind or rng.choice(PROGRAM_KINDS)
    ret = ret if ret is not None else rng.choice(RETURNS)
    n = rng.randrange(20, 60) * scale
    k = rng.randrange(3, 9)
    work = rng.randrange(12, 19)
    pre = '''
fn fib(n: int) -> int {
    if (< n 2) { return n } else { return (+ (fib (- n 1)) (fib (- n 2))) }
}
shadow fib { assert (== (fib 5) 5) }

fn rep(s: string, n: int) -> string {
    let mut r: string = ""
    let mut i: int = 0
    while (< i n) {
        set r (+ r s)
        set i (+ i 1)
    }
    return r
}
shadow rep { assert (== (rep "a" 2) "aa") }
'''
    if kind == 'lines':
        body = '''
fn main() -> int {
    let mut i: int = 0
    while (< i %(n)d) {
        (println (+ "%(tag)s-line-" (+ (int_to_string i) (+ ":" (int_to_string (fib (+ %(work)d (%% i 4))))))))
        set i (+ i 1)
    }
    return %(ret)s
}
shadow main { assert true }
'''
    elif kind == 'globals':
        body = '''
let mut g_acc: int = %(k)d
let mut g_name: string = "%(tag)s"

fn bump(d: int) -> int {
    set g_acc (+ (* g_acc 31) d)
    set g_acc (%% g_acc 1000003)
    return g_acc
}
shadow bump { assert true }

fn main() -> int {
    let mut i: int = 0
    while (< i %(n)d) {
        let w: int = (fib %(work)d)
        (print g_name)
        (print "-g-")
        (print (bump (+ i w)))
        (print "-")
        (println g_acc)
        set i (+ i 1)
    }
    set g_name (+ g_name "-end")
    (println g_name)
    return %(ret)s
}
shadow main { assert true }
'''
    elif kind == 'strings':
        body = '''
fn main() -> int {
    let mut i: int = 0
    let mut s: string = "%(tag)s"
    while (< i %(n)d) {
        set s (+ (rep "%(tag)s." (+ 1 (%% i %(k)d))) (int_to_string (fib (+ 10 (%% i 6)))))
        (println s)
        set i (+ i 1)
    }
    (println (rep "%(tag)s=" 700))
    (println (rep "%(tag)s#" 1500))
    (println (+ "%(tag)s" "-done"))
    return %(ret)s
}
shadow main { assert true }
'''
    elif kind == 'noeol':
        body = '''
fn main() -> int {
    let mut i: int = 0
    while (< i %(n)d) {
        (print "%(tag)s~")
        (print (fib (+ 8 (%% i 7))))
        if (== (%% i %(k)d) 0) { (println "") } else { (print ",") }
        set i (+ i 1)
    }
    (print "%(tag)s-unterminated")
    return %(ret)s
}
shadow main { assert true }
'''
    elif kind == 'rterr':
        body = '''
fn down(n: int) -> int {
    if (== n 0) { return 0 } else { return (+ 1 (down (- n 1))) }
}
shadow down { assert (== (down 3) 3) }

fn main() -> int {
    let mut i: int = 0
    while (< i %(k)d) {
        (println (+ "%(tag)s-before-" (int_to_string (fib (+ %(work)d i)))))
        set i (+ i 1)
    }
    (print "%(tag)s-partial-")
    (println (down 1000000))
    (println "%(tag)s-not-reached")
    return %(ret)s
}
shadow main { assert true }
'''
    elif kind == 'arrays':
        body = '''
fn main() -> int {
    let mut arr: array<int> = []
    let mut i: int = 0
    while (< i %(n)d) {
        set arr (array_push arr (+ (* i %(k)d) (fib (+ 6 (%% i 9)))))
        set i (+ i 1)
    }
    let mut j: int = 0
    let mut sum: int = 0
    while (< j %(n)d) {
        set sum (+ sum (at arr j))
        (println (+ "%(tag)s[" (+ (int_to_string j) (+ "]=" (int_to_string (at arr j))))))
        set j (+ j 1)
    }
    (println (+ "%(tag)s-sum-" (int_to_string sum)))
    (println (fib %(work)d))
    return %(ret)s
}
shadow main { assert true }
'''
    elif kind == 'big':
        body = '''
fn main() -> int {
    let mut i: int = 0
    let pad: string = (rep "%(tag)s+" 60)
    while (< i %(bign)d) {
        (println (+ (int_to_string i) pad))
        set i (+ i 1)
    }
    (println "%(tag)s-big-done")
    return %(ret)s
}
shadow main { assert true }
'''
    elif kind == 'ffi':
        pre = '''
extern fn labs(x: int) -> int
extern fn toupper(c: int) -> int
extern fn strlen(s: string) -> int
''' + pre
        body = '''
fn main() -> int {
    let mut i: int = 0
    let mut acc: int = 0
    while (< i %(n)d) {
        let mut r: int = 0
        let mut u: int = 0
        let mut m: int = 0
        unsafe {
            set r (labs (- 0 (+ %(k)d i)))
            set u (toupper (+ 97 (%% i 26)))
            set m (strlen (+ "%(tag)s-" (int_to_string (* i i))))
        }
        set acc (+ acc (+ r (+ u m)))
        (println (+ "%(tag)s-ffi-" (+ (int_to_string r) (+ ":" (+ (int_to_string u) (+ ":" (int_to_string m)))))))
        set i (+ i 1)
    }
    (println acc)
    return %(ret)s
}
shadow main { assert true }
'''
    elif kind == 'silent':
        body = '''
fn main() -> int {
    let x: int = (fib %(work)d)
    return %(ret)s
}
shadow main { assert true }
'''
    else:  # mixed
        body = '''
let mut g_total: int = 0

fn step(i: int) -> string {
    set g_total (+ g_total (fib (+ 9 (%% i 8))))
    return (+ "%(tag)s:" (+ (int_to_string i) (+ "/" (int_to_string g_total))))
}
shadow step { assert true }

fn main() -> int {
    let mut i: int = 0
    while (< i %(n)d) {
        if (== (%% i 3) 0) { (println (step i)) } else { (print (step i)) (print " ") }
        set i (+ i 1)
    }
    (println "")
    (println (rep "%(tag)s" 1200))
    (println (fib %(work)d))
    return %(ret)s
}
shadow main { assert true }
'''
    return kind, pre + body % dict(tag=tag, n=n, k=k, work=work, bign=rng.randrange(700, 1200) * scale, ret=ret)


class Programs:
    """Compiles generated programs once and remembers each one's standalone observation."""
    def __init__(self, b, workdir):
        self.b = b; self.dir = workdir
        self.items = []           # dict(name, kind, nvm, blob, obs=(rc,out,err), src)
        os.makedirs(workdir, exist_ok=True)

    def add(self, rng, tag, kind=None, scale=1, ret=None):
        kind, src = gen_program(rng, tag, kind, scale, ret)
        name = 'p%03d_%s' % (len(self.items), kind)
        nvm, diag = compile_nvm(self.b, src, self.dir, name)
        if nvm is None:
            raise RuntimeError('nano_virt refused generated program %s: %s' % (name, diag))
        obs = standalone(self.b, nvm)
        it = dict(name=name, kind=kind, tag=tag, nvm=nvm, blob=open(nvm, 'rb').read(), obs=obs, src=src)
        self.items.append(it)
        return it


def canon_reply(data):
    """Reply bytes -> (concat OUTPUT payloads, [(type, payload) of every non-OUTPUT frame in order], outputs_all_first, rest)."""
    fs, rest = parse_frames(data)
    out = b''.join(p for t, p, v, fl in fs if t == T_OUTPUT)
    others = [(t, p) for t, p, v, fl in fs if t != T_OUTPUT]
    seen_other = False; ordered = True
    for t, p, v, fl in fs:
        if t != T_OUTPUT:
            seen_other = True
        elif seen_other:
            ordered = False
    hdr_ok = all(v == VERSION and fl == 0 for t, p, v, fl in fs)
    return dict(out=out, others=others, ordered=ordered, rest=rest, hdr_ok=hdr_ok, nframes=len(fs))


def expected_client_obs(canon):
    """What vmd_execute/run_daemon would show for this reply (python transcription used only for raw clients)."""
    err = b''
    for t, p in canon['others']:
        if t == T_ERROR and p:
            err += p + b'\n'
        if t == T_EXIT and len(p) == 4:
            code = struct.unpack('<i', p)[0]
            if code < 0:
                return (1, canon['out'], err + b'Error: Communication error with daemon\n')
            return (code & 0xff, canon['out'], err)
    return (1, canon['out'], err + b'Error: Communication error with daemon\n')


def nvref_cmd(ref):
    """The extracted model handles streams of several 100 KB as Coq lists (non tail-recursive app/length): give it stack."""
    return ['sh', '-c', 'ulimit -s unlimited 2>/dev/null || ulimit -s 4000000 2>/dev/null; exec "$0"', ref]


# ------------------------------------------------------------------------------------------ time budget
class Budget:
    """Bounded-time policy shared by the C17/C18 checks.
    * every client gets `t_first` seconds until the first client of the run has hung, `t_after` seconds afterwards;
    * a phase that has seen `k` anomalies (hung clients / communication errors the model does not allow) is abandoned:
      the callers record the failures and skip everything else that would use the same daemon instance;
    * `left()` = seconds of the global correspondence budget that remain (callers skip optional repetitions when it is gone)."""
    def __init__(self, t_first=60.0, t_after=20.0, k=3, wall=240.0):
        self.t_first, self.t_after, self.k, self.wall = t_first, t_after, k, wall
        self.t0 = time.time()
        self.hangs = 0            # in the whole run
        self.phase = 0            # anomalies in the current phase
        self.log = []
        self.lock = threading.Lock()

    def timeout(self):
        return self.t_after if self.hangs else self.t_first

    def new_phase(self):
        self.phase = 0

    def anomaly(self, what, hung=False):
        with self.lock:
            self.phase += 1
            if hung:
                self.hangs += 1
            if len(self.log) < 40:
                self.log.append(what)

    def exhausted(self):
        return self.phase >= self.k

    def left(self):
        return self.wall - (time.time() - self.t0)

    def summary(self):
        return dict(hung_clients=self.hangs, anomalies_logged=self.log[:12], seconds=round(time.time() - self.t0, 1))


def client_anomaly(obs):
    """Classify what a `nano_vm --daemon` client showed: 'hung' (killed by the timeout), 'comm' (communication / connect error), None."""
    rc, out, err = obs
    if rc == -9 and err.endswith(b'[timeout]'):
        return 'hung'
    if b'Communication error with daemon' in err or b'Cannot connect to nano_vmd' in err or b'Timeout waiting for daemon' in err:
        return 'comm'
    return None


def raw_anomaly(rr):
    """The same for a raw exec session result of raw_session()."""
    if rr.get('timeout'):
        return 'hung'
    if rr.get('error') or rr.get('reset') or rr.get('send_error'):
        return 'comm'
    fs, rest = parse_frames(rr.get('recv', b''))
    if not any(f[0] == T_EXIT for f in fs) and not any(f[0] == T_ERROR for f in fs):
        return 'comm'          # connection closed without EXIT_CODE/ERROR: the client would print "Communication error"
    return None


def gen_slow_program(tag, steps, work):
    """Runs for `steps` units of fib(work), one distinctive line per unit (used under --idle-timeout)."""
    return '''
fn fib(n: int) -> int {
    if (< n 2) { return n } else { return (+ (fib (- n 1)) (fib (- n 2))) }
}
shadow fib { assert (== (fib 5) 5) }

fn main() -> int {
    let mut i: int = 0
    while (< i %(steps)d) {
        (println (+ "%(tag)s-step-" (+ (int_to_string i) (+ ":" (int_to_string (fib %(work)d))))))
        set i (+ i 1)
    }
    (println "%(tag)s-slow-done")
    return 0
}
shadow main { assert true }
''' % dict(tag=tag, steps=steps, work=work)


def gen_silent_program(tag, steps, work):
    """Prints, computes silently for `steps` units of fib(work), prints again (nothing is written to the output in between)."""
    return '''
fn fib(n: int) -> int {
    if (< n 2) { return n } else { return (+ (fib (- n 1)) (fib (- n 2))) }
}
shadow fib { assert (== (fib 5) 5) }

fn main() -> int {
    (println "%(tag)s-start")
    let mut i: int = 0
    let mut acc: int = 0
    while (< i %(steps)d) {
        set acc (%% (+ acc (fib %(work)d)) 1000003)
        set i (+ i 1)
    }
    (println (+ "%(tag)s-result-" (int_to_string acc)))
    (println "%(tag)s-end")
    return 0
}
shadow main { assert true }
''' % dict(tag=tag, steps=steps, work=work)


def build_daemon_wrapper(b, src_path, out_path, workdir):
    """`nano_virt x.nano --daemon-wrapper -o out` against the freshly built client objects (NANO_VIRT_LIB layout made of symlinks).
    Returns (path or None, diagnostics)."""
    lib = os.path.join(workdir, 'wraplib'); nv = os.path.join(lib, 'nanovm')
    os.makedirs(nv, exist_ok=True)
    for o in ('vmd_client', 'vmd_protocol'):
        dst = os.path.join(nv, o + '.o')
        if not os.path.lexists(dst):
            os.symlink(os.path.join(b.obj, 'nanovm__%s.o' % o), dst)
    srcl = os.path.join(workdir, 'src')
    if not os.path.lexists(srcl):
        os.symlink(os.path.join(vlib.REPO, 'src'), srcl)
    env = dict(os.environ, NANO_VIRT_LIB=lib)
    rc, o, e = vlib.sh([b.bin('nano_virt'), src_path, '--daemon-wrapper', '-o', out_path], timeout=120, cwd=workdir, env=env)
    if rc != 0 or not os.path.exists(out_path):
        return None, (rc, o[-400:], e[-400:])
    return out_path, None


SHAPE_LENGTHS = (1, 8191, 8192, 8193, 65535, 65536, 65537, 73728, 262144, 1048576, 4194304)


def gen_shape_program(name, ret='0'):
    """Deterministic "output shape" programs.  name = 'single:<n>' (one print of exactly n bytes between two short lines),
    'small:<n>' (n bytes as 16-byte prints without newline), 'lines:<n>' (the same as 15+newline lines), 'noeol:<n>' (one print of n
    bytes, no newline, last thing before exit), 'mix' (long and short prints interleaved), 'err:<n>' (print of n bytes, then a runtime error)."""
    kind, _, arg = name.partition(':')
    n = int(arg) if arg else 0
    pre = '''
fn build(n: int) -> string {
    let mut s: string = "0123456789abcde+"
    while (< (str_length s) n) {
        set s (str_concat s s)
    }
    return (str_substring s 0 n)
}
shadow build { assert (== (str_length (build 5)) 5) }

fn down(n: int) -> int {
    if (== n 0) { return 0 } else { return (+ 1 (down (- n 1))) }
}
shadow down { assert (== (down 3) 3) }
'''
    if kind == 'single':
        body = '(println "shape-begin")\n    (print (build %d))\n    (println "")\n    (println "shape-end")' % n
    elif kind == 'noeol':
        body = '(println "shape-begin")\n    (print (build %d))' % n
    elif kind == 'small':
        body = 'let mut i: int = 0\n    while (< i %d) {\n        (print "0123456789abcde+")\n        set i (+ i 1)\n    }\n    (println "")\n    (println "shape-end")' % (n // 16)
    elif kind == 'lines':
        body = 'let mut i: int = 0\n    while (< i %d) {\n        (println "0123456789abcde")\n        set i (+ i 1)\n    }\n    (println "shape-end")' % (n // 16)
    elif kind == 'err':
        body = '(print (build %d))\n    (println "")\n    (print "partial-")\n    (println (down 1000000))' % n
    else:
        body = ('(println "a")\n    (print (build 70000))\n    (println "b")\n    (println (build 9000))\n    (print "c")\n    (print (build 300000))\n'
                '    (println "")\n    (println (build 3))\n    (print (build 8192))\n    (print (build 8192))\n    (println "z")')
    return pre + 'fn main() -> int {\n    %s\n    return %s\n}\nshadow main { assert true }\n' % (body, ret)
