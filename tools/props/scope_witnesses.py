"""Fixed witnesses for symbol-table attributes that could leak from one function (or block) into another in the real type
checker, which never removes function-local symbols: mutability, type, struct type name, array element type, const-ness of a
global vs a same-named local, parameter / for-variable named like an earlier `mut` local, shadowing after a block ends.
Each attribute has an ILL-formed variant (must be refused by all three tools: C05; the reference rules scope per function and
per block) and a WELL-formed variant (must be accepted and run equal on both backends: C04)."""

SH = 'shadow %s { assert true }\n'


def _main(body):
    return 'fn main() -> int {\n' + body + '\n    return 0\n}\n' + SH % 'main'


ACC = ('fn sum_to(n: int) -> int {\n    let mut total: int = 0\n    let mut i: int = 1\n    while (<= i n) {\n        set total (+ total i)\n'
       '        set i (+ i 1)\n    }\n    return total\n}\n' + SH % 'sum_to')
STRUCTS = 'struct Sa {\n    a: int\n}\nstruct Sb {\n    b: int\n}\n'


def ill():
    return {
        # mutability: `total` is `let mut` in sum_to and an immutable let in main
        'scope:mutability-local': ACC + _main('    let total: int = (sum_to 4)\n    set total (+ total 1)\n    (println total)'),
        # a parameter named like an earlier function's mut local
        'scope:mutability-param': ACC + 'fn bump(total: int) -> int {\n    set total (+ total 1)\n    return total\n}\n' + SH % 'bump' + _main('    (println (bump (sum_to 3)))'),
        # a for variable named like an earlier mut local
        'scope:mutability-for-variable': ACC + _main('    for total in (range 0 3) {\n        set total 7\n        (println total)\n    }'),
        # type: x is an int in f and a string in main; main uses it as an int
        'scope:type': 'fn f() -> int {\n    let x: int = 3\n    return (+ x 1)\n}\n' + SH % 'f' + _main('    let x: string = "s"\n    let y: int = (+ x 1)\n    (println y)\n    (println (f))'),
        # struct type name: p is an Sa in f and an Sb in main; main reads the field of Sa
        'scope:struct-type-name': STRUCTS + 'fn f() -> int {\n    let p: Sa = Sa { a: 1 }\n    return p.a\n}\n' + SH % 'f' +
                                  _main('    let p: Sb = Sb { b: 2 }\n    let y: int = p.a\n    (println y)\n    (println (f))'),
        # array element type: a is array<int> in f and array<string> in main; main uses an element as an int
        'scope:array-element-type': 'fn f() -> int {\n    let a: array<int> = [1, 2]\n    return (at a 0)\n}\n' + SH % 'f' +
                                    _main('    let a: array<string> = ["x", "y"]\n    let y: int = (+ (at a 0) 1)\n    (println y)\n    (println (f))'),
        # const-ness: a global constant g, a same-named `let mut g` in f; main assigns the GLOBAL
        'scope:global-constness': 'let g: int = 3\nfn f() -> int {\n    let mut g: int = 1\n    set g (+ g 1)\n    return g\n}\n' + SH % 'f' + _main('    set g 5\n    (println g)\n    (println (f))'),
        # shadowing ends with the block: the inner x is mut, the outer x is not; the assignment after the block hits the OUTER x
        'scope:block-shadow-mutability': _main('    let x: int = 1\n    if true {\n        let mut x: int = 2\n        set x 3\n        (println x)\n    }\n    set x 4\n    (println x)'),
    }


def ok():
    return {
        'scope:mutability-local': ACC + _main('    let mut total: int = (sum_to 4)\n    set total (+ total 1)\n    (println total)'),
        'scope:mutability-local-immutable-reuse': ACC + _main('    let total: int = (sum_to 4)\n    (println (+ total 1))'),
        'scope:mutability-param': ACC + 'fn bump(total: int) -> int {\n    return (+ total 1)\n}\n' + SH % 'bump' + _main('    (println (bump (sum_to 3)))'),
        'scope:mutability-for-variable': ACC + _main('    for total in (range 0 3) {\n        (println total)\n    }\n    (println (sum_to 2))'),
        'scope:immutable-then-mutable': 'fn f() -> int {\n    let total: int = 3\n    return total\n}\n' + SH % 'f' + _main('    let mut total: int = (f)\n    set total (+ total 1)\n    (println total)'),
        'scope:type': 'fn f() -> int {\n    let x: int = 3\n    return (+ x 1)\n}\n' + SH % 'f' + _main('    let x: string = "s"\n    (println x)\n    (println (== x "s"))\n    (println (f))'),
        'scope:type-reversed': 'fn f() -> string {\n    let x: string = "s"\n    return x\n}\n' + SH % 'f' + _main('    let x: int = 3\n    (println (+ x 1))\n    (println (f))'),
        'scope:struct-type-name': STRUCTS + 'fn f() -> int {\n    let p: Sa = Sa { a: 1 }\n    return p.a\n}\n' + SH % 'f' +
                                  _main('    let p: Sb = Sb { b: 2 }\n    let y: int = p.b\n    (println y)\n    (println (f))'),
        'scope:array-element-type': 'fn f() -> int {\n    let a: array<int> = [1, 2]\n    return (at a 0)\n}\n' + SH % 'f' +
                                    _main('    let a: array<string> = ["x", "y"]\n    (println (at a 0))\n    (println (f))'),
        'scope:global-constness': 'let g: int = 3\nfn f() -> int {\n    let mut g: int = 1\n    set g (+ g 1)\n    return g\n}\n' + SH % 'f' + _main('    (println g)\n    (println (f))\n    (println g)'),
        'scope:block-shadow-mutability': _main('    let mut x: int = 1\n    if true {\n        let x: int = 2\n        (println x)\n    }\n    set x 4\n    (println x)'),
        'scope:block-shadow-type': _main('    let x: int = 1\n    if true {\n        let x: string = "in"\n        (println x)\n    }\n    (println (+ x 1))'),
    }


# ------------------------------------------------------------------------------------------------ name used after its block
EXIT_KINDS = ['if', 'else', 'while-body', 'for-body', 'nested']
EXIT_ENDINGS = ['falls-through', 'return', 'break', 'continue', 'return-in-nested-if', 'infinite-loop']
EXIT_POSITIONS = ['after-block', 'after-loop', 'outer-later']


def exit_family():
    """name used after the block that declared it x how the block ends x kind of block x where the later use is.
    -> {key: progen AST}; every program is ill-formed (z is out of scope at the use): all three tools must refuse it.
    The declaring block is never entered at run time, so a tool that wrongly accepts the program reaches the use."""
    import lang_findings
    N = lang_findings.N; V = lang_findings.V; P = lang_findings.P; seq = lang_findings.seq; fn = lang_findings.fn; prog = lang_findings.prog
    n_, i_, acc_, k_, z_ = 2, 3, 4, 5, 6
    use = ('set', acc_, ('bin', 'add', V(acc_), V(z_)))
    out = {}
    for kind in EXIT_KINDS:
        for ending in EXIT_ENDINGS:
            for posn in EXIT_POSITIONS:
                end = {'falls-through': P(V(z_)), 'return': ('ret', V(z_)), 'break': ('break',), 'continue': ('continue',),
                       'return-in-nested-if': ('if', ('bin', 'gt', V(z_), N(0)), ('ret', V(z_)), ('skip',)),
                       'infinite-loop': ('while', ('bool', True), ('if', ('bin', 'gt', V(z_), N(0)), ('ret', V(z_)), ('skip',)))}[ending]
                inner = seq(('let', False, z_, 'int', N(5)), end)
                if kind == 'if':
                    block = ('if', ('bin', 'gt', V(n_), N(100)), inner, ('skip',))
                elif kind == 'else':
                    block = ('if', ('bin', 'le', V(n_), N(100)), P(N(0)), inner)
                elif kind == 'while-body':
                    block = seq(('let', True, k_, 'int', N(0)), ('while', ('bin', 'lt', V(k_), N(0)), seq(('set', k_, ('bin', 'add', V(k_), N(1))), inner)))
                elif kind == 'for-body':
                    block = ('for', k_, N(0), N(0), inner)
                else:
                    block = ('if', ('bin', 'gt', V(n_), N(100)), ('if', ('bin', 'gt', V(n_), N(200)), inner, ('skip',)), ('skip',))
                if posn == 'after-block':
                    body = seq(('set', i_, ('bin', 'add', V(i_), N(1))), block, use)
                    after = []
                elif posn == 'outer-later':
                    body = seq(('set', i_, ('bin', 'add', V(i_), N(1))), ('if', ('bin', 'ge', V(n_), N(0)), seq(block, P(N(1))), ('skip',)), use)
                    after = []
                else:
                    body = seq(('set', i_, ('bin', 'add', V(i_), N(1))), block)
                    after = [use]
                t = fn(1, [(n_, 'int')], 'int', seq(*([('let', True, i_, 'int', N(0)), ('let', True, acc_, 'int', N(0)),
                                                       ('while', ('bin', 'lt', V(i_), N(2)), body)] + after + [('ret', V(acc_))])))
                m = fn(0, [], 'int', seq(P(('call', 1, [N(1)])), ('ret', N(0))))
                out['scope-exit:%s:%s:%s' % (kind, ending, posn)] = prog([t, m])
    return out
