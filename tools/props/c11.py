"""C11 -- instruction encoding and the textual assembly form are exact inverses.
Proof: NV/Props/Properties_C11.v over the table regenerated from isa.c (codec theorems; C11_asm_disasm_module for the text form,
with _refuted witnesses for every hypothesis the real tools need).
Correspondence: real isa_encode/isa_decode (ASan build of probes/isa_probe.c) vs extracted model, same lines; real
disasm_module/asm_assemble (probes/asm_probe.c) vs the extracted byte-level model NV.Isa.Asm: see c11_text.py."""
import os, json
import vlib
import c11_text

PATS = {1: [0, 1, 0x7f, 0x80, 0xff],
        2: [0, 1, 0xff, 0x100, 0x7fff, 0x8000, 0xffff, 0x1234],
        4: [0, 1, 0xff, 0xffff, 0x10000, 0x7fffffff, 0x80000000, 0xffffffff, 0x12345678, 0xfffffffb],
        8: [0, 1, 0xffffffff, 0x100000000, 0x7fffffffffffffff, 0x8000000000000000, 0xffffffffffffffff,
            0x0123456789abcdef, 0x7ff8000000000000, 0x7ff0000000000001, 0xfff8dead0000beef, 0x7ff0000000000000,
            0xfff0000000000000, 0x8000000000000000, 0x0000000000000001, 0x3ff0000000000000]}


def table_rows(b):
    """opcode -> list of operand sizes, from the generated table (same source the theorems use)."""
    rows = {}
    p = os.path.join(vlib.COQ, 'NV', 'gen', 'IsaTable.v')
    import re
    for m in re.finditer(r'^\s*\((\d+), \("([A-Z0-9_]+)", \[([^\]]*)\]\)\)', open(p).read(), re.M):
        ks = [k.strip() for k in m.group(3).split(';') if k.strip()]
        rows[int(m.group(1))] = [dict(KU8=1, KU16=2, KU32=4, KI32=4, KI64=8, KF64=8)[k] for k in ks]
    return rows


def gen_cases(ck, rows):
    rng = ck.rng
    lines = []
    # every opcode byte, defined or not
    for op in range(256):
        szs = rows.get(op)
        if szs is None:
            lines.append('enc %x' % op)
            lines.append('dec %02x' % op)
            lines.append('dec %02x%s' % (op, '00' * 12))
            lines.append('dec %02x%s' % (op, ''.join('%02x' % rng.randrange(256) for _ in range(rng.randrange(1, 16)))))
            continue
        combos = [[]]
        for s in szs:
            pats = PATS[s] if ck.thorough or len(szs) <= 2 else PATS[s][:6]
            combos = [c + [p] for c in combos for p in pats]
            if len(combos) > (4000 if ck.thorough else 300):
                rng.shuffle(combos); combos = combos[:(4000 if ck.thorough else 300)]
        extra = 40 if ck.thorough else 6
        for _ in range(extra):
            combos.append([rng.getrandbits(8 * s) for s in szs])
        for c in combos:
            lines.append('enc %x %s' % (op, ' '.join('%x' % v for v in c)))
            bs = bytes([op]) + b''.join(v.to_bytes(s, 'little') for v, s in zip(c, szs))
            lines.append('dec ' + bs.hex())
            lines.append('dec ' + bs.hex() + ''.join('%02x' % rng.randrange(256) for _ in range(rng.randrange(1, 6))))
        # every truncation of one encoding
        c = [rng.getrandbits(8 * s) for s in szs]
        bs = bytes([op]) + b''.join(v.to_bytes(s, 'little') for v, s in zip(c, szs))
        for k in range(len(bs)):
            lines.append('dec ' + (bs[:k].hex() or '-'))
        # wrong operand count handed to the encoder (the C ignores instr->operand_count)
    # raw random byte strings
    for _ in range(20000 if ck.thorough else 2000):
        n = rng.randrange(0, 20)
        lines.append('dec ' + (''.join('%02x' % rng.randrange(256) for _ in range(n)) or '-'))
    return lines


def compare(ck, lines, impl_out, model_out, engine):
    bad = 0
    for l, a, m in zip(lines, impl_out, model_out):
        f = l.split()
        nontrivial = not (a == 'err' and f[0] == 'dec' and len(f[1]) <= 2)
        ck.count(l, nontrivial)
        # the model refuses to encode when the caller supplies the wrong number of operands; the C reads the union anyway.
        if a != m:
            bad += 1
            ck.fail('c11:codec:' + l, 'isa codec differs from model on "%s": impl=%s model=%s' % (l, a, m),
                    dict(engine=engine, input=l, expected_model=m, observed_impl=a, correspondence='isa_probe vs nvref_c11'))
            if bad > 20:
                break
    if len(impl_out) != len(lines) or len(model_out) != len(lines):
        ck.fail('c11:codec:linecount', 'probe/model produced %d/%d answers for %d questions' % (len(impl_out), len(model_out), len(lines)),
                dict(correspondence='isa_probe vs nvref_c11'))
    return bad


def run(ck):
    b = ck.build('plain')
    ck.gen(['gen_isa', 'gen_asm'])
    proved = ck.prove()
    ref = ck.nvref('c11')
    probe = ck.probe('isa_probe.c', 'asan')
    aprobe = ck.probe('asm_probe.c', 'asan')
    rows = table_rows(b)
    lines = gen_cases(ck, rows)
    env = dict(os.environ, ASAN_OPTIONS='detect_leaks=0:abort_on_error=0', UBSAN_OPTIONS='halt_on_error=1')
    rc, o, e = vlib.sh([probe], input=('\n'.join(lines) + '\n').encode(), timeout=900, env=env)
    impl = o.splitlines()
    if rc != 0:
        # find the line the real code died on: it is the first unanswered one
        k = len(impl)
        ck.fail('c11:crash:' + (lines[k] if k < len(lines) else '?'), 'isa_probe crashed/sanitizer report (rc=%s)' % rc,
                dict(input=lines[k] if k < len(lines) else None, stderr=e[-3000:], engine='isa_probe(asan)'))
    model = vlib.run_lines(ref, lines)
    compare(ck, lines[:len(impl)], impl, model, 'isa_probe(asan)')
    # property-level checks on the implementation's own answers (independent of the model):
    # every 'enc' answer must decode back (next line is its 'dec') to the same operands
    for i, l in enumerate(lines[:len(impl) - 1]):
        if l.startswith('enc ') and impl[i].startswith('ok ') and lines[i + 1].startswith('dec '):
            f = l.split()[1:]
            want = 'ok %d %s' % (len(impl[i].split()[1]) // 2, ' '.join('%x' % int(x, 16) for x in f))
            if lines[i + 1].split()[1] == impl[i].split()[1] and impl[i + 1] != want:
                ck.fail('c11:roundtrip:' + l, 'decode(encode(i)) != i on the implementation: %s -> %s -> %s' % (l, impl[i], impl[i + 1]),
                        dict(input=l, encoded=impl[i], decoded=impl[i + 1], engine='isa_probe(asan)'))
    ck.cov['rule'] = ('all 256 opcode bytes x operand boundary patterns (per kind: 0,1,sign boundaries,max, float NaN payload/inf/-0) '
                      'x {exact, trailing junk, every truncation length} + random byte strings; non-trivial = not a bare undefined opcode byte; '
                      'distinct = distinct probe line')
    ck.sample(dict(q=lines[5], impl=impl[5], model=model[5]))
    k = next((i for i, l in enumerate(lines) if l.startswith('enc 68 ')), 0)
    ck.sample(dict(q=lines[k], impl=impl[k], model=model[k]))
    ck.extra['exhaustive'] = False
    ck.extra['opcodes_defined'] = len(rows)
    ck.extra['input_distribution'] = dict(enc=sum(l.startswith('enc') for l in lines), dec=sum(l.startswith('dec') for l in lines),
                                          model_err=sum(m == 'err' for m in model), model_ok=sum(m != 'err' for m in model))
    ck.trusted += ['translator tools/gen/dump_isa.c + gen_isa.py (prints the table through isa_get_info of the current isa.c)',
                   'extraction: ExtrOcamlBasic only (bool, option, unit, list, prod, sumbool, sumor; andb/orb inlined); extract/nvio.ml + c11_driver.ml',
                   'probes/isa_probe.c (operands passed as raw 64-bit patterns through the union; little-endian host assumed)',
                   'translator tools/gen/dump_asm.c + gen_asm.py (#includes assembler.c and disassembler.c, prints their limits, opcode and error constants)',
                   'float text oracle: Section variables print_f64/parse_f64 of NV.Isa.Asm stand for printf("%.17g")/strtod+errno; the theorems assume '
                   'parse_f64 (print_f64 v ++ rest) = Some (v, rest) and clean text only for the float patterns the module contains (hypothesis f64_oracle_ok); '
                   'checked against the libc on boundary and random patterns (coverage.float_oracle_on_libc); in nvref the oracle is OCaml Printf "%.17g" / float_of_string',
                   'probes/asm_probe.c (modules are built through nvm_add_string/nvm_add_function/nvm_append_code as nvm_deserialize does); '
                   'tools/props/c11_text.py (generators, judge_rt: equality of strings, function table and code)',
                   'assembler buffer sizes 64/64/256 (directive, mnemonic, function name) are literals inside assembler.c functions: '
                   'hand-copied into NV.Isa.Asm and exercised at 63/64, 127/128, 255/256 by the correspondence; the .string buffer is strlen(rest of line)+1, modelled as such and exercised at 4095/4096/5000']
    c11_text.text_half(ck, b, ref, aprobe)
    c11_text.replay_known(ck, aprobe)
    ck.cov['rule'] += ('; TEXT: every .nano under /repo/tests and /repo/examples that nano_virt --emit-nvm compiles + generated programs + synthetic modules '
                       '(every opcode x boundary operands, jump shapes, label/patch table limits, special string bytes, names, layouts, undecodable code, random modules): '
                       'real disasm text == model text byte for byte, real asm result == model result, and asm(disasm(m)) == m on strings/functions/code judged on the real tools; '
                       'hand-written/malformed/mutated texts through asm_assemble vs model; non-trivial = module text contains at least one instruction')
    ck.assumptions += ['the assembler never sees a line that ends in a lone backslash inside a .string directive (the C then reads past the line; model answers err 99, such mutated inputs are skipped and counted)',
                       'int32 arithmetic on jump offsets wraps (pos + rel computed mod 2^32), fn_off + fn_len < 2^32 for the modules disassembled',
                       'little-endian host; double <-> bit pattern via memcpy as in isa.c',
                       'operand values reach isa_encode through the DecodedInstruction union member of their kind (truncation to the kind width happens in the caller)']


def replay(ck, d):
    ck.build('plain'); ck.gen(['gen_isa', 'gen_asm'])
    ref = ck.nvref('c11'); probe = ck.probe('isa_probe.c', 'asan')
    if d.get('rkind') in ('rt', 'asm', 'f64'):
        return c11_text.replay(ck, d, ref, ck.probe('asm_probe.c', 'asan'))
    l = d.get('input')
    env = dict(os.environ, ASAN_OPTIONS='detect_leaks=0')
    rc, o, e = vlib.sh([probe], input=(l + '\n').encode(), env=env)
    m = vlib.run_lines(ref, [l])
    print('input:', l); print('impl :', o.strip(), '(rc=%s)' % rc); print('model:', m[0] if m else None)
    same = rc == 0 and o.strip() == (m[0] if m else None)
    print('REPRODUCED' if not same else 'not reproduced')
    return 0 if same else 1
