"""C14 -- the VM heap never frees or loses count of an object that is still referenced.
Proof: NV/Props/Properties_C14.v (heap model NV/Heap/Heap.v, opcode ownership model NV/Heap/Ops.v).
Implementation-side oracle: probes/heap_trace.c runs the module on the real VM with the hooks installed and AUDITS
the heap after every instruction (rc >= in-degree, every reference points at a registered live object).
Correspondence: the decoded instruction stream logged by the probe is replayed on the extracted model (nvref_c14);
required at every instruction boundary: same stack depth / frame count, same set of live objects with the same tags,
the same ref_count and the same in-degree, model invariant true, and "the model forgot a reference at this step"
<=> "the real ref_count excess over the in-degree grew at this step"."""
import os, sys, json, glob, re, hashlib, tempfile, shutil, collections
from concurrent.futures import ThreadPoolExecutor
import vlib

SCR = os.path.join(vlib.BUILD, 'c14')
CORPUS = os.path.join(vlib.VERIF, 'corpus', 'C14')
ENV = dict(os.environ, ASAN_OPTIONS='detect_leaks=0:abort_on_error=0', UBSAN_OPTIONS='halt_on_error=1:print_stacktrace=1')

# ------------------------------------------------------------------------------------------------ generator
from gen_churn14 import PRELUDE, CHURN, churn_program

TRAP_HELPERS = '''fn deep_get2(a: array<string>, i: int, keepalive: P) -> string {
    let local: array<string> = a
    return (at local i)
}
fn deep_get(a: array<string>, i: int) -> string {
    let p: P = (mkp "dg" [1, 2])
    return (deep_get2 a i p)
}
fn deep_set(a: array<string>, i: int, v: string) -> int {
    let t: (string, int) = (v, i)
    (array_set a i (+ v t.0))
    return (array_length a)
}
'''
COPY_HELPERS = '''fn keep_arr(a: array<int>) -> bool {
    return (> (array_length a) 0)
}
fn grow(a: array<int>) -> array<int> {
    return (array_push a 1)
}
fn keep_str(s: string) -> bool {
    return (> (str_length s) 0)
}
fn same_str(s: string) -> string {
    return s
}
fn slice_len_aai(a: array<array<int>>, lo: int, hi: int) -> int {
    let d: array<array<int>> = (array_slice a lo hi)
    return (array_length d)
}
fn slice_len_ap(a: array<P>, lo: int, hi: int) -> int {
    let d: array<P> = (array_slice a lo hi)
    let e: array<P> = (array_slice d 0 1)
    return (+ (array_length d) (array_length e))
}
fn slice_len_as(a: array<string>, lo: int, hi: int) -> int {
    let d: array<string> = (array_slice a lo hi)
    return (array_length d)
}
'''
STR_POOL = ['"a"', '"b"', '"ab"', '"alpha"', '"t1"', '""', '"x"', '"xy"']
TYPES = {'int': 'int', 'str': 'string', 'ai': 'array<int>', 'as': 'array<string>', 'aai': 'array<array<int>>',
         'aP': 'array<P>', 'P': 'P', 'Q': 'Q', 'T': '(string, int)', 'U': 'Shape', 'F': 'fn(int) -> int'}


class Gen:
    """Random, type-correct nano programs biased towards aliasing of heap objects."""
    def __init__(self, rng, leaky):
        self.rng = rng
        self.leaky = leaky           # richer construct set (remove_at, fn-value calls) + a trapping statement at the end of main
        self.n = 0
        self.feat = collections.Counter()

    def fresh(self, p='v'):
        self.n += 1
        return '%s%d' % (p, self.n)

    def pick(self, env, ty, mut=False):
        c = [v for v in env if v[1] == ty and (v[2] or not mut)]
        return self.rng.choice(c)[0] if c else None

    def expr(self, env, ty, d=0):
        r = self.rng
        v = self.pick(env, ty)
        if v and r.random() < (0.55 if ty != 'int' else 0.3):
            self.feat['alias:' + ty] += 1
            return v
        deep = d >= 2
        if ty == 'int':
            k = r.randrange(6)
            a = self.pick(env, 'ai')
            if k == 0 and a: return '(array_length %s)' % a
            s = self.pick(env, 'str')
            if k == 1 and s: return '(str_length %s)' % s
            if k == 2 and not deep: return '(+ %s %s)' % (self.expr(env, 'int', d + 1), self.expr(env, 'int', d + 1))
            p = self.pick(env, 'P')
            if k == 3 and p: return '%s.x' % p
            if k == 4 and s: return '(keep %s)' % s
            return str(r.randrange(0, 5))
        if ty == 'str':
            k = r.randrange(8)
            if k == 0 and not deep: return '(+ %s %s)' % (self.expr(env, 'str', d + 1), self.expr(env, 'str', d + 1))
            if k == 1 and not deep: return '(str2 %s)' % self.expr(env, 'str', d + 1)
            p = self.pick(env, 'P')
            if k == 2 and p: return '%s.name' % p
            if k == 3 and not deep: return '(int_to_string %s)' % self.expr(env, 'int', d + 1)
            t = self.pick(env, 'T')
            if k == 4 and t: return '%s.0' % t
            u = self.pick(env, 'U')
            if k == 5 and u: return '(shape_name %s)' % u
            if k == 6: return 'g_s'
            return r.choice(STR_POOL)
        if ty == 'ai':
            k = r.randrange(8)
            if k == 0 and not deep: return '(pass3 %s)' % self.expr(env, 'ai', d + 1)
            if k == 1 and not deep: return '(id_arr %s)' % self.expr(env, 'ai', d + 1)
            p = self.pick(env, 'P')
            if k == 2 and p: return '%s.items' % p
            a = self.pick(env, 'ai')
            if k == 3 and a: return '(array_slice %s %d %d)' % (a, r.randrange(0, 3), r.randrange(0, 4))
            if k == 4: return 'g_arr'
            if k == 5 and not deep: return '(swapg %s)' % self.expr(env, 'ai', d + 1)
            if k == 6 and not deep: return '(array_push %s %s)' % (self.expr(env, 'ai', d + 1), self.expr(env, 'int', d + 1))
            return '[%s]' % ', '.join(str(r.randrange(9)) for _ in range(r.randrange(1, 4)))
        if ty == 'as':
            k = r.randrange(6)
            q = self.pick(env, 'Q')
            if k == 0 and q: return '%s.tags' % q
            if k == 1: return 'g_names'
            a = self.pick(env, 'as')
            if k == 2 and a: return '(array_slice %s 0 %d)' % (a, r.randrange(0, 3))
            if k == 3 and not deep: return '(array_push %s %s)' % (self.expr(env, 'as', d + 1), self.expr(env, 'str', d + 1))
            if k == 4 and a: return r.choice(['(filter %s keep_str)', '(map %s same_str)']) % a
            return '[%s]' % ', '.join(self.expr(env, 'str', d + 2) for _ in range(r.randrange(1, 4)))
        if ty == 'aai':
            k = r.randrange(6)
            a = self.pick(env, 'aai')
            if k == 0 and a: return '(array_slice %s %d %d)' % (a, r.randrange(0, 2), r.randrange(1, 4))
            if k == 1 and a: return '(filter %s keep_arr)' % a
            if k == 2 and a: return '(map %s grow)' % a
            return '[%s]' % ', '.join(self.expr(env, 'ai', d + 2) for _ in range(r.randrange(1, 3)))
        if ty == 'aP':
            a = self.pick(env, 'aP')
            if a and r.random() < 0.4: return '(array_slice %s %d %d)' % (a, r.randrange(0, 2), r.randrange(1, 4))
            return '[%s]' % ', '.join(self.expr(env, 'P', d + 2) for _ in range(r.randrange(1, 3)))
        if ty == 'P':
            k = r.randrange(4)
            q = self.pick(env, 'Q')
            if k == 0 and q: return '%s.p' % q
            if k == 1: return '(mkp %s %s)' % (self.expr(env, 'str', d + 1), self.expr(env, 'ai', d + 1))
            return 'P { x: %s, name: %s, items: %s }' % (self.expr(env, 'int', d + 1), self.expr(env, 'str', d + 1), self.expr(env, 'ai', d + 1))
        if ty == 'Q':
            if r.random() < 0.5:
                return '(mkq %s %s)' % (self.expr(env, 'P', d + 1), self.expr(env, 'str', d + 1))
            return 'Q { p: %s, tags: %s }' % (self.expr(env, 'P', d + 1), self.expr(env, 'as', d + 1))
        if ty == 'T':
            return '(%s, %s)' % (self.expr(env, 'str', d + 1), self.expr(env, 'int', d + 1))
        if ty == 'U':
            return '(shape_of %d %s %s)' % (r.randrange(3), self.expr(env, 'str', d + 1), self.expr(env, 'as', d + 1))
        if ty == 'F':
            return 'dbl'
        raise ValueError(ty)

    def stmt(self, env, ind, depth):
        r = self.rng
        pad = '    ' * ind
        if r.random() < 0.14:
            dd = self.derive_drop(env, pad)
            if dd: return dd
        k = r.randrange(100)
        out = []
        if k < 30:
            ty = r.choice(['str', 'ai', 'as', 'P', 'Q', 'T', 'U', 'aai', 'aP', 'int', 'ai', 'str'])
            n = self.fresh()
            mut = r.random() < 0.5
            out.append('%slet %s%s: %s = %s' % (pad, 'mut ' if mut else '', n, TYPES[ty], self.expr(env, ty)))
            env.append((n, ty, mut))
            self.feat['let:' + ty] += 1
        elif k < 42:
            ty = r.choice(['str', 'ai', 'as', 'P', 'aai', 'aP'])
            v = self.pick(env, ty, mut=True)
            if v:
                out.append('%sset %s %s' % (pad, v, self.expr(env, ty)))
                self.feat['set:' + ty] += 1
        elif k < 54:
            ty = r.choice(['ai', 'as', 'aai', 'aP'])
            v = self.pick(env, ty, mut=True)
            el = {'ai': 'int', 'as': 'str', 'aai': 'ai', 'aP': 'P'}[ty]
            if v:
                out.append('%sset %s (array_push %s %s)' % (pad, v, v, self.expr(env, el)))
                self.feat['push:' + ty] += 1
        elif k < 62:
            ty = r.choice(['as', 'aai', 'ai', 'aP'])
            v = self.pick(env, ty)
            el = {'ai': 'int', 'as': 'str', 'aai': 'ai', 'aP': 'P'}[ty]
            if v:
                n = self.fresh()
                i = r.randrange(0, 3)
                out.append('%sif (> (array_length %s) %d) {' % (pad, v, i))
                out.append('%s    let %s: %s = (at %s %d)' % (pad, n, TYPES[el], v, i))
                if el == 'str': out.append('%s    let %s: int = (keep %s)' % (pad, self.fresh(), n))
                if el == 'ai':
                    w = self.pick(env, 'aai', mut=True)
                    if w: out.append('%s    set %s (array_push %s %s)' % (pad, w, w, n))
                out.append('%s} else {' % pad)
                out.append('%s    (println 0)' % pad)
                out.append('%s}' % pad)
                self.feat['get:' + ty] += 1
        elif k < 68:
            ty = r.choice(['as', 'aai', 'ai', 'aP'])
            v = self.pick(env, ty)
            el = {'ai': 'int', 'as': 'str', 'aai': 'ai', 'aP': 'P'}[ty]
            if v:
                i = r.randrange(0, 3)
                if False: pass
                else: out.append('%sif (> (array_length %s) %d) {' % (pad, v, i))
                out.append('%s    (array_set %s %d %s)' % (pad, v, i, self.expr(env, el)))
                if i != 9: out.append('%s} else {\n%s    (println 1)\n%s}' % (pad, pad, pad))
                self.feat['aset:' + ty + (':oob' if i == 9 else '')] += 1
        elif k < 73:
            ty = r.choice(['as', 'aai', 'ai', 'aP'])
            v = self.pick(env, ty, mut=True)
            el = {'ai': 'int', 'as': 'str', 'aai': 'ai', 'aP': 'P'}[ty]
            if v:
                n = self.fresh()
                out.append('%sif (> (array_length %s) 0) {' % (pad, v))
                out.append('%s    let %s: %s = (array_pop %s)' % (pad, n, TYPES[el], v))
                out.append('%s} else {\n%s    (println 2)\n%s}' % (pad, pad, pad))
                self.feat['apop:' + ty] += 1
        elif k < 76:
            ty = r.choice(['as', 'aai', 'ai', 'aP'])
            v = self.pick(env, ty, mut=True)
            if v:
                j = r.randrange(0, 2)
                out.append('%sif (> (array_length %s) %d) {' % (pad, v, j))
                out.append('%s    set %s (array_remove_at %s %d)' % (pad, v, v, j))
                out.append('%s} else {\n%s    (println 6)\n%s}' % (pad, pad, pad))
                self.feat['aremove:' + ty] += 1
        elif k < 79:
            n = self.fresh('f')
            out.append('%slet %s: fn(int) -> int = dbl' % (pad, n))
            out.append('%slet %s: int = (%s %s)' % (pad, self.fresh(), n, self.expr(env, 'int')))
            self.feat['fnvalue'] += 1
        elif k < 84:
            ty = r.choice(['str', 'int', 'str'])
            out.append('%s(println %s)' % (pad, self.expr(env, ty)))
            self.feat['print'] += 1
        elif k < 92 and depth < 2:
            i = self.fresh('i')
            cnt = r.randrange(1, 4)
            out.append('%slet mut %s: int = 0' % (pad, i))
            out.append('%swhile (< %s %d) {' % (pad, i, cnt))
            inner = list(env)
            for _ in range(r.randrange(1, 5)):
                out += self.stmt(inner, ind + 1, depth + 1)
            out.append('%s    set %s (+ %s 1)' % (pad, i, i))
            out.append('%s}' % pad)
            self.feat['while'] += 1
        elif k < 97 and depth < 2:
            c = self.expr(env, 'int')
            out.append('%sif (> %s %d) {' % (pad, c, r.randrange(0, 4)))
            inner = list(env)
            for _ in range(r.randrange(1, 4)):
                out += self.stmt(inner, ind + 1, depth + 1)
            out.append('%s} else {' % pad)
            inner = list(env)
            for _ in range(r.randrange(1, 3)):
                out += self.stmt(inner, ind + 1, depth + 1)
            out.append('%s}' % pad)
            self.feat['if'] += 1
        else:
            s1, s2 = r.choice(STR_POOL), r.choice(STR_POOL)
            out.append('%s(println (== %s (+ %s %s)))' % (pad, self.expr(env, 'str'), s1, s2))
            self.feat['streq'] += 1
        return out

    def program(self):
        r = self.rng
        body = []
        wenv = [('a', 'ai', False), ('s', 'str', False), ('p', 'P', False)]
        wb = []
        for _ in range(r.randrange(2, 7)):
            wb += self.stmt(wenv, 1, 1)
        work = 'fn work(a: array<int>, s: string, p: P) -> array<string> {\n%s\n    return [s, p.name, %s]\n}\n' % (
            '\n'.join(wb), self.expr(wenv, 'str'))
        env = []
        for ty in ['ai', 'str', 'as', 'aai', 'aP']:
            n = self.fresh()
            body.append('    let mut %s: %s = %s' % (n, TYPES[ty], self.expr(env, ty)))
            env.append((n, ty, True))
        for _ in range(r.randrange(4, 14)):
            body += self.stmt(env, 1, 0)
            if r.random() < 0.25:
                n = self.fresh('w')
                body.append('    let %s: array<string> = (work %s %s %s)' % (n, self.expr(env, 'ai'), self.expr(env, 'str'), self.expr(env, 'P')))
                env.append((n, 'as', False))
        if self.rng.random() < 0.15:
            body += self.bcast_ender(env)
        elif self.leaky:
            body += self.trap_ender(env)
        return PRELUDE + TRAP_HELPERS + COPY_HELPERS + work + 'fn main() -> int {\n' + '\n'.join(body) + '\n    return 0\n}\n'

    def derive_drop(self, env, pad):
        """element-copying operation over an array whose ELEMENTS are heap objects (nested arrays, structs, strings; the code
        generator tags most of these arrays TAG_INT), the derived array dies (callee returns / overwritten / emptied) while
        the source stays in use, then the source's elements are read again"""
        r = self.rng
        ty = r.choice(['aai', 'aP', 'as', 'aai', 'aP'])
        el = {'as': 'str', 'aai': 'ai', 'aP': 'P'}[ty]
        S = self.pick(env, ty)
        if not S:
            return None
        T = TYPES[ty]
        lo, hi = r.randrange(0, 2), r.randrange(1, 4)
        form = r.randrange(7)
        out = []
        d = self.fresh('d')
        if form == 0:      # slice made and dropped inside a callee
            out.append('%slet %s: int = (slice_len_%s %s %d %d)' % (pad, self.fresh(), ty.lower(), S, lo, hi))
        elif form == 1:    # slice overwritten by another slice, then by an empty one
            out.append('%slet mut %s: %s = (array_slice %s %d %d)' % (pad, d, T, S, lo, hi))
            out.append('%sset %s (array_slice %s %d %d)' % (pad, d, S, 0, hi))
            out.append('%sset %s (array_slice %s 0 0)' % (pad, d, S))
        elif form == 2:    # slice of a slice, inner one dropped first
            d2 = self.fresh('d')
            out.append('%slet mut %s: %s = (array_slice %s 0 %d)' % (pad, d, T, S, hi + 1))
            out.append('%slet mut %s: %s = (array_slice %s 0 1)' % (pad, d2, T, d))
            out.append('%sset %s (array_slice %s 0 0)' % (pad, d2, S))
            out.append('%sset %s (array_slice %s 0 0)' % (pad, d, S))
        elif form == 3:    # slices dropped by the next loop iteration (slot overwritten)
            i = self.fresh('i')
            out.append('%slet mut %s: int = 0' % (pad, i))
            out.append('%swhile (< %s 3) {' % (pad, i))
            out.append('%s    let %s: %s = (array_slice %s %s %d)' % (pad, d, T, S, i, hi + 1))
            out.append('%s    set %s (+ %s 1)' % (pad, i, i))
            out.append('%s}' % pad)
        elif form == 4 and ty != 'aP':   # filter / map result dropped
            fn = {'aai': r.choice(['(filter %s keep_arr)', '(map %s grow)']), 'as': r.choice(['(filter %s keep_str)', '(map %s same_str)'])}[ty]
            out.append('%slet mut %s: %s = %s' % (pad, d, T, fn % S))
            out.append('%sset %s (array_slice %s 0 0)' % (pad, d, S))
        elif form == 5:    # literal rebuilt from elements of the source, then emptied by pops
            out.append('%sif (> (array_length %s) 1) {' % (pad, S))
            out.append('%s    let mut %s: %s = [(at %s 0), (at %s 1), (at %s 0)]' % (pad, d, T, S, S, S))
            out.append('%s    let %s: %s = (array_pop %s)' % (pad, self.fresh(), TYPES[el], d))
            out.append('%s    set %s (array_remove_at %s 0)' % (pad, d, d))
            out.append('%s} else {\n%s    (println 3)\n%s}' % (pad, pad, pad))
        else:              # slice pushed into / removed from another container
            out.append('%slet mut %s: %s = (array_slice %s %d %d)' % (pad, d, T, S, lo, hi))
            out.append('%sset %s (array_push %s %s)' % (pad, d, d, self.expr(env, el)))
            out.append('%sset %s (array_slice %s 0 0)' % (pad, d, d))
        # the source is still in use: read its elements again
        e = self.fresh('e')
        use = {'str': '(str_length %s)' % e, 'ai': '(array_length %s)' % e, 'P': '(str_length %s.name)' % e}[el]
        out.append('%sif (> (array_length %s) %d) {' % (pad, S, lo))
        out.append('%s    let %s: %s = (at %s %d)' % (pad, e, TYPES[el], S, lo))
        out.append('%s    (println %s)' % (pad, use))
        out.append('%s} else {\n%s    (println 4)\n%s}' % (pad, pad, pad))
        self.feat['derive_drop:%s:%d' % (ty, form)] += 1
        return out

    def bcast_ender(self, env):
        """string broadcast + (array + scalar) builds a TAG_INT array of fresh strings: slice it, drop the slice, read the source.
        Element-wise array arithmetic is outside the Coq model, so this comes last (the rest of the program is audited only)."""
        S = self.pick(env, 'as')
        if not S:
            return []
        b, d, e = self.fresh('b'), self.fresh('d'), self.fresh('e')
        self.feat['bcast_ender'] += 1
        return ['    let %s: array<string> = (+ %s "!")' % (b, S),
                '    let mut %s: array<string> = (array_slice %s 0 2)' % (d, b),
                '    set %s (array_slice %s 0 0)' % (d, b),
                '    let %s: int = (slice_len_as %s 0 3)' % (self.fresh(), b),
                '    if (> (array_length %s) 0) {' % b,
                '        let %s: string = (at %s 0)' % (e, b),
                '        (println %s)' % e,
                '    } else {', '        (println 5)', '    }']

    def trap_ender(self, env):
        """a last statement that makes the VM trap with references in flight: out-of-range get / set / remove (index past the
        end, negative, or 2^32 + small which is in range after a 32-bit narrowing), pop of an empty array; in main or two frames down"""
        r = self.rng
        ty = r.choice(['as', 'aai', 'ai', 'aP'])
        el = {'ai': 'int', 'as': 'str', 'aai': 'ai', 'aP': 'P'}[ty]
        a = self.pick(env, ty)
        if not a:
            a = self.fresh(); pre = ['    let mut %s: %s = %s' % (a, TYPES[ty], self.expr(env, ty))]
        else:
            pre = []
        idx = r.choice(['99', '(array_length %s)' % a, '-1', '4294967296', '(+ 4294967296 (array_length %s))' % a])
        k = r.randrange(6)
        self.feat['trap_ender:%d' % k] += 1
        if k == 0: return pre + ['    let %s: %s = (at %s %s)' % (self.fresh(), TYPES[el], a, idx)]
        if k == 1: return pre + ['    (array_set %s %s %s)' % (a, idx, self.expr(env, el))]
        if k == 2: return pre + ['    let %s: %s = (array_remove_at %s %s)' % (self.fresh(), TYPES[ty], a, idx)]
        if k == 3:
            e = self.fresh()
            return ['    let mut %s: array<string> = []' % e, '    let %s: string = (array_pop %s)' % (self.fresh(), e)]
        if k == 4: return ['    let %s: string = (deep_get %s %s)' % (self.fresh(), self.expr(env, 'as'), idx.replace(a, 'g_names'))]
        return ['    let %s: int = (deep_set %s %s %s)' % (self.fresh(), self.expr(env, 'as'), idx.replace(a, 'g_names'), self.expr(env, 'str'))]


# ------------------------------------------------------------------------------------------------ bytecode generator
class AsmGen:
    """Random NanoISA assembly (stack-consistent, mostly well-typed) using opcodes and operand patterns the compiler never
    emits: STRUCT_SET, STRUCT_NEW, ROT3/SWAP/DUP over references, an array pushed into itself, stores over the popped slot,
    CLOSURE_CALL / CALL_INDIRECT of closures with captures, LOAD/STORE_UPVALUE, nested calls."""
    def __init__(self, rng, leaky):
        self.r = rng; self.leaky = leaky; self.feat = collections.Counter(); self.nl = 0

    def label(self):
        self.nl += 1
        return 'L%d' % self.nl

    def etag(self):
        """VmArray.elem_type operand: every tag value, scalar tags most of the time (the compiler's default is TAG_INT = 1
        whatever the elements are), independent of what is stored in the array"""
        return 1 if self.r.random() < 0.4 else self.r.randrange(0, 15)

    def body(self, nloc, n_ops, can_call):
        r = self.r
        st = []                     # abstract operand stack: 'i' int, 's' str, 'a' arr, ('S', n) struct, ('T', n) tuple, ('U', n) union, 'c' closure, '?' unknown
        loc = ['v'] * nloc
        out = []
        def emit(x): out.append('  ' + x)
        def push_any():
            k = r.randrange(7)
            if k == 0: emit('PUSH_I64 %d' % r.randrange(4)); st.append('i')
            elif k == 1: emit('PUSH_STR %d' % r.randrange(4)); st.append('s')
            elif k == 2: emit('ARR_NEW %d' % self.etag()); st.append('a')
            elif k == 3 and any(t != 'v' for t in loc):
                i = r.choice([j for j, t in enumerate(loc) if t != 'v']); emit('LOAD_LOCAL %d' % i); st.append(loc[i])
            elif k == 4: emit('LOAD_GLOBAL %d' % r.randrange(3)); st.append('?')
            elif k == 5 and st: emit('DUP'); st.append(st[-1])
            else: emit('PUSH_STR %d' % r.randrange(4)); st.append('s')
        for _ in range(n_ops):
            k = r.randrange(100)
            top = st[-1] if st else None
            if k < 22 or len(st) < 1:
                push_any()
            elif k < 30:
                i = r.randrange(nloc); emit('STORE_LOCAL %d' % i); loc[i] = st.pop(); self.feat['store'] += 1
            elif k < 34:
                emit('STORE_GLOBAL %d' % r.randrange(3)); st.pop()
            elif k < 40:
                emit('POP'); st.pop()
            elif k < 45 and len(st) >= 2:
                emit('SWAP'); st[-1], st[-2] = st[-2], st[-1]; self.feat['swap'] += 1
            elif k < 49 and len(st) >= 3:
                emit('ROT3'); a = st.pop(); b = st.pop(); c = st.pop(); st += [a, c, b]; self.feat['rot3'] += 1
            elif k < 56 and len(st) >= 2 and st[-2] == 'a':
                emit('ARR_PUSH'); st.pop(); self.feat['arr_push'] += 1
            elif k < 59 and top == 'a':
                emit('DUP'); emit('ARR_PUSH'); self.feat['self_push'] += 1           # array pushed into itself: a cycle
            elif k < 63 and top == 'a':
                # out of range now traps: guard on the length (both branches leave [?, a]); sometimes unguarded on purpose
                if r.random() < 0.06:
                    emit('ARR_POP'); self.feat['arr_pop_unguarded'] += 1
                else:
                    la, lb = self.label(), self.label()
                    emit('DUP'); emit('ARR_LEN'); emit('PUSH_I64 0'); emit('GT'); emit('JMP_FALSE %s' % la)
                    emit('ARR_POP'); emit('JMP %s' % lb); out.append(la + ':'); emit('PUSH_VOID'); emit('SWAP'); out.append(lb + ':')
                st.pop(); st += ['?', 'a']; self.feat['arr_pop'] += 1
            elif k < 68 and top == 'a':
                j = r.randrange(3)
                if r.random() < 0.06:
                    emit('PUSH_I64 %s' % r.choice(['7', '-1', '4294967296'])); emit('ARR_GET'); self.feat['arr_get_unguarded'] += 1
                else:
                    la, lb = self.label(), self.label()
                    emit('DUP'); emit('ARR_LEN'); emit('PUSH_I64 %d' % j); emit('GT'); emit('JMP_FALSE %s' % la)
                    emit('PUSH_I64 %d' % j); emit('ARR_GET'); emit('JMP %s' % lb); out.append(la + ':'); emit('POP'); emit('PUSH_VOID'); out.append(lb + ':')
                st.pop(); st.append('?'); self.feat['arr_get'] += 1
            elif k < 72 and len(st) >= 2 and st[-2] == 'a':
                st.pop()
                j = r.randrange(2)
                # stack [.. a v]; ARR_SET wants a idx v; both branches leave [a]
                if r.random() < 0.06:
                    emit('PUSH_I64 %s' % r.choice(['7', '-1', '4294967296'])); emit('SWAP'); emit('ARR_SET'); self.feat['arr_set_unguarded'] += 1
                else:
                    la, lb = self.label(), self.label()
                    emit('SWAP'); emit('DUP'); emit('ARR_LEN'); emit('PUSH_I64 %d' % j); emit('GT'); emit('JMP_FALSE %s' % la)
                    emit('SWAP'); emit('PUSH_I64 %d' % j); emit('SWAP'); emit('ARR_SET'); emit('JMP %s' % lb)
                    out.append(la + ':'); emit('SWAP'); emit('POP'); out.append(lb + ':')
                self.feat['arr_set'] += 1
            elif k < 78 and top == 'a':
                if r.random() < 0.3:
                    emit('PUSH_I64 0'); emit('PUSH_I64 %d' % r.randrange(3)); emit('ARR_SLICE'); self.feat['slice'] += 1
                else:
                    # the source stays (on the stack / in a local), the slice is made, inspected and dropped, then the source is read again
                    # make sure a reference is in it, whatever the array's element tag says
                    emit(r.choice(['PUSH_STR %d' % r.randrange(4), 'ARR_NEW %d' % self.etag(), 'LOAD_GLOBAL 0'])); emit('ARR_PUSH')
                    emit('DUP'); emit('PUSH_I64 %d' % r.randrange(2)); emit('PUSH_I64 %d' % r.randrange(1, 4)); emit('ARR_SLICE')
                    w = r.randrange(3)
                    if w == 0: emit('POP')
                    elif w == 1: emit('DUP'); emit('ARR_LEN'); emit('POP'); emit('POP')
                    else:
                        i = r.randrange(nloc); emit('STORE_LOCAL %d' % i); emit('PUSH_VOID'); emit('STORE_LOCAL %d' % i); loc[i] = 'v'
                    la, lb = self.label(), self.label()
                    emit('DUP'); emit('DUP'); emit('ARR_LEN'); emit('PUSH_I64 0'); emit('GT'); emit('JMP_FALSE %s' % la)
                    emit('PUSH_I64 0'); emit('ARR_GET'); emit('JMP %s' % lb); out.append(la + ':'); emit('POP'); emit('PUSH_VOID'); out.append(lb + ':')
                    emit('POP')
                    self.feat['slice_drop_reread'] += 1
            elif k < 76 and top == 'a':
                if r.random() < 0.06:
                    emit('PUSH_I64 %s' % r.choice(['7', '-1', '4294967296'])); emit('ARR_REMOVE'); self.feat['remove_unguarded'] += 1
                else:
                    la = self.label()
                    emit('DUP'); emit('ARR_LEN'); emit('PUSH_I64 0'); emit('GT'); emit('JMP_FALSE %s' % la)
                    emit('PUSH_I64 0'); emit('ARR_REMOVE'); out.append(la + ':')
                self.feat['remove'] += 1
            elif k < 82:
                n = r.randrange(0, min(3, len(st)) + 1)
                kind = r.choice(['S', 'T', 'U', 'L', 'C'])
                for _ in range(n): st.pop()
                if kind == 'S': emit('STRUCT_LITERAL 0 %d' % n); st.append(('S', n))
                elif kind == 'T': emit('TUPLE_NEW %d' % n); st.append(('T', n))
                elif kind == 'U': emit('UNION_CONSTRUCT 0 1 %d' % n); st.append(('U', n))
                elif kind == 'L': emit('ARR_LITERAL %d %d' % (self.etag(), n)); st.append('a')
                else: emit('CLOSURE_NEW 1 %d' % n); st.append(('c', n))
                self.feat['construct:' + kind] += 1
                if kind == 'S' and n > 0 and r.random() < 0.5:
                    push_any(); st.pop(); emit('STRUCT_SET %d' % r.randrange(n)); self.feat['struct_set'] += 1
                if kind == 'C' and can_call and r.random() < 0.5:
                    emit('DUP'); emit('PUSH_I64 1'); emit('SWAP'); emit(r.choice(['CALL_INDIRECT', 'CLOSURE_CALL'])); st.append('?')
                    self.feat['closure_call'] += 1
            elif k < 87 and isinstance(top, tuple) and top[0] in 'STU' and top[1] > 0:
                j = r.randrange(top[1]); st.pop(); st.append('?')
                emit({'S': 'STRUCT_GET', 'T': 'TUPLE_GET', 'U': 'UNION_FIELD'}[top[0]] + ' %d' % j); self.feat['field_get'] += 1
            elif k < 91 and len(st) >= 2 and isinstance(st[-2], tuple) and st[-2][0] == 'S' and st[-2][1] > 0:
                j = r.randrange(st[-2][1]); st.pop(); emit('STRUCT_SET %d' % j); self.feat['struct_set'] += 1
            elif k < 94 and len(st) >= 2 and st[-1] == 's' and st[-2] == 's':
                emit(r.choice(['STR_CONCAT', 'ADD', 'EQ', 'STR_EQ'])); st.pop(); st.pop(); st.append('s'); st[-1] = '?'
            elif k < 97 and can_call and isinstance(top, tuple) and top[0] == 'c':
                # call the closure (function 1: arity 1): argument below the closure
                emit('PUSH_I64 1'); emit('SWAP'); emit(r.choice(['CALL_INDIRECT', 'CLOSURE_CALL'])); st.pop(); st.append('?')
                self.feat['closure_call'] += 1
            elif k < 99 and can_call:
                emit('PUSH_STR %d' % r.randrange(4)); emit('CALL 2'); st.append('?'); self.feat['call'] += 1
            else:
                push_any()
        return out, st

    def program(self):
        r = self.r
        nloc = r.randrange(2, 6)
        main, st = self.body(nloc, r.randrange(10, 60), True)
        f1, _ = self.body(3, r.randrange(0, 8), False)
        f2, _ = self.body(2, r.randrange(0, 8), False)
        t = ['.string "k0"', '.string "k1"', '.string ""', '.string "k0k1"', '.entry 0', '.function main 0 %d 0' % nloc] + main
        t += ['  PUSH_I64 0', '  RET', '.end']
        # function 1: arity 1, reads / writes its first capture when called through a closure
        t += ['.function clo 1 3 1', '  LOAD_UPVALUE 0 0', '  STORE_LOCAL 1', '  LOAD_LOCAL 0', '  STORE_UPVALUE 0 0'] + f1 + ['  LOAD_LOCAL 1', '  RET', '.end']
        t += ['.function pass 1 2 0'] + f2 + ['  LOAD_LOCAL 0', '  RET', '.end']
        return '\n'.join(t) + '\n'


# ------------------------------------------------------------------------------------------------ running
def compile_nvm(b, src, out):
    rc, o, e = vlib.sh([b.bin('nano_virt'), src, '--emit-nvm', '-o', out], timeout=30, cwd=b.root)
    return rc == 0 and os.path.exists(out), (o + e)[-600:]


def run_probe(probe, nvm, max_steps=20000, timeout=60, audit_every=1):
    rc, o, e = vlib.sh([probe, nvm, str(max_steps), str(audit_every)], timeout=timeout, env=ENV)
    return rc, o, e


class Step:
    __slots__ = ('i', 'iline', 'op', 'events', 'stack', 'frames', 'live', 'v')


def parse_trace(text):
    """-> (steps, vlines, elines, xlines, dline).  A/F/V lines printed before an I line belong to that instruction."""
    steps, ev, vl, el, xl, dl = [], [], [], [], [], None
    cur = None
    for l in text.splitlines():
        if not l:
            continue
        c = l[0]
        if c == 'I':
            f = l.split()
            if len(f) < 6 or ' | d ' not in l:
                continue                               # cut short by a crash
            cur = Step(); cur.iline = l; cur.i = int(f[1]); cur.op = f[4]; cur.events = ev; ev = []
            cur.stack = cur.frames = None; cur.live = None; cur.v = []
            steps.append(cur)
        elif c in 'AF':
            ev.append(l)
        elif c == 'S' and cur is not None:
            try:
                f = l.split()
                live = {}
                for t in f[4:]:
                    o, tag, rc, ind = t.split(':')
                    live[int(o)] = (int(tag), int(rc), int(ind))
                cur.stack, cur.frames, cur.live = int(f[2]), int(f[3]), live
            except (ValueError, IndexError):
                pass                                   # line cut short by a crash of the probed VM
        elif c == 'V':
            vl.append(l)
            if cur is not None: cur.v.append(l)
        elif c == 'E':
            el.append(l)
        elif c == 'X':
            xl.append(l)
        elif c == 'D':
            dl = l
    return steps, vl, el, xl, dl


def excess(live):
    return sum(rc - ind for (_, rc, ind) in live.values())


def leak_events(steps):
    """[(step, opname, grown objects)]: instructions after which ref_count - in-degree grew on the real VM."""
    out = []
    prev = {}
    for s in steps:
        if s.live is None:
            continue
        grown = [(o, t, rc, ind) for o, (t, rc, ind) in s.live.items() if rc - ind > prev.get(o, 0)]
        if grown:
            out.append((s.i, s.op, grown))
        prev = {o: rc - ind for o, (t, rc, ind) in s.live.items()}
    return out


def model_run(ref, steps):
    lines = ['R'] + [s.iline for s in steps if s.op != 'DESTROY']
    out = vlib.run_lines(ref, lines, timeout=300)
    return out[1:]


# opcodes all of whose trap conditions are visible to the model (operand kinds, index / field / local ranges)
SCALAR_TAGS = {0, 1, 2, 3, 4, 9, 14}      # void int u8 float bool enum opaque: element tags under which nothing looks like a reference
COMPLETE_TRAP_OPS = {'ARR_PUSH', 'ARR_POP', 'ARR_GET', 'ARR_SET', 'ARR_REMOVE', 'ARR_SLICE', 'STRUCT_GET', 'STRUCT_SET', 'UNION_FIELD',
                     'TUPLE_GET', 'STR_CONCAT', 'LOAD_LOCAL', 'STORE_LOCAL', 'LOAD_GLOBAL', 'STORE_GLOBAL'}


def compare(steps, mout, vm_error, err_msg=''):
    """-> (n_compared, mismatch or None, unsupported or None)."""
    n = 0
    prev_ex = 0
    real = [s for s in steps if s.op != 'DESTROY']
    for k, (s, m) in enumerate(zip(real, mout)):
        if m.startswith('U '):
            return n, None, '%s at step %d (%s)' % (m, s.i, s.op)
        if m.startswith('X ') or m == 'bad':
            return n, dict(step=s.i, op=s.op, what='model outcome %s' % m, iline=s.iline), None
        if s.live is None:
            return n, dict(step=s.i, op=s.op, what='no state line from the probe', iline=s.iline), None
        f = m.split()
        ms, mf, mleak, minv, mexact, mtrap = int(f[1]), int(f[2]), int(f[3]), int(f[4]), int(f[5]), int(f[6])
        mlive = {}
        for t in f[7:]:
            o, tag, rc, ind = t.split(':')
            mlive[int(o)] = (int(tag), int(rc), int(ind))
        last = k == len(real) - 1
        bad = None
        if set(mlive) != set(s.live):
            bad = 'live sets differ: only-real=%s only-model=%s' % (sorted(set(s.live) - set(mlive))[:5], sorted(set(mlive) - set(s.live))[:5])
        else:
            for o in s.live:
                rt, rrc, rind = s.live[o]; mt, mrc, mind = mlive[o]
                if rt != mt: bad = 'object %d tag real=%d model=%d' % (o, rt, mt); break
                if rrc != mrc: bad = 'object %d ref_count real=%d model=%d (%s)' % (o, rrc, mrc, 'real<model' if rrc < mrc else 'real>model'); break
                if rind != mind: bad = 'object %d in-degree real=%d model=%d' % (o, rind, mind); break
        # trap behaviour: a model trap is terminal on the real VM; for the opcodes whose trap conditions the model sees
        # completely, a real trap at that opcode must be a model trap
        if bad is None and mtrap == 1 and not (last and vm_error):
            bad = 'model says the opcode traps, the real VM went on'
        if bad is None and last and vm_error and mtrap == 0 and s.op in COMPLETE_TRAP_OPS and 'budget exhausted' not in err_msg:
            bad = 'real VM trapped (%s), the model does not' % err_msg[:60]
        if bad is None and not (last and vm_error and mtrap == 0) and (ms != s.stack or mf != s.frames):
            bad = 'stack/frames real=%d/%d model=%d/%d' % (s.stack, s.frames, ms, mf)
        if bad is None and minv == 0:
            bad = 'model invariant false'
        ex = excess(s.live)
        if bad is None and (ex > prev_ex) != (mleak == 1):
            bad = 'leak flag: model=%d real excess %d -> %d' % (mleak, prev_ex, ex)
        prev_ex = ex
        if bad:
            return n, dict(step=s.i, op=s.op, what=bad, iline=s.iline, real=s.live, model=mlive), None
        n += 1
    if len(mout) < len(real):
        return n, dict(step=-1, op='?', what='model answered %d of %d instructions' % (len(mout), len(real))), None
    return n, None, None


class Runner:
    def __init__(self, ck):
        self.ck = ck
        self.b = ck.build('plain')
        self.probe = ck.probe('heap_trace.c', 'plain')
        self.probe_asan = ck.probe('heap_trace.c', 'asan')
        self.ref = ck.nvref('c14')
        self.basan = ck.build('asan')
        os.makedirs(SCR, exist_ok=True)
        self.stats = collections.Counter()
        self.ops = collections.Counter()
        self.leak_ops = collections.Counter()
        self.unsupported = collections.Counter()
        self.traps = collections.Counter()
        self.slices = collections.Counter()

    def one(self, name, src_text, asan=False, max_steps=20000, src_path=None, audit_every=1):
        """compile + trace + model.  -> dict.  Text starting with '.' is NanoISA assembly, anything else nano source.
        src_path: compile that file in place (repository programs with relative imports) instead of a scratch copy."""
        h = hashlib.sha1(src_text.encode()).hexdigest()[:12]
        if src_path:
            src = src_path; nvm = os.path.join(SCR, '%s_%s.nvm' % (name, h))
            ok, msg = compile_nvm(self.b, src, nvm)
            if not ok:
                return dict(name=name, status='nocompile', msg=msg, src=src)
        elif src_text.lstrip().startswith('.'):
            src = nvm = os.path.join(SCR, '%s_%s.asm' % (name, h))
            open(src, 'w').write(src_text)
        else:
            src = os.path.join(SCR, '%s_%s.nano' % (name, h)); nvm = src[:-5] + '.nvm'
            open(src, 'w').write(src_text)
            ok, msg = compile_nvm(self.b, src, nvm)
            if not ok:
                return dict(name=name, status='nocompile', msg=msg, src=src)
        rc, o, e = run_probe(self.probe_asan if asan else self.probe, nvm, max_steps, timeout=60 if audit_every == 1 else 240, audit_every=audit_every)
        res = dict(name=name, status='ran', rc=rc, src=src, nvm=nvm, stderr=e[-1500:])
        steps, vl, el, xl, dl = parse_trace(o)
        res.update(steps=steps, v=vl, e=el, x=xl, d=dl)
        if rc not in (0, 1, 10):
            res['status'] = 'crash'
            res['last'] = steps[-1].iline if steps else None
            return res
        res['vm_error'] = any(l.split()[1] != '0' for l in el)
        res['leaks'] = leak_events(steps)
        res['err_msg'] = (el[-1].split(None, 5)[-1] if el and len(el[-1].split(None, 5)) > 5 else '') if res['vm_error'] else ''
        if audit_every != 1:
            # sparse trace of a very long run: audited on the real VM only (the sampled stream cannot be replayed)
            res['compared'], res['mismatch'], res['unsupported'] = 0, None, None
            return res
        try:
            mout = model_run(self.ref, steps)
        except Exception as ex:
            res['model_exc'] = str(ex)[-500:]
            mout = []
        res['compared'], res['mismatch'], res['unsupported'] = compare(steps, mout, res['vm_error'], res['err_msg'])
        return res


def judge(ck, R, res, src_text, kind):
    """turn one program's result into counts / failures.  Returns True when something failed."""
    name = res['name']
    R.stats[res['status']] += 1
    if res['status'] == 'nocompile':
        return False
    rep = dict(program=src_text, source_kind=kind, name=name)
    if res['status'] == 'crash':
        lastop = (res.get('last') or '? ? ? ? ?').split()[4]
        if res['v']:
            vst = res['v'][0].split()[1]
            vop = next((s.op for s in res['steps'] if str(s.i) == vst), lastop)
            ck.fail('c14:audit:%s:%s' % (res['v'][0].split()[2], vop), 'heap audit on the real VM: %s (then the VM crashed, rc=%s)' % (res['v'][0], res['rc']),
                    dict(rep, violation=res['v'][:5], stderr=res['stderr'], engine='heap_trace audit'))
        else:
            ck.fail('c14:crash:' + lastop, 'real VM crashed / sanitizer report (rc=%s) after %s' % (res['rc'], res.get('last')),
                    dict(rep, stderr=res['stderr'], last_instruction=res.get('last'), engine='heap_trace'))
        return True
    failed = False
    steps = res['steps']
    prev_live = {}
    for s in steps:
        R.ops[s.op] += 1
        if s.op == 'ARR_SLICE' and s.live is not None:
            # did the slice copy references?  (in-degree of already existing objects grew), and how was the source array tagged
            new = {int(e.split()[1]) for e in s.events if e.startswith('A ')}
            copied = sum(max(0, ind - prev_live.get(o, (0, 0, 0))[2]) for o, (t, rc, ind) in s.live.items() if o not in new)
            try:
                etag = int(s.iline.split(' | e ')[1].split()[2])
            except (IndexError, ValueError):
                etag = -1
            cls = 'scalar-tag' if etag in SCALAR_TAGS else 'ref-tag'
            R.slices['slices'] += 1
            if copied:
                R.slices['over-heap-elements'] += 1
                R.slices['over-heap-elements:%s' % cls] += 1
                R.slices['over-heap-elements:elem_type=%d' % etag] += 1
                R.slices['references-copied'] += copied
        if s.live is not None:
            prev_live = s.live
    ck.count(hashlib.sha1(src_text.encode()).hexdigest(), nontrivial=sum(len(s.events) for s in steps) >= 3 and len(steps) > 20, n=len(steps))
    if res['v']:
        v = res['v'][0].split()
        st = int(v[1]); kindv = v[2]
        op = next((s.op for s in steps if s.i == st), '?')
        ck.fail('c14:audit:%s:%s' % (kindv, op), 'heap audit on the real VM: %s' % res['v'][0],
                dict(rep, violation=res['v'][:5], engine='heap_trace audit'))
        failed = True
    if res['x']:
        R.stats['implicit-ret'] += 1
    if res.get('vm_error') and steps:
        lastreal = [s for s in steps if s.op != 'DESTROY']
        if lastreal:
            R.traps['%s: %s' % (lastreal[-1].op, re.sub(r'-?[0-9]+', 'N', res.get('err_msg', ''))[:50])] += 1
    for (st, op, grown) in res['leaks']:
        R.leak_ops[op] += 1
        ck.fail('c14:leak:' + op, 'ref_count exceeds in-degree after %s (reference forgotten without release)' % op,
                dict(rep, step=st, objects=grown[:4], engine='heap_trace audit'))
    if res.get('unsupported'):
        R.stats['model-unsupported'] += 1
        R.unsupported[res['unsupported'].split(' at ')[0]] += 1
    if res.get('model_exc'):
        ck.fail('c14:model:driver:' + name, 'nvref_c14 failed: ' + res['model_exc'], dict(rep, correspondence='heap_trace vs nvref_c14'))
        failed = True
    if res.get('mismatch'):
        mm = res['mismatch']
        ck.fail('c14:corr:%s:%s' % (mm['op'], re.sub(r'[0-9]+', 'N', mm['what'])[:60]),
                'real VM and heap model disagree after step %s (%s): %s' % (mm['step'], mm['op'], mm['what']),
                dict(rep, mismatch={k: (str(v)[:600]) for k, v in mm.items()}, correspondence='heap_trace vs nvref_c14'))
        failed = True
    R.stats['steps_compared'] += res.get('compared', 0)
    return failed


# ------------------------------------------------------------------------------------------------ many owners
# One object referenced from N cells, N crossing the powers of two at which a narrower ref_count field would wrap: the interned
# string of a literal, one array, one struct, held by N container cells or N stack slots; built by a loop, read while fully
# shared, then released one reference at a time.  The model's count is unbounded (C14_count_never_wraps ties it to the field
# width); here the REAL field is exercised.  N <= 257: traced and replayed on the model at every step; larger N: audit every
# 1021st instruction and at the end (a run is millions of instructions).
MANY_N = [256, 257, 65535, 65536, 65537, 131072]
MANY_NANO = {
    'string_in_array': '''fn main() -> int {
    let mut held: array<string> = []
    let mut i: int = 0
    while (< i %(N)d) {
        set held (array_push held "hello")
        set i (+ i 1)
    }
    let first: int = (str_length (at held 0))
    let other: string = (+ "WOR" "LD")
    let mut bad: int = 0
    set i 0
    while (< i (array_length held)) {
        if (!= (at held i) "hello") {
            set bad (+ bad 1)
        } else {
            set bad (+ bad 0)
        }
        set i (+ i 257)
    }
    while (> (array_length held) 0) {
        let x: string = (array_pop held)
        if (!= x "hello") {
            set bad (+ bad 1)
        } else {
            set bad (+ bad 0)
        }
    }
    assert (== bad 0)
    assert (== first 5)
    assert (== other "WORLD")
    return 0
}
''',
    'array_in_array': '''fn main() -> int {
    let shared: array<int> = [7, 8, 9]
    let mut held: array<array<int>> = []
    let mut i: int = 0
    while (< i %(N)d) {
        set held (array_push held shared)
        set i (+ i 1)
    }
    let probe: array<int> = (at held 0)
    let fresh: array<int> = [1, 2, 3]
    let mut bad: int = 0
    while (> (array_length held) 0) {
        let x: array<int> = (array_pop held)
        if (!= (at x 2) 9) {
            set bad (+ bad 1)
        } else {
            set bad (+ bad 0)
        }
    }
    assert (== bad 0)
    assert (== (at shared 0) 7)
    assert (== (at fresh 0) 1)
    return 0
}
''',
    'struct_in_array': '''struct P { x: int, name: string, items: array<int> }
fn main() -> int {
    let shared: P = P { x: 41, name: (+ "na" "me"), items: [1, 2] }
    let mut held: array<P> = []
    let mut i: int = 0
    while (< i %(N)d) {
        set held (array_push held shared)
        set i (+ i 1)
    }
    let probe: P = (at held 0)
    let fresh: P = P { x: 1, name: "other", items: [3] }
    let mut bad: int = 0
    while (> (array_length held) 0) {
        let x: P = (array_pop held)
        if (!= x.x 41) {
            set bad (+ bad 1)
        } else {
            set bad (+ bad 0)
        }
    }
    assert (== bad 0)
    assert (== shared.name "name")
    assert (== fresh.x 1)
    return 0
}
''',
}
# N stack slots (bytecode): DUP in a loop, an unrelated allocation while fully shared, then POP one by one
MANY_ASM = '''.string "hello"
.string "WOR"
.string "LD"
.entry 0
.function main 0 2 0
  PUSH_I64 0
  STORE_LOCAL 0
  %(MAKE)s
up:
  LOAD_LOCAL 0
  PUSH_I64 %(N)d
  LT
  JMP_FALSE full
  DUP
  LOAD_LOCAL 0
  PUSH_I64 1
  ADD
  STORE_LOCAL 0
  JMP up
full:
  DUP
  POP
  PUSH_STR 1
  PUSH_STR 2
  STR_CONCAT
  STORE_LOCAL 1
down:
  LOAD_LOCAL 0
  PUSH_I64 0
  GT
  JMP_FALSE done
  POP
  LOAD_LOCAL 0
  PUSH_I64 1
  SUB
  STORE_LOCAL 0
  JMP down
done:
  %(CHECK)s
  PUSH_I64 0
  RET
.end
'''
MANY_ASM_KINDS = {'string_on_stack': ('PUSH_STR 0', 'STR_LEN\n  PUSH_I64 5\n  EQ\n  ASSERT'),
                  'array_on_stack': ('PUSH_I64 4\n  PUSH_I64 5\n  ARR_LITERAL 1 2', 'ARR_LEN\n  PUSH_I64 2\n  EQ\n  ASSERT')}


def many_owners_check(ck, R):
    cases = []
    for kind, tpl in MANY_NANO.items():
        for n in MANY_N:
            cases.append((kind, n, tpl % dict(N=n)))
    for kind, (make, chk) in MANY_ASM_KINDS.items():
        for n in MANY_N:
            cases.append((kind, n, MANY_ASM % dict(N=n, MAKE=make, CHECK=chk)))
    def work(c):
        kind, n, src = c
        sparse = n > 300
        return R.one('many_%s_%d' % (kind, n), src, max_steps=40000000 if sparse else 40000,
                     audit_every=(8191 if n > 100000 else 1021) if sparse else 1)
    with ThreadPoolExecutor(14) as ex:
        results = list(ex.map(work, cases))
    seen = {}
    try:
        import gen_heapparams
        width = gen_heapparams.measure(R.b).get('RC_BITS')
    except Exception:
        width = None
    ck.extra['ref_count_field_bits'] = width
    for (kind, n, src), res in zip(cases, results):
        key = 'c14:manyowners:%s:N=%d' % (kind, n)
        rep = dict(program=src, source_kind='many-owners', owners=n, ref_count_field_bits=width,
                   broken_obligations=list(ck.proof['broken']), obligation='C14_count_fits_width: max_ref_cells < 2^rc_width (NV.gen.HeapParams)')
        if res['status'] == 'nocompile':
            ck.fail(key + ':norun', 'many-owners program does not compile: %s' % res['msg'][-200:], rep); continue
        peak = max((rc for s in res['steps'] if s.live for (t, rc, ind) in s.live.values()), default=0)
        seen.setdefault(kind, {})[n] = peak
        ck.count(('many', kind, n), True, n=max(1, len(res['steps'])))
        R.stats['many-owners'] += 1
        if n <= 300:
            judge(ck, R, res, src, 'many-owners:%s' % kind)          # full trace + model replay like every other program
        elif res['v']:
            ck.fail(key + ':' + res['v'][0].split()[2], 'heap audit on the real VM with %d owners of one object: %s' % (n, res['v'][0]),
                    dict(rep, violation=res['v'][:5], stderr=res['stderr'][-600:], engine='heap_trace audit (every 1021st instruction + final)'))
        elif res['status'] == 'crash':
            ck.fail(key + ':crash', 'real VM crashed / sanitizer report (rc=%s) with %d owners of one object' % (res['rc'], n),
                    dict(rep, stderr=res['stderr'][-1200:], engine='heap_trace'))
        elif res['leaks']:
            ck.fail(key + ':leak', 'ref_count exceeds in-degree with %d owners: %s' % (n, str(res['leaks'][0])[:200]), dict(rep, engine='heap_trace audit'))
        if res['status'] == 'ran' and res.get('vm_error'):
            ck.fail(key + ':wrong-result', 'program observing its own shared object failed on the real VM: %s' % res.get('err_msg', '')[:120],
                    dict(rep, engine='heap_trace'))
        elif res['status'] == 'ran' and peak < (n if n <= 300 else n - 9000):
            ck.fail(key + ':not-reached', 'the audit never saw the expected %d owners (peak count %d)' % (n, peak), rep)
    ck.extra['many_owners_peak_ref_count'] = seen


def churn_check(ck, R):
    """live objects after k iterations must not depend on k (exact families); leaking families are findings."""
    ks = (3, 12, 40) if not ck.thorough else (3, 12, 40, 200)
    rows = {}
    leak_ops = {}
    for fam, (body, exact) in CHURN.items():
        lives = []
        for k in ks:
            src = churn_program(body, k, fam)
            res = R.one('churn_%s_%d' % (fam, k), src, max_steps=200000)
            judge(ck, R, res, src, 'churn:' + fam)
            leak_ops.setdefault(fam, set()).update(op for (_, op, _) in res.get('leaks', []))
            if res['status'] != 'ran' or not res['steps'] or res['steps'][-2].live is None:
                lives.append(None); continue
            # state before DESTROY (after main returned)
            last = [s for s in res['steps'] if s.op != 'DESTROY'][-1]
            lives.append(len(last.live))
            ck.count(('churn', fam, k), True)
        rows[fam] = lives
        if None in lives:
            ck.fail('c14:churn:%s:norun' % fam, 'churn program %s did not run' % fam, dict(program=churn_program(body, ks[0], fam)))
            continue
        if len(set(lives)) != 1:
            if not leak_ops.get(fam):
                # growth that no forgotten reference explains (e.g. a reference cycle)
                ck.fail('c14:churn:' + fam, 'live objects after the loop grow with the iteration count: %s for k=%s' % (lives, list(ks)),
                        dict(program=churn_program(body, ks[1], fam), k=list(ks), live=lives, engine='heap_trace'))
            else:
                ck.note('churn family %s grows %s for k=%s: explained by the forgotten references at %s (reported under c14:leak:<op>)'
                        % (fam, lives, list(ks), sorted(leak_ops[fam])))
        elif not exact:
            ck.note('churn family %s expected to leak but did not: %s' % (fam, lives))
    ck.extra['churn_live_after_loop'] = {f: dict(k=list(ks), live=v) for f, v in rows.items()}


def run(ck):
    R = Runner(ck)
    try:
        ck.gen(['gen_churn14', 'gen_heapparams'])
    except Exception as ex:
        ck.note('translator gen_churn14 failed: %s' % str(ex)[-300:])
        ck.proof['broken'].append('translator gen_churn14/gen_heapparams: %s' % str(ex)[-200:])
    proved = ck.prove()
    progs = []
    # 1. corpus first
    for p in sorted(glob.glob(os.path.join(CORPUS, '*.nano')) + glob.glob(os.path.join(CORPUS, '*.asm'))):
        progs.append(('corpus_' + os.path.splitext(os.path.basename(p))[0], open(p).read(), 'corpus'))
    # 2. generated, aliasing-biased; two thirds without the constructs that are known to leak
    n = 1000 if ck.thorough else 300
    feats = collections.Counter()
    for i in range(n):
        g = Gen(ck.rng, leaky=(i % 3 == 2))
        progs.append(('gen%04d' % i, g.program(), 'gen-leaky' if g.leaky else 'gen'))
        feats.update(g.feat)
    na = 800 if ck.thorough else 200
    for i in range(na):
        g = AsmGen(ck.rng, leaky=(i % 3 == 2))
        progs.append(('asm%04d' % i, g.program(), 'asm-leaky' if g.leaky else 'asm'))
        feats.update({'asm:' + k: v for k, v in g.feat.items()})
    asan_every = 4
    def work(t):
        idx, (name, src, kind) = t
        return R.one(name, src, asan=(idx % asan_every == 0))
    with ThreadPoolExecutor(14) as ex:
        results = list(ex.map(work, enumerate(progs)))
    nfailed = 0
    for (name, src, kind), res in zip(progs, results):
        if judge(ck, R, res, src, kind):
            nfailed += 1
        if res['status'] == 'ran' and not res.get('mismatch') and len(ck.cov['samples']) < 3 and res['steps']:
            s = res['steps'][min(len(res['steps']) - 1, 30)]
            ck.sample(dict(program=name, steps=len(res['steps']), step=s.iline, real_state=str(s.live)[:200], compared=res['compared']))
    # 2b. the repository's own programs (thorough): audited on the real VM; replayed on the model as far as it is modelled
    if ck.thorough:
        rp = sorted(glob.glob(os.path.join(vlib.REPO, 'tests', '*.nano')) + glob.glob(os.path.join(vlib.REPO, 'tests', '*', '*.nano')) +
                    glob.glob(os.path.join(vlib.REPO, 'examples', '**', '*.nano'), recursive=True))
        def rwork(pth):
            try:
                txt = open(pth, errors='replace').read()
            except OSError:
                return None
            return pth, txt, R.one('repo_' + re.sub(r'\W', '_', os.path.relpath(pth, vlib.REPO))[:80], txt, src_path=pth)
        with ThreadPoolExecutor(14) as ex:
            rres = [x for x in ex.map(rwork, rp) if x]
        for pth, txt, res in rres:
            judge(ck, R, res, txt, 'repo:' + os.path.relpath(pth, vlib.REPO))
        ck.extra['repo_programs'] = len(rres)
    # 3. churn family
    churn_check(ck, R)
    # 3b. many owners of one object (count field width)
    many_owners_check(ck, R)
    # 4. replay open known findings on the real code
    for kf in ck.known:
        inp = kf.get('input', {})
        if 'program' in inp:
            res = R.one('known_' + re.sub(r'\W', '_', kf['key']), inp['program'], max_steps=200000)
            judge(ck, R, res, inp['program'], 'known')
    if ck.thorough and proved:
        rc, o, e = vlib.sh(['coqchk', '-silent', '-o', '-Q', 'NV', 'NV', 'NV.Props.Properties_C14'], cwd=vlib.COQ, timeout=1500)
        ck.extra['coqchk'] = 'ok' if rc == 0 else 'FAILED rc=%s %s' % (rc, (o + e)[-400:])
        if rc != 0:
            ck.proof['broken'].append('coqchk NV.Props.Properties_C14')
    ck.cov['rule'] = ('generated nano programs (helpers returning arguments through 3 frames, struct-in-struct, union+match, tuples, '
                      'globals, string pool of 8 literals so equal strings are interned repeatedly, same array bound to several '
                      'locals / pushed twice / stored in structs, values dropped in while loops; two thirds end in a trapping array operation - index past the end, '
                      'negative, 2^32+k, pop of an empty array - in main or two frames down) compiled by nano_virt --emit-nvm and run '
                      'in-process; every instruction boundary is one evaluation; non-trivial program = >= 3 allocation/free events and '
                      '> 20 instructions; distinct = distinct program text')
    ck.extra.update(exhaustive=False, programs=len(progs), program_status=dict(R.stats), opcode_histogram=dict(R.ops.most_common()),
                    leak_sites_seen=dict(R.leak_ops), model_unsupported=dict(R.unsupported), trap_sites_seen=dict(R.traps.most_common()), slice_cases=dict(R.slices),
                    generator_features=dict(feats.most_common()), asan_fraction='1/%d of the generated programs run under the asan build of the probe' % asan_every)
    try:
        mt = [int(l.split()[1]) for l in open('/proc/meminfo') if l.startswith(('MemTotal', 'SwapTotal'))]
        ck.extra['host_memory_bytes'] = sum(mt) * 1024
        ck.extra['memory_assumption_enforceable_here'] = sum(mt) * 1024 < 2 ** 36
    except OSError:
        pass
    ck.trusted += ['tools/gen/dump_heapparams.c + gen_heapparams.py (sizeof/offsetof of VmHeapHeader.ref_count, NanoValue and the VM limits printed by the C compiler)',
                   'probes/heap_trace.c (registry, in-degree audit, trace printer); hooks vm_verif_step_cb / vm_verif_heap_cb of the NANOLANG_VERIF build',
                   'extract/c14_driver.ml (parsing; opcode number -> model instruction constructor table)',
                   'extraction: ExtrOcamlBasic only',
                   'tools/props/c14.py comparison (live set, tag, ref_count, in-degree, stack depth, frame count per instruction boundary)']
    ck.assumptions += ['value tag == heap header type for every reference (checked by the audit on every reference it sees)',
                       'ref_count field: the model counts with unbounded numbers; width of VmHeapHeader.ref_count, sizeof(NanoValue) and the VM limits are '
                       'generated from the current headers (NV.gen.HeapParams) and C14_count_fits_width / C14_count_never_wraps prove that no count of an exact '
                       'state wraps PROVIDED the NanoValue cells of the VM process occupy at most 2^35 bytes (assumed_vm_memory_bytes). The VM enforces no such '
                       'limit: its own limits bound one stack, 4096 globals and 1024 frames, not the number of containers; with >= 64 GiB of cells one object can '
                       'be given 2^32 owners and the 32-bit count wraps (not reproducible on this host; a saturating count would remove the assumption)',
                       'string contents abstracted to a key: two strings get the same key iff byte-equal (computed by the probe from the real strings)',
                       'hashmap opcodes, element-wise array arithmetic and FFI results other than strings/scalars are outside the model (audited on the real VM, not replayed)',
                       'C recursion depth of vm_release is not modelled (C13)',
                       'STORE_LOCAL/STORE_GLOBAL/ARR_SET/STRUCT_SET: the C code releases the old slot value and then overwrites the slot; the model '
                       'swaps the new value in and then releases the old one (same result whenever Inv holds: the slot owner is pinned by the popped reference)',
                       'the instruction stream (opcodes, operands, indices, callee arity/local_count, string content keys, extern-call success) is an INPUT of the '
                       'model run, taken from the real VM: the model decides ownership only, not control flow or arithmetic']


def replay(ck, d):
    R = Runner(ck)
    src = d.get('program')
    if not src:
        print('replay file carries no program'); return 1
    res = R.one('replay', src, max_steps=200000)
    print('status:', res['status'], 'rc:', res.get('rc'))
    for l in res.get('v', [])[:10]: print(l)
    for (st, op, grown) in res.get('leaks', [])[:10]: print('leak after step %d %s: %s' % (st, op, grown[:3]))
    if res.get('mismatch'): print('mismatch:', {k: str(v)[:300] for k, v in res['mismatch'].items()})
    if res.get('unsupported'): print('unsupported:', res['unsupported'])
    if 'k' in d and 'live' in d:
        print('churn live counts recorded:', d['live'])
    bad = bool(res.get('v') or res.get('leaks') or res.get('mismatch') or res['status'] != 'ran')
    print('REPRODUCED' if bad else 'not reproduced')
    return 1 if bad else 0
