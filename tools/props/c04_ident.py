"""C04: the "identifier spelling" axis -- every binding position x a pool of spellings that are ordinary identifiers for nanolang
but hostile for the C the native backend emits (C keywords, C11 keywords and their <std*.h> macros, libc names and macros,
reserved-looking names, names of the nanolang runtime helpers).

For every (position, spelling) a minimal program is built; every program the REAL type checker accepts goes through both
backends (nano_virt --run; nanoc + the binary) and must not end in an internal failure class (c04_matrix.classify).
Recorded failures are grouped: one open finding per (position, class of spelling), key  c04:ident:<position>:<class>, whose
entry lists the failing spellings; a failing cell whose spelling is NOT in that list gets its own key
c04:ident:<position>:<spelling> and is a violation.  Quick tier: all cells are type-checked; the not-recorded accepted cells
of a position run as ONE program (split into singles when it fails), recorded ones are replayed by sample; thorough: every
accepted cell runs on its own."""
import re, json, collections
import vlib, langlib
import tc_common as T
import c04_matrix

C_KW = ('auto break case char const continue default do double else enum extern float for goto if inline int long register restrict '
        'return short signed sizeof static struct switch typedef union unsigned void volatile while _Bool _Complex _Imaginary').split()
C11 = '_Alignas _Alignof _Atomic _Generic _Noreturn _Static_assert _Thread_local alignas alignof noreturn static_assert thread_local'.split()
LIBC = ('stdin stdout stderr NULL EOF exit printf abs min max y0 index time errno malloc free strlen main assert bool true false '
        'int64_t size_t uint8_t INT64_MAX va_list FILE memcpy signal environ optarg').split()
RESERVED = '_Foo __foo _x __LINE__ __func__'.split()
RUNTIME = ('nl_abs nl_println_int nl_str_concat nl_main dyn_array_length dyn_array_get gc_alloc gc_release DynArray nl_string_t get_argc '
           'print println range array_push').split()
POOL = [('ckw', C_KW), ('c11', C11), ('libc', LIBC), ('reserved', RESERVED), ('runtime', RUNTIME)]
POSITIONS = ['let', 'mut-let', 'param', 'fn-name', 'struct-name', 'field-name', 'enum-name', 'enum-variant', 'global', 'for-var']
IND = '    '


def pieces(pos, X, i):
    """(top-level text, statements of main) for spelling X at binding position pos; i makes the auxiliary names unique"""
    if pos == 'let':
        # a second, ordinary declaration follows: a variable spelled like a C type name breaks the NEXT declaration, not its own
        return '', ['let %s: int = 3' % X, 'let a%d: int = (+ %s 1)' % (i, X), '(println a%d)' % i]
    if pos == 'mut-let':
        return '', ['let mut %s: int = 3' % X, 'set %s (+ %s 1)' % (X, X), 'let a%d: int = (+ %s 1)' % (i, X), '(println a%d)' % i]
    if pos == 'param':
        return ('fn p%d(%s: int) -> int {\n    let a%d: int = (+ %s 1)\n    return a%d\n}\nshadow p%d { assert (== (p%d 1) 2) }\n' % (i, X, i, X, i, i, i)), ['(println (p%d 2))' % i]
    if pos == 'fn-name':
        return ('fn %s(v: int) -> int {\n    return (+ v 1)\n}\nshadow %s { assert (== (%s 1) 2) }\n' % (X, X, X)), ['(println (%s 2))' % X]
    if pos == 'struct-name':
        return 'struct %s {\n    a: int\n}\n' % X, ['let s%d: %s = %s { a: 3 }' % (i, X, X), '(println s%d.a)' % i]
    if pos == 'field-name':
        return 'struct Sx%d {\n    %s: int\n}\n' % (i, X), ['let t%d: Sx%d = Sx%d { %s: 3 }' % (i, i, i, X), '(println t%d.%s)' % (i, X)]
    if pos == 'enum-name':
        return 'enum %s {\n    A%d,\n    B%d\n}\n' % (X, i, i), ['let e%d: %s = %s.B%d' % (i, X, X, i), '(println (== e%d %s.B%d))' % (i, X, i)]
    if pos == 'enum-variant':
        return 'enum Ex%d {\n    %s,\n    Other%d\n}\n' % (i, X, i), ['(println (== Ex%d.%s Ex%d.Other%d))' % (i, X, i, i)]
    if pos == 'global':
        return 'let %s: int = 3\nlet ga%d: int = 4\n' % (X, i), ['let a%d: int = (+ %s ga%d)' % (i, X, i), '(println a%d)' % i]
    if pos == 'for-var':
        return '', ['for %s in (range 0 2) {' % X, IND + 'let a%d: int = (+ %s 1)' % (i, X), IND + '(println a%d)' % i, '}']
    raise ValueError(pos)


def program(cells):
    """cells: list of (pos, spelling, index)"""
    tops, body = [], []
    for pos, X, i in cells:
        t, bdy = pieces(pos, X, i)
        tops.append(t)
        body += [IND + x for x in bdy]
    return ''.join(tops) + 'fn main() -> int {\n' + '\n'.join(body) + '\n    return 0\n}\nshadow main { assert true }\n'


def run_ident(ck, b, probe, wd, thorough):
    cells = []
    i = 0
    for pos in POSITIONS:
        for cls, names in POOL:
            for X in names:
                cells.append((pos, cls, X, i)); i += 1
    singles = {(p, c, X): program([(p, X, n)]) for p, c, X, n in cells}
    idx = {(p, c, X): n for p, c, X, n in cells}
    keys = list(singles)
    verd = dict(zip(keys, T.probe_tc(probe, [singles[k] for k in keys])))
    known_entries = {k['key']: k for k in getattr(ck, 'known', [])}
    table = {}
    failures = []

    def recorded(k):
        e = known_entries.get('c04:ident:%s:%s' % (k[0], k[1]))
        return e is not None and k[2] in (e.get('spellings') or [])

    accepted = [k for k in keys if verd[k][0] == 'accept']
    for k in keys:
        v = verd[k][0]
        if v != 'accept':
            table[k] = 'refused:' + v.split(':')[-1] if v.startswith('reject') else 'FRONT-END ' + v
            if not v.startswith('reject'):
                # the front end itself died (crash / hang) on a spelling: not an "accepted program", reported all the same
                failures.append(('c04:ident:%s:%s:front-end-%s' % (k[0], k[2], v.replace(':', '-')),
                                 'spelling %s at position %s: the front end ends with %s' % (k[2], k[0], v),
                                 dict(position=k[0], spelling=k[2], source=singles[k], type_check=v)))

    def run_prog(name, src):
        obs = T.run_three(b, wd, name, src, want=('run', 'nanoc', 'native-run'))
        return obs, c04_matrix.classify(obs)

    todo = []
    if thorough:
        todo = list(accepted)
    else:
        per_entry = collections.defaultdict(list)
        fresh = collections.defaultdict(list)
        for k in accepted:
            if recorded(k):
                per_entry[(k[0], k[1])].append(k)
            else:
                fresh[k[0]].append(k)
        for e, ks in sorted(per_entry.items()):
            ck.rng.shuffle(ks)
            todo += ks[:2]
            for k in ks[2:]:
                table[k] = 'recorded(not replayed in this run)'
        CH = 12          # cells per program: the VM has per-function limits (locals, enums) that a bigger batch would hit
        batches = {}
        for pos, ks in fresh.items():
            for j in range(0, len(ks), CH):
                batches[(pos, j)] = ks[j:j + CH]
        bsrc = {bk: program([(k[0], k[2], idx[k]) for k in ks]) for bk, ks in batches.items()}
        bverd = dict(zip(bsrc, T.probe_tc(probe, list(bsrc.values()))))
        def oneb(bk):
            if bverd[bk][0] != 'accept':
                return bk, ({'batch': 'refused'}, False)
            obs, cl = run_prog('idb_%s_%d' % (bk[0].replace('-', '_'), bk[1]), bsrc[bk])
            return bk, cl
        nsplit = 0
        for bk, (fails, same) in langlib.pmap(oneb, sorted(batches)):
            if fails:
                nsplit += 1
                todo += batches[bk]
            else:
                for k in batches[bk]:
                    table[k] = 'ok'
        ck.extra['ident_batches'] = dict(batches=len(batches), split_into_singles=nsplit)

    def one(k):
        obs, cl = run_prog('id_%d' % idx[k], singles[k])
        return k, obs, cl
    by_entry = collections.defaultdict(list)
    for k, obs, (fails, same) in langlib.pmap(one, todo):
        if not fails:
            table[k] = 'ok' if same else 'ok(output differs)'
            continue
        table[k] = 'FAIL ' + json.dumps(fails, sort_keys=True)
        rep = dict(position=k[0], spelling_class=k[1], spelling=k[2], source=singles[k], type_check='accept', internal_failures=fails,
                   backends={t: dict(rc=o['rc'], stdout=o['out'][:200].decode('latin1'), stderr=T.ANSI.sub('', o['err'])[-600:]) for t, o in obs.items()})
        if recorded(k):
            by_entry[(k[0], k[1])].append((k, fails, rep))
        else:
            failures.append(('c04:ident:%s:%s' % (k[0], k[2]),
                             'identifier %s as %s: accepted by the type checker, then %s' % (k[2], k[0], json.dumps(fails, sort_keys=True)), rep))
    for (pos, cls), lst in sorted(by_entry.items()):
        k, fails, rep = lst[0]
        failures.append(('c04:ident:%s:%s' % (pos, cls),
                         '%s-class identifiers as %s (%s): accepted by the type checker, then %s' % (
                             cls, pos, ', '.join(sorted(x[0][2] for x in lst)), json.dumps(fails, sort_keys=True)), rep))
    summ = collections.defaultdict(collections.Counter)
    for k in keys:
        r = table.get(k, '?')
        summ['%s/%s' % (k[0], k[1])]['ok' if r.startswith('ok') else 'fail' if r.startswith('FAIL') else 'recorded' if r.startswith('recorded') else
                                     'front-end-died' if r.startswith('FRONT') else 'refused'] += 1
    ck.extra['ident_size'] = dict(positions=len(POSITIONS), spellings=sum(len(n) for _, n in POOL), cells=len(keys), accepted=len(accepted),
                                  run_on_backends=len(todo), failing=sum(1 for k in keys if table.get(k, '').startswith('FAIL')))
    ck.extra['ident_per_position_and_class'] = {k: dict(v) for k, v in sorted(summ.items())}
    ck.extra['ident_cells_failing'] = {'%s:%s' % (k[0], k[2]): table[k] for k in keys if table.get(k, '').startswith(('FAIL', 'FRONT'))}
    for k in keys:
        ck.count('ident:%s:%s' % (k[0], k[2]), table.get(k, '').startswith(('ok', 'FAIL')))
    return failures
