"""Minimal witness programs for the compile-time evaluator's defects (C03/C06), keyed as in known_findings.d/C03.json
(open: dynamic scoping, string escapes, void-call value; fixed by 9481a65 and kept as regression inputs: block-exit,
block-exit-hang, shadow-locals-persist, for-body-let).
Each is (program AST, shadow statement lists); names: variable n -> v<n>, function n -> f<n> (0 = main)."""
from lang_findings import fn, seq, prog, N, V, P

B = lambda b: ('bool', b)
EQ = lambda a, b: ('bin', 'eq', a, b)
CALL = lambda f, *a: ('call', f, list(a))
MAIN = fn(0, [], 'int', ('ret', N(0)))


def _w():
    w = {}
    # SPECIFICATION section 8.1: static scoping.  let x = 10;  g() reads x;  h() { let x = 20; return (g) }  -> (h) is 10
    g = fn(2, [], 'int', ('ret', V(1)))
    h = fn(3, [], 'int', seq(('let', False, 1, 'int', N(20)), ('ret', CALL(2))))
    p81 = prog([g, h, MAIN], [(1, 'int', N(10))])
    w['c03:dynamic-scope'] = (p81, {2: [('assert', EQ(CALL(2), N(10)))], 3: [P(CALL(3)), ('assert', EQ(CALL(3), N(10)))]})
    # the other direction of the gate: an assertion that is FALSE under the language's semantics passes at compile time
    w['c06:false-assertion-passes'] = (p81, {2: [('assert', EQ(CALL(2), N(10)))], 3: [('assert', EQ(CALL(3), N(20)))]})
    # a parameter named like the constant the callee reads
    hp = fn(3, [(1, 'int')], 'int', ('ret', CALL(2)))
    w['c03:dynamic-scope-param'] = (prog([g, hp, MAIN], [(1, 'int', N(10))]), {3: [P(CALL(3, N(5))), ('assert', EQ(CALL(3, N(5)), N(10)))]})
    # a let inside a block stops shadowing when the block ends (spec 8.2)
    blk = fn(2, [(3, 'int')], 'int', seq(('let', False, 1, 'int', N(1)),
                                          ('if', ('bin', 'gt', V(3), N(0)), seq(('let', False, 1, 'int', N(2)), P(V(1))), ('skip',)),
                                          P(V(1)), ('ret', V(1))))
    w['c03:block-exit'] = (prog([blk, MAIN]), {2: [('assert', EQ(CALL(2, N(1)), N(1)))]})
    # the same defect makes the COMPILER loop for ever on a terminating program: the counter of a while loop is shadowed inside its body
    hang = fn(2, [], 'int', seq(('let', True, 1, 'int', N(0)),
                                ('while', ('bin', 'lt', V(1), N(2)), seq(('set', 1, ('bin', 'add', V(1), N(1))), ('let', True, 1, 'int', N(-1)))),
                                ('ret', V(1))))
    w['c03:block-exit-hang'] = (prog([hang, MAIN]), {2: [('assert', EQ(CALL(2), N(2)))]})
    # locals of one shadow block are still in scope when the next shadow block runs
    rq = fn(3, [], 'int', ('ret', V(1)))
    idf = fn(2, [(4, 'int')], 'int', ('ret', V(4)))
    w['c03:shadow-locals-persist'] = (prog([idf, rq, MAIN], [(1, 'int', N(1))]),
                                      {2: [('let', False, 1, 'int', N(5)), ('assert', EQ(CALL(2, V(1)), N(5)))],
                                       3: [P(CALL(3)), ('assert', EQ(CALL(3), N(1)))]})
    # a let in a for body named like the loop variable hides the loop variable in the NEXT iteration
    lp = fn(2, [], 'int', seq(('let', True, 3, 'int', N(0)),
                              ('for', 1, N(0), N(3), seq(P(V(1)), ('set', 3, ('bin', 'add', V(3), V(1))), ('let', False, 1, 'int', N(7)), P(V(1)))),
                              ('ret', V(3))))
    w['c03:for-body-let'] = (prog([lp, MAIN]), {2: [('assert', EQ(CALL(2), N(3)))]})
    # escape sequences in string literals are printed verbatim at compile time
    es = fn(2, [], 'int', seq(P(('str', b'a\\tb\\\\c')), ('ret', N(1))))
    w['c03:string-escapes'] = (prog([es, MAIN]), {2: [('assert', EQ(CALL(2), N(1)))]})
    # the value of a call that ends without `return e`: evaluator = value of the last statement, binary = "<unknown>" and
    # the call is not even made, reference = void
    idf2 = fn(2, [(4, 'int')], 'int', ('ret', V(4)))
    vf = fn(3, [(5, 'int')], 'void', seq(P(V(5)), ('expr', CALL(2, N(7)))))
    w['c03:void-call-value'] = (prog([idf2, vf, MAIN]), {3: [P(CALL(3, N(3))), ('assert', B(True))]})
    # arrays: the evaluator evaluates the FIRST element of an array literal twice (once "to determine the element type", once when
    # it fills the array): a printing call there prints twice at compile time, once in the compiled program
    pr = fn(2, [(3, 'int')], 'int', seq(P(V(3)), ('ret', V(3))))
    al = fn(4, [(5, 'arr'), (6, 'int')], 'int', ('ret', ('bin', 'add', ('at', V(5), V(6)), ('len', V(5)))))
    w['c03:array-literal-first-element-twice'] = (prog([pr, al, MAIN], [(1, 'arr', ('arr', [N(4), N(5)]))]),
                                                  {4: [('let', False, 7, 'arr', ('arr', [CALL(2, N(8)), N(9)])), ('assert', EQ(CALL(4, V(7), N(0)), N(10)))]})
    # strings as computed values: str_substring with start = length of the string is "" in the language and in both engines, void in the
    # evaluator (the assertion fails at compile time); same program as Back/InterpWitness.spstr_past_end
    sfn = fn(2, [(3, 'str'), (4, 'int')], 'str', ('ret', ('s2', 'plus', V(3), ('s1', 'ofint', V(4)))))
    lfn = fn(4, [(5, 'str')], 'int', seq(P(V(5)), ('ret', ('s1', 'len', V(5)))))
    pstr = prog([sfn, lfn, MAIN], [(1, 'str', ('str', b'abc'))])
    w['c03:builtin:str_substring:start-at-or-past-the-end-is-void-in-the-evaluator'] = (
        pstr, {4: [('assert', EQ(('substr', V(1), N(3), N(2)), ('str', b'')))]})
    # `set s s` on a string variable (also through cond): the evaluator frees the old value and stores the pointer it just freed;
    # glibc aborts nanoc ("free(): invalid pointer"), no executable
    sa = fn(2, [], 'int', seq(('let', True, 3, 'str', ('str', b'b_')), ('set', 3, ('cond', ('bin', 'lt', N(1), N(2)), V(3), ('str', b'x'))), P(V(3)), ('ret', N(1))))
    w['c03:string-self-assign-crash'] = (prog([sa, MAIN]), {2: [('assert', EQ(CALL(2), N(1)))]})
    return w


WITNESSES = _w()

def _corpus():
    """C06 corpus (not findings: must PASS the check): a shadow assertion that is false in a non-final iteration and true in the
    last one, in the shadow block itself and in a helper it calls, loops left normally / through break / through return.
    A defect that lets the last pass of a loop overwrite the failure count turns each of them into 'PASSED, exit 0, binary'."""
    c = {}
    idf = fn(2, [(3, 'int')], 'int', ('ret', V(3)))
    ne = lambda x, z: ('bin', 'ne', V(x), N(z))
    c['c06:corpus:for-first-false-last-true'] = (prog([idf, MAIN]), {2: [('for', 4, N(0), N(3), ('assert', ne(4, 0)))]})
    c['c06:corpus:while-middle-false-break'] = (prog([idf, MAIN]), {2: [('let', True, 4, 'int', N(0)),
        ('while', ('bin', 'lt', V(4), N(5)), seq(('assert', ne(4, 1)), ('if', EQ(V(4), N(3)), ('break',), ('skip',)), ('set', 4, ('bin', 'add', V(4), N(1)))))]})
    c['c06:corpus:for-last-false'] = (prog([idf, MAIN]), {2: [('for', 4, N(0), N(3), ('assert', ('bin', 'lt', V(4), N(2))))]})
    helper = fn(5, [], 'int', seq(('let', True, 6, 'int', N(0)),
                                  ('while', ('bin', 'lt', V(6), N(4)), seq(('assert', ne(6, 1)), ('if', EQ(V(6), N(2)), ('ret', N(7)), ('skip',)), ('set', 6, ('bin', 'add', V(6), N(1))))),
                                  ('ret', N(7))))
    c['c06:corpus:helper-while-middle-false-return'] = (prog([idf, helper, MAIN]), {5: [('let', False, 8, 'int', CALL(5)), ('assert', EQ(V(8), N(7)))]})
    hk = fn(5, [(6, 'int')], 'int', seq(('assert', ne(6, 0)), ('ret', V(6))))
    c['c06:corpus:helper-called-in-loop-first-false'] = (prog([idf, hk, MAIN]), {5: [('for', 8, N(0), N(3), ('expr', CALL(5, V(8)))), ('assert', B(True))]})
    hf = fn(5, [], 'int', seq(('for', 6, N(0), N(4), ('assert', ('bin', 'ge', V(6), N(3)))), ('ret', N(7))))
    c['c06:corpus:helper-for-all-but-last-false'] = (prog([idf, hf, MAIN]), {5: [('assert', EQ(CALL(5), N(7)))]})
    # arrays inside names_apart: literals with a call-free first element, at / array_length on a parameter and on a global, printing;
    # the second assertion is false ((f4 v1 0) is 4 + 2)
    pr = fn(2, [(3, 'int')], 'int', seq(P(V(3)), ('ret', V(3))))
    al = fn(4, [(5, 'arr'), (6, 'int')], 'int', ('ret', ('bin', 'add', ('at', V(5), V(6)), ('len', V(5)))))
    parr = prog([pr, al, MAIN], [(1, 'arr', ('arr', [N(4), N(5)]))])
    c['c06:corpus:array-element-assertion-false'] = (parr, {4: [('let', False, 7, 'arr', ('arr', [N(7), CALL(2, N(8)), N(9)])), P(V(7)),
                                                                ('assert', EQ(CALL(4, V(7), N(1)), N(11))), ('assert', EQ(CALL(4, V(1), N(0)), N(7)))]})
    # an index out of range inside a shadow test: the evaluator ends nanoc with exit status 1 on the spot -- no executable
    c['c06:corpus:out-of-range-in-shadow-test'] = (parr, {4: [P(N(1)), ('assert', EQ(CALL(4, V(1), N(2)), N(0)))]})
    # strings as computed values inside names_apart (Back/InterpWitness.spstr_good + a false assertion at the end): + / int_to_string,
    # str_equals, str_concat through a printing call, str_contains, char_at, str_substring of a literal from a start inside it
    sfn = fn(2, [(3, 'str'), (4, 'int')], 'str', ('ret', ('s2', 'plus', V(3), ('s1', 'ofint', V(4)))))
    lfn = fn(4, [(5, 'str')], 'int', seq(P(V(5)), ('ret', ('s1', 'len', V(5)))))
    pstr = prog([sfn, lfn, MAIN], [(1, 'str', ('str', b'abc'))])
    S_ = lambda b: ('str', b)
    c['c06:corpus:string-builtins-last-assertion-false'] = (pstr, {2: [
        ('let', False, 7, 'str', CALL(2, V(1), N(-42))), P(V(7)),
        ('assert', ('s2', 'equals', V(7), S_(b'abc-42'))),
        ('assert', EQ(CALL(4, ('s2', 'concat', V(7), S_(b'!'))), N(7))),
        ('assert', ('s2', 'contains', V(7), S_(b'c-'))),
        ('assert', EQ(('s2', 'charat', V(7), N(1)), N(98))),
        ('assert', EQ(('substr', S_(b'hello'), N(1), N(300)), S_(b'ello'))),
        ('assert', EQ(('s1', 'len', V(7)), N(5)))]})
    # ---- which shadow blocks run: ALL of them (several per function, before / far from the function, for imported functions)
    clamp = fn(2, [(3, 'int')], 'int', seq(('if', ('bin', 'lt', V(3), N(0)), ('ret', N(0)), ('skip',)), ('ret', V(3))))
    other = fn(4, [(5, 'int')], 'int', ('ret', ('bin', 'mul', V(5), N(3))))
    pm = prog([clamp, other, MAIN])
    T = lambda f, a, r: ('assert', EQ(CALL(f, N(a)), N(r)))
    c['c06:corpus:two-blocks-first-false'] = (pm, {2: [T(2, 5, 5), T(2, -3, -3)], (2, 1): [T(2, 42, 42)]},
                                              dict(items=[('fn', 2), ('sh', 2), ('sh', (2, 1)), ('fn', 4), ('sh', 4), ('fn', 0), ('sh', 0)]))
    c['c06:corpus:three-blocks-middle-false-scattered'] = (pm, {2: [T(2, 1, 1)], (2, 1): [T(2, 2, 3)], (2, 2): [T(2, 3, 3)]},
                                              dict(items=[('sh', 2), ('fn', 2), ('fn', 4), ('sh', (2, 1)), ('sh', 4), ('fn', 0), ('sh', 0), ('sh', (2, 2))]))
    c['c06:corpus:block-before-function-false'] = (pm, {4: [T(4, 2, 7)]},
                                              dict(items=[('sh', 4), ('fn', 2), ('sh', 2), ('fn', 4), ('fn', 0), ('sh', 0)]))
    c['c06:corpus:imported-function-block-false'] = (pm, {4: [T(4, 2, 7)]},
                                              dict(items=[('fn', 2), ('sh', 2), ('fn', 0), ('sh', 4), ('sh', 0)], imported=[4]))
    c['c06:corpus:imported-function-two-blocks-last-false'] = (pm, {4: [T(4, 2, 6)], (4, 1): [T(4, 1, 4)]},
                                              dict(items=[('sh', 4), ('fn', 2), ('sh', 2), ('fn', 0), ('sh', 0), ('sh', (4, 1))], imported=[4]))
    return c


CORPUS = _corpus()


def corpus_case(S, k):
    v = CORPUS[k]
    return S.hand_case(k, v[0], v[1], **(v[2] if len(v) > 2 else {}))


# hand-written sources: a false assertion in the IMPORTED MODULE's own shadow block (finding c06:module-shadow-blocks-never-run)
MODULE_OWN_BLOCK = dict(
    mod='''pub fn f1(v2: int) -> int {
    return (* v2 3)
}
shadow f1 {
    assert (== (f1 1) 4)
}
''',
    main='''from "mod.nano" import f1
fn main() -> int {
    (println (f1 4))
    return 0
}
shadow main {
    assert true
}
''')

# hand-written source (outside the model's program type: extern function): a shadow test that is SKIPPED cannot fail the gate
SKIP_EXTERN_SRC = '''extern fn labs(x: int) -> int
fn f1(v2: int) -> int {
    return (labs v2)
}
shadow f1 {
    assert (== (f1 1) 999)
}
fn f3(v4: int) -> int {
    return v4
}
shadow f3 {
    assert (== (f3 2) 2)
}
fn main() -> int {
    return 0
}
shadow main {
    assert true
}
'''
SKIP_EXTERN_SPROG = ('(sprog (prog 0 (globals ) (fns (fn 1 int ((2 int)) (ret (call 63 (var 2)))) (fn 3 int ((4 int)) (ret (var 4))) (fn 0 int () (ret (num 0))))) '
                     '(shadows (sh 1 1 (assert (bin eq (call 1 (num 1)) (num 3e7)))) (sh 3 0 (assert (bin eq (call 3 (num 2)) (num 2)))) (sh 0 0 (assert (bool 1)))))')
