"""C19 -- compilation is a function of the source: outputs are reproducible.
PROOF part (NV/Props/Properties_C19.v): three independence theorems about executable models of nvm_serialize (writes
into a buffer of arbitrary initial contents), nvm_add_string (pool order) and emit_op/isa_encode (junk in the unused
parts of the DecodedInstruction), over constants regenerated from nvm_format.h / isa.c.
TIE of those models: probes/ser_probe.c (ASan build; real nvm_add_string/.../nvm_serialize/nvm_deserialize, isa_encode)
vs the extracted model, on generated modules, on every .nvm the sweep produced, and on junk-filled instructions.
SWEEP part (tools/props/c19_sweep.py): the real nano_virt / nanoc on generated programs under a configuration sweep
(cwd, TMPDIR, env, ASLR, MALLOC_PERTURB_, invocation path, repeats, asan build ...): byte-identical .nvm, generated C
and diagnostics.  The sweep is NOT a proof and is reported separately in the evidence."""
import os, json, hashlib
import vlib
import c19_sweep
import c11

ASAN_ENV = dict(os.environ, ASAN_OPTIONS='detect_leaks=0:abort_on_error=0')


def rnd_bytes(rng, n):
    return ''.join('%02x' % rng.randrange(256) for _ in range(n)) or '-'


def gen_module(rng, fill):
    pool = [rnd_bytes(rng, rng.choice([0, 1, 2, 5, 17])) for _ in range(rng.randrange(0, 6))]
    strs = [rng.choice(pool) for _ in range(rng.randrange(0, 14))] if pool else []
    ns = max(1, len(set(strs)))
    code = rnd_bytes(rng, rng.choice([0, 0, 1, 9, 40, 300]))
    fns = ['%d.%d.%d.%d.%d.%d' % (rng.randrange(ns), rng.choice([0, 1, 255, 65535]), rng.choice([0, 10, 2 ** 32 - 1]), rng.randrange(400),
                                    rng.choice([0, 3, 65535]), rng.choice([0, 1])) for _ in range(rng.choice([0, 0, 1, 2, 7]))]
    dbg = ['%d.%d' % (rng.randrange(400), rng.choice([1, 77, 2 ** 32 - 1])) for _ in range(rng.choice([0, 0, 1, 5]))]
    imps = []
    holes = False
    for _ in range(rng.choice([0, 0, 1, 3])):
        pc = rng.choice([0, 0, 1, 2, 6, 200])
        if pc == 0:
            pt = rng.choice(['-', 'null'])
        elif fill == 'z' and rng.random() < 0.25:
            pt = 'null'; holes = True                 # param_count > 0 with a NULL pointer: bytes left to calloc
        else:
            pt = rnd_bytes(rng, pc)
        imps.append('%d.%d.%d.%d.%s' % (rng.randrange(ns), rng.randrange(ns), pc, rng.randrange(256), pt))
    line = 'mod fill=%s flags=%d entry=%d S:%s C:%s F:%s D:%s I:%s' % (
        fill, rng.choice([0, 1, 3, 7, 2 ** 32 - 1]), rng.choice([0, 1, 2 ** 32 - 1]), ','.join(strs), code, ','.join(fns), ','.join(dbg), ','.join(imps))
    return line, holes


def model_tie(ck, probe, ref, artifacts, rows):
    rng = ck.rng
    from collections import Counter
    st = Counter()
    # (1) generated module descriptions; each is given to the model with a zero buffer and with two dirty buffers
    lines, groups = [], []
    n = 1500 if ck.thorough else 250
    for _ in range(n):
        l0, holes = gen_module(rng, 'z')
        fills = ['z'] if holes else ['z', str(rng.randrange(1, 250)), str(rng.randrange(1, 250))]
        st['modules_with_null_param_types'] += holes
        groups.append((len(lines), len(fills)))
        for f in fills:
            lines.append(l0.replace('fill=z', 'fill=' + f, 1))
    # (2) every .nvm produced by the sweep: real deserialize -> description -> real re-serialize and model serialize == file bytes
    files = [(a['name'], a['nvm']) for a in artifacts if a.get('nvm')]
    loads = ['load ' + nvm.hex() for _, nvm in files]
    rc, o, e = vlib.sh([probe], input=('\n'.join(loads) + '\n').encode(), timeout=300, env=ASAN_ENV)
    descs = o.splitlines()
    if rc != 0 or len(descs) != len(loads):
        ck.fail('c19:ser_probe:load', 'ser_probe failed to load the sweep artifacts (rc=%s)' % rc, dict(stderr=e[-2000:]))
        descs = descs[:0]
    file_at = {}
    for (name, nvm), d in zip(files, descs):
        if not d.startswith('mod '):
            ck.fail('c19:nvm:undeserializable:' + name, 'nvm_deserialize refuses the file nano_virt --emit-nvm wrote for %s' % name, dict(program_name=name))
            continue
        for f in ('z', '5', '201'):
            file_at[len(lines)] = (name, nvm)
            lines.append(d.replace('fill=z', 'fill=' + f, 1))
        st['real_nvm_files'] += 1
        st['real_nvm_bytes'] += len(nvm)
    rc, o, e = vlib.sh([probe], input=('\n'.join(lines) + '\n').encode(), timeout=900, env=ASAN_ENV)
    impl = o.splitlines()
    if rc != 0 or len(impl) != len(lines):
        k = len(impl)
        ck.fail('c19:ser_probe:crash', 'ser_probe crashed / sanitizer report (rc=%s) at %s' % (rc, lines[k][:200] if k < len(lines) else '?'),
                dict(input=lines[k] if k < len(lines) else None, stderr=e[-3000:], engine='ser_probe(asan)'))
    model = vlib.run_lines(ref, lines, timeout=900)
    bad = 0
    for i, (l, a, m) in enumerate(zip(lines, impl, model)):
        ck.count(('mod', l), ' ok ' in a and len(a) > 120)
        if a != m:
            bad += 1
            ck.fail('c19:ser:' + hashlib.sha256(l.encode()).hexdigest()[:12],
                    'nvm_serialize / nvm_add_string differ from the model (model buffer %s): impl=%s.. model=%s..' % (l.split()[1], a[:120], m[:120]),
                    dict(input=l, expected_model=m, observed_impl=a, correspondence='ser_probe vs nvref_c19', engine='ser_probe(asan)'))
            if bad > 10: break
        if i in file_at:
            name, nvm = file_at[i]
            want = nvm.hex()
            if a.split(' ok ')[-1] != want:
                ck.fail('c19:reserialize:' + name, 'deserialize+serialize of the real .nvm of %s is not the file (real code)' % name,
                        dict(program_name=name, input=l, observed_impl=a[:400], file_hex=want[:400]))
    # (3) isa_encode with junk in everything it must not read
    rowsl = sorted(rows.items())
    enc = []
    for op, szs in rowsl:
        vals = [rng.getrandbits(64) for _ in range(4)]
        for seed in (0, rng.randrange(1, 10 ** 6), rng.randrange(1, 10 ** 6)):
            enc.append('encj %x %d %s' % (op, seed, ' '.join('%x' % v for v in vals)))
    for op in rng.sample([x for x in range(256) if x not in rows], 5):
        enc.append('encj %x %d 1 2 3 4' % (op, rng.randrange(1, 99)))
    rc, o, e = vlib.sh([probe], input=('\n'.join(enc) + '\n').encode(), timeout=300, env=ASAN_ENV)
    eimpl = o.splitlines()
    mlines = []
    for l, a in zip(enc, eimpl):
        f = a.split()
        k = f.index('cnt')
        mlines.append('encr %s %s %s' % (l.split()[1], f[k + 1], ' '.join(f[k + 3:k + 7])))
    emodel = vlib.run_lines(ref, mlines, timeout=300)
    for j, (l, a, m) in enumerate(zip(enc, eimpl, emodel)):
        got = ' '.join(a.split()[:a.split().index('cnt')])
        ck.count(('encj', l), got.startswith('ok'))
        st['encj'] += 1
        if got != m:
            ck.fail('c19:encj:' + l, 'isa_encode on a junk-filled DecodedInstruction differs from encode_raw: impl=%s model=%s' % (got, m),
                    dict(input=l, raw=a, expected_model=m, correspondence='ser_probe vs nvref_c19'))
        # the property itself on the real code: the three junk seeds of one (op, operands) give the same bytes
        if j % 3 and l.split()[1] == enc[j - 1].split()[1] and l.split()[3:] == enc[j - 1].split()[3:]:
            prev = ' '.join(eimpl[j - 1].split()[:eimpl[j - 1].split().index('cnt')])
            if prev != got:
                ck.fail('c19:encj-junk:' + l.split()[1], 'isa_encode output depends on junk in unused parts of the instruction (opcode %s)' % l.split()[1],
                        dict(input_a=enc[j - 1], input_b=l, out_a=prev, out_b=got, engine='ser_probe(asan)'))
    # the property itself on the model outputs: dirty buffers == zero buffer
    for start, k in groups:
        outs = set(model[start:start + k])
        if len(outs) != 1:
            ck.fail('c19:model:buffer-dependent', 'extracted serialize_into depends on the initial buffer on %s' % lines[start][:200], dict(input=lines[start]))
    st['module_lines'] = len(lines); st['generated_modules'] = n
    if lines:
        k = next((i for i in file_at), 0)
        ck.sample(dict(q=lines[k][:160] + '...', impl=impl[k][:120] + '...' if k < len(impl) else None, model=model[k][:120] + '...'))
    if enc:
        ck.sample(dict(q=enc[1], impl=eimpl[1], model=emodel[1]))
    return dict(st)


def run(ck):
    b = ck.build('plain')
    ck.gen(['gen_isa', 'gen_serconsts'])
    ck.prove()
    ref = ck.nvref('c19')
    probe = ck.probe('ser_probe.c', 'asan')
    n0 = ck.cov['evaluations']
    rule_sweep, artifacts = c19_sweep.sweep(ck, b)
    # replay dicts must not carry a key named 'kind' (vlib writes its own): rename for the replay file
    for f in ck.failures:
        if isinstance(f.get('replay'), dict) and 'kind' in f['replay']:
            f['replay']['artifact'] = f['replay'].pop('kind')
    n1 = ck.cov['evaluations']
    rows = c11.table_rows(b)
    st = model_tie(ck, probe, ref, artifacts or [], rows)
    ck.extra['model_tie'] = st
    ck.extra['evaluations_sweep'] = n1 - n0
    ck.extra['evaluations_model_tie'] = ck.cov['evaluations'] - n1
    ck.extra['what_is_proof_and_what_is_sweep'] = dict(
        proof='C19_serialize_ignores_buffer / C19_encode_ignores_padding / C19_pool_order_is_first_use (+ helpers) about the models '
              'NV.Nvm.SerializeBuf; tied to nvm_format.c / isa.c by the ser_probe-vs-extracted-model run (model_tie)',
        sweep='byte-identity of .nvm, generated C and diagnostics of the real tools across the configuration axes (c19_sweep); '
              'this is a finite sweep over generated programs, not a proof, and covers codegen.c / transpiler / module.c / main.c, which are not modelled')
    ck.extra['exhaustive'] = False
    ck.cov['rule'] = ('model tie: generated module descriptions (string pools with duplicates, empty/odd sections, imports with and without '
                      'parameter types, u16/u32 boundary field values) x {zero, two dirty} initial buffers + every .nvm of the sweep re-serialized + '
                      'every opcode with 3 junk fills of the DecodedInstruction; non-trivial = image > 60 bytes / defined opcode.  sweep: ' + (rule_sweep or ''))
    ck.trusted += ['translators tools/gen/dump_serconsts.c + gen_serconsts.py, dump_isa.c + gen_isa.py',
                   'extraction: ExtrOcamlBasic only; extract/nvio.ml + c19_driver.ml (parses the module description, builds the dirty initial buffer)',
                   'probes/ser_probe.c (builds the NvmModule through the repo API; junk-fills the DecodedInstruction then assigns typed members as emit_op does)',
                   'tools/props/c19_sweep.py (program generator, configuration axes, path normalisation of diagnostics)']
    ck.assumptions += ['module totals < 2^32 (the C computes sizes in uint32_t); little-endian host',
                       'serialize_ignores_buffer needs every import to carry its parameter types; otherwise the C relies on calloc (theorem C19_serialize_hole_inherits)',
                       'the sweep ranges over the configuration axes listed in coverage.c19_sweep.axes; wall-clock date cannot be varied in the sandbox',
                       'the three theorems do not cover codegen.c / the transpiler / module.c: their reproducibility is evidenced by the sweep only']


def replay(ck, d):
    if d.get('key', '').startswith(('c19:ser:', 'c19:encj', 'c19:reserialize', 'c19:model')):
        ck.build('plain'); ck.gen(['gen_isa', 'gen_serconsts'])
        ref = ck.nvref('c19'); probe = ck.probe('ser_probe.c', 'asan')
        l = d.get('input') or d.get('input_a')
        rc, o, e = vlib.sh([probe], input=(l + '\n').encode(), env=ASAN_ENV, timeout=60)
        a = o.strip()
        if l.startswith('encj'):
            f = a.split(); k = f.index('cnt')
            m = vlib.run_lines(ref, ['encr %s %s %s' % (l.split()[1], f[k + 1], ' '.join(f[k + 3:k + 7]))])[0]
            a = ' '.join(f[:k])
        else:
            m = vlib.run_lines(ref, [l])[0]
        print('input:', l[:300]); print('impl :', a[:300], '(rc=%s)' % rc); print('model:', m[:300])
        same = rc == 0 and a == m
        print('REPRODUCED' if not same else 'not reproduced')
        return 0 if same else 1
    d2 = dict(d)
    if 'artifact' in d2:
        d2['kind'] = d2['artifact']
    return c19_sweep.replay_sweep(ck, d2)
