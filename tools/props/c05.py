"""C05 -- ill-formed programs are never turned into a runnable artifact.
Proof (NV/Props/Properties_C05.v): every mutant of the rule catalogue Lang/Mutate.mut is rejected by the reference type
checker (mut_ill_typed, per rule, all programs and positions); the drivers' phase machine stops at a failed type check
(driver_stops, over the phase table read from src/main.c and src/nanovirt/main.c); the table of the type checker's
diagnostic call sites (gen/DiagSites.v from the clang AST of src/typechecker.c) has no unflagged site outside the committed
triage table (all_error_sites_flagged).
Oracle on the implementation: for generated well-typed programs and every applicable (rule, position) the three REAL tools
  nanoc x -o f / nano_virt x --run / nano_virt x --emit-nvm -o f
must exit non-zero, print a diagnostic, leave no f, print no program output.  Mutants come from the extracted `mut`.
A mutant the real type checker lets through is attributed to the unchecked place that lets it through (tc_common.root_cause);
those places are the open findings; an accepted mutant with any other attribution is a violation."""
import os, sys, random, collections, json, hashlib
import vlib, progen, langlib
import tc_common as T
import c02, scope_witnesses

TOOLS = ('run', 'emit', 'nanoc')
PIPE_TOOL = dict(run='virt-run', emit='virt-emit', nanoc='nanoc')


def witness_sources():
    """minimal hand-written programs, one per unchecked place (replayed on the real tools on every run)"""
    F1 = 'fn f1(v2: int) -> int {\n    return v2\n}\nshadow f1 { assert true }\n'
    def main(body, pre=F1):
        return pre + 'fn main() -> int {\n' + body + '\n    return 0\n}\nshadow main { assert true }\n'
    W = {
        'order-operands-unchecked': main('    let v5: bool = (< 1 true)\n    (println v5)'),
        'equality-operands-unchecked': main('    let v5: bool = (== 1 true)\n    (println v5)'),
        'logic-operands-unchecked': main('    let v5: bool = (and 1 2)\n    (println v5)'),
        'not-operand-unchecked': main('    let v5: bool = (not 5)\n    (println v5)'),
        'call-arg-type-unchecked': main('    let v5: int = (f1 true)\n    (println v5)'),
        'print-arg-unchecked': main('    (println (+ 1 true))'),
        'call-stmt-unchecked': main('    (f1 1 2)\n    (println 7)'),
        'cond-test-unchecked': main('    (println (cond (1 2) (else 3)))'),
        'cond-branch-unchecked': main('    let v5: int = (cond (true (+ 1 true)) (else 3))\n    (println v5)'),
        'range-bound-unchecked': main('    for v5 in (range true 3) {\n        (println v5)\n    }'),
        'no-return-path-check': main('    (println (f3 1))', F1 + 'fn f3(v4: int) -> int {\n    if (> v4 5) {\n        return 1\n    }\n}\nshadow f3 { assert true }\n'),
        'block-scope-not-popped': main('    if true {\n        let v5: int = 4\n        (println v5)\n    }\n    (println v5)'),
        'function-scope-not-popped': main('    (println (- 5 v4))', F1 + 'fn f3(v4: bool) -> int {\n    return 3\n}\nshadow f3 { assert true }\n'),
        # outside the fragment of Lang/Ast.v (structs, unions, match, opaque types): programs for the remaining triaged diagnostic sites
        'struct-literal-unknown-field': main('    let p: Point = Point { x: 1, z: 2 }\n    (println p.x)', 'struct Point {\n    x: int,\n    y: int\n}\n'),
        'struct-literal-field-type-unchecked': main('    let p: Point = Point { x: 1, y: true }\n    (println p.y)', 'struct Point {\n    x: int,\n    y: int\n}\n'),
        'variant-field-type-unchecked': main('    let opt: Option = Option.Some { value: true }\n    match opt {\n        Some(s) => {\n            (println s.value)\n        }\n'
                                             '        None(n) => {\n            (println 0)\n        }\n    }', 'union Option {\n    Some { value: int },\n    None { }\n}\n'),
        'match-arm-types-unchecked': main('    let opt: Option = Option.Some { value: 4 }\n    let v: int = match opt { Some(s) => s.value, None(n) => true }\n    (println v)',
                                          'union Option {\n    Some { value: int },\n    None { }\n}\n'),
        'opaque-arg-type-unchecked': main('    let v: int = (hnd true)\n    (println v)', 'opaque type Handle\nfn hnd(h: Handle) -> int {\n    return 1\n}\nshadow hnd { assert true }\n'),
        # arrays (array<int>): operands of at / array_length and the element type of a literal
        'at-index-unchecked': main('    let v5: array<int> = [1, 2, 3]\n    let v6: int = (at v5 true)\n    (println v6)'),
        'at-array-operand-unchecked': main('    let v6: int = (at [1, 2, 3] 0)\n    (println (+ v6 (at 7 0)))'),
        'array-length-arg-unchecked': main('    let v6: int = (array_length 7)\n    (println v6)'),
        'array-element-type-unchecked': main('    let v5: array<int> = [true]\n    (println (+ 1 (at v5 0)))'),
        # strings as computed values: the operands of str_length / str_concat / str_equals / str_contains / char_at / str_substring / int_to_string
        'string-builtin-arg-unchecked': main('    let v5: int = (str_length 7)\n    (println (int_to_string "x"))\n    (println v5)'),
        'string-plus-unknown-operand': main('    let v5: string = (+ (+ "a" true) "b")\n    (println v5)'),
        'anon-struct-literal-arg': main('    let v: int = (f1 { x: 1, y: 2 })\n    (println v)', 'struct Point {\n    x: int,\n    y: int\n}\n' + F1),
        # reviewer's program: a string literal for an int parameter inside println -- the same diagnostic site as call-arg-type-unchecked,
        # here the VM then stops with a run-time type error and cc refuses the C text
        'call-arg-type-unchecked:string-for-int': main('    (println (f "a"))', 'fn f(v: int) -> int {\n    return (+ v 1)\n}\nshadow f { assert (== (f 1) 2) }\n'),
        # a user function named like the builtin `exit`: diagnostic printed, then the type checker dereferences NULL (SIGSEGV in all tools)
        # rules repaired in /repo (8ea1c10, d9c025c, b7fbdaa): kept as witnesses so that a regression is a violation
        'duplicate-parameter-names': main('    (println (f3 1 2))', 'fn f3(v4: int, v4: int) -> int {\n    return v4\n}\nshadow f3 { assert true }\n'),
        'main-with-parameters': 'fn main(v1: int) -> int {\n    return 0\n}\nshadow main { assert true }\n',
        'void-variable': main('    let v5: void = (f3)', 'fn f3() -> void {\n    (println 1)\n}\nshadow f3 { assert true }\n'),
        'redefine-builtin-exit-crash': 'fn exit(v: int) -> int {\n    return (+ v 1)\n}\nshadow exit { assert (== (exit 1) 2) }\n'
                                       'fn main() -> int {\n    (println (exit 2))\n    return 0\n}\nshadow main { assert true }\n',
    }
    # symbol-table attributes that must not leak across functions / blocks (ill-formed variants: must be refused)
    W.update(scope_witnesses.ill())
    return W


def handwritten_programs():
    """well-typed programs with the control shapes the random generator reaches only by luck"""
    import lang_findings
    N = lang_findings.N; V = lang_findings.V; P = lang_findings.P; seq = lang_findings.seq; fn = lang_findings.fn; prog = lang_findings.prog
    sign = fn(1, [(2, 'int')], 'int',
              ('if', ('bin', 'lt', V(2), N(0)), ('ret', N(-1)),
               ('if', ('bin', 'eq', V(2), N(0)), ('ret', N(0)),
                ('if', ('bin', 'lt', V(2), N(10)), ('ret', N(1)), ('ret', N(2))))))
    main = fn(0, [], 'int', seq(('let', True, 3, 'int', N(0)),
                                ('for', 4, N(-1), N(12), seq(('if', ('bin', 'eq', ('call', 1, [V(4)]), N(1)), ('set', 3, ('bin', 'add', V(3), N(1))),
                                                                    ('if', ('bin', 'gt', V(4), N(10)), P(V(4)), ('skip',))), ('skip',))),
                                ('while', ('bin', 'gt', V(3), N(7)), ('set', 3, ('bin', 'sub', V(3), N(1)))),
                                ('assert', ('bin', 'eq', V(3), N(7))), P(V(3)), ('ret', N(0))))
    return [prog([sign, main])]


def judge(obs):
    """-> dict tool -> list of what is wrong (empty list = the tool refused the program properly)"""
    return {t: T.c05_tool_verdict(t, obs[t]) for t in obs}


def brief(obs):
    return {t: dict(rc=o['rc'], artifact=o['artifact'], stdout=o['out'][:200].decode('latin1'), stderr=T.ANSI.sub('', o['err'])[-500:]) for t, o in obs.items()}


def run(ck):
    b = ck.build('plain')
    ck.gen(['gen_isa', 'gen_intfmt', 'gen_driverphases', 'gen_diagsites'])
    ck.prove()
    nv = ck.nvref('c04')
    probe = ck.probe('tc_probe.c')
    for k in ('rules', 'tc_verdicts', 'root_causes', 'tool_runs', 'refused_by'):
        ck.extra[k] = collections.Counter()
    known_keys = {k['key'] for k in ck.known}
    pipe_model = {t: vlib.run_lines(nv, ['pipe %s typecheck' % PIPE_TOOL[t]])[0] for t in TOOLS}
    ck.extra['pipeline_model_on_failed_typecheck'] = pipe_model

    with langlib.Work('c05') as wd:
        # ---- 1. witnesses of the recorded findings, replayed on the real tools
        wit = witness_sources()
        def onew(kv):
            k, src = kv
            return k, src, T.run_three(b, wd, 'w_' + k.replace('-', '_'), src)
        for k, src, obs in langlib.pmap(onew, sorted(wit.items())):
            bad = {t: v for t, v in judge(obs).items() if v}
            ck.count('witness:' + k, True)
            if bad:
                ck.fail('c05:' + k, 'ill-formed program is not refused: ' + json.dumps(bad), dict(source=src, rule_violated=k, tools=brief(obs)))
        # ---- 1a'. the rest of the front end (C05_driver_stops_front): a lexer, parser or import failure stops all three tools
        #      exactly as Driver/Pipeline.run_tool says for that failing phase (fixed family; main would print RAN if it ran)
        MAINSRC = 'fn main() -> int {\n  (println "RAN")\n  return 0\n}\nshadow main { assert (== (main) 0) }\n'
        open(os.path.join(wd, 'c05_badmod.nano'), 'w').write('fn broken() -> int { return (+ 1 }\n')
        front = {
            'lex:unterminated-string-after-main': MAINSRC + 'let q: string = "unterminated\n',
            'lex:unterminated-string-before-main': 'let q: string = "unterminated\n' + MAINSRC,
            'parse:missing-paren-in-other-fn': MAINSRC + 'fn g() -> int { return (+ 1 }\n',
            'parse:stray-token-at-top-level': MAINSRC + ')\n',
            'parse:missing-brace-of-main': MAINSRC.replace('}\nshadow', '\nshadow'),
            'imports:no-such-module': 'import "c05_no_such_module.nano"\n' + MAINSRC,
            'imports:module-does-not-parse': 'import "c05_badmod.nano"\n' + MAINSRC,
        }
        front_model = {(ph, t): vlib.run_lines(nv, ['pipe %s %s' % (PIPE_TOOL[t], ph)])[0] for ph in ('lex', 'parse', 'imports') for t in TOOLS}
        ck.extra['pipeline_model_on_failed_front_phase'] = {'%s:%s' % k: v for k, v in front_model.items()}
        def onefront(kv):
            k, src = kv
            return k, src, T.run_three(b, wd, 'fe_' + k.replace(':', '_').replace('-', '_'), src)
        for k, src, obs in langlib.pmap(onefront, sorted(front.items())):
            ck.count('front-phase:' + k, True)
            ph = k.split(':')[0]
            for t in TOOLS:
                ob = obs[t]
                executed = bool(ob['out']) if t == 'run' else False
                real = 'exit=%d artifact=%d executed=%d diag=%d' % (0 if ob['rc'] == 0 else 1, 1 if ob['artifact'] else 0, 1 if executed else 0,
                                                                   1 if T.has_error_diag(ob['err']) else 0)
                if real != front_model[(ph, t)] or (ob['rc'] is not None and ob['rc'] < 0):
                    ck.fail('c05:front-phase:%s:%s' % (k, t), 'a %s failure does not stop %s as Driver/Pipeline.v says: model %s, real %s (rc=%s)'
                            % (ph, t, front_model[(ph, t)], real, ob['rc']), dict(source=src, failing_phase=ph, tools=brief(obs)))
        # ---- 1b. name used after its block x how the block ends x kind of block x position of the use (90 fixed programs)
        fam = scope_witnesses.exit_family()
        fsx = {k: progen.to_sexp(p) for k, p in fam.items()}
        fwt = dict(zip(fam, T.model_wt(nv, [fsx[k] for k in fam])))
        known_entries = {k['key']: k for k in ck.known}
        def onef(kv):
            k, p = kv
            src = T.to_nano(p)
            return k, src, T.run_three(b, wd, 'x_' + k.replace(':', '_').replace('-', '_'), src)
        exit_tab = collections.Counter()
        for k, src, obs in langlib.pmap(onef, sorted(fam.items())):
            ck.count('scope-exit:' + k, True)
            if fwt[k]:
                ck.fail('c05:model:%s:well-typed' % k, 'a name-used-after-its-block program is accepted by the reference checker (Types.v or the family is wrong)', dict(source=src, program_sexp=fsx[k]))
            bad = {t: v for t, v in judge(obs).items() if v}
            exit_tab['refused by all three' if not bad else 'not refused by ' + '+'.join(sorted(bad))] += 1
            if bad:
                rep = dict(source=src, program_sexp=fsx[k], rule_violated='name used after its block: ' + k, tools=brief(obs))
                ent = known_entries.get('c05:' + k)
                if ent is not None and ent.get('failing_tools'):
                    for t in sorted(set(bad) - set(ent['failing_tools'])):      # a recorded program that a FURTHER tool now accepts: own key
                        ck.fail('c05:%s:%s' % (k, t), 'ill-formed program now also not refused by %s: %s' % (t, json.dumps(bad[t])), rep)
                ck.fail('c05:' + k, 'ill-formed program is not refused: ' + json.dumps(bad), rep)
        ck.extra['scope_exit_family'] = dict(programs=len(fam), verdicts=dict(exit_tab))
        # ---- 2. generated programs x catalogue
        cfg = c02.stream_cfg(ck)
        nprog = 40 if ck.thorough else 8
        per_key = 24 if ck.thorough else 5
        cap = 90
        progs = handwritten_programs()          # deterministic shapes first (else-if chains, nested control): their mutants are always present
        nprog += len(progs)
        for i in range(nprog - len(progs)):
            # every second program re-uses names of earlier functions' locals/parameters (other mutability / type): scoping is per function
            cfg_i = cfg if i % 2 == 0 else progen.Cfg(**dict(cfg.__dict__, reuse_names_across_fns=True))
            g = progen.Gen(random.Random(ck.seed * 6151 + i), cfg_i)
            progs.append(g.gen_program())
            for f_ in ('name_reuse_across_fns', 'name_reuse_other_mutability_now_immutable', 'name_reuse_other_mutability_now_mutable', 'name_reuse_other_type'):
                ck.extra.setdefault('name_reuse', {})[f_] = ck.extra.get('name_reuse', {}).get(f_, 0) + g.feat.get(f_, 0)
        sx = [progen.to_sexp(p) for p in progs]
        wts = T.model_wt(nv, sx)
        for i, ok in enumerate(wts):
            if not ok:
                ck.fail('c05:gen:%d:%d:not-wt' % (ck.seed, i), 'generator produced a program the reference checker rejects (generator or Types.v defect)',
                        dict(program_sexp=sx[i], source=T.to_nano(progs[i])))
        muts = T.model_mutants(nv, sx)
        items = []
        for i, ms in enumerate(muts):
            if not wts[i]:
                continue
            for q in ms:
                q['prog'] = i
                q['src'] = T.to_nano(T.prog_ast(q['sexp']))            # `else if` chains wherever the tree allows them
                q['cause'] = T.root_cause(q['rule'], progs[i]['fns'][q['fn']], q['path'], q['arg'])
                q['cls'] = T.mutant_class(q['rule'], progs[i]['fns'][q['fn']], q['path'])
                items.append(q)
                ck.extra['rules'][q['rule']] += 1
                if T.in_else_if(progs[i]['fns'][q['fn']]['body'], q['path']):
                    # the same mutant spelled `else { if .. }`: the two spellings take different paths through parser and checker
                    q2 = dict(q, src=T.to_nano(T.prog_ast(q['sexp']), chain=False), spelling='else-block')
                    items.append(q2)
                    ck.extra['else_if_arm_mutants'] = ck.extra.get('else_if_arm_mutants', 0) + 1
                if q['wt']:
                    # contradicts mut_ill_typed: the extracted mut/wt are the proved functions, so this is a broken extraction or proof
                    ck.fail('c05:model:mutant-well-typed:%s' % q['rule'], 'a mutant is accepted by the reference checker (contradicts mut_ill_typed)',
                            dict(rule=q['rule'], fn=q['fn'], path=q['path'], arg=q['arg'], program_sexp=sx[i], mutant_sexp=q['sexp']))
        verd = T.probe_tc(probe, [q['src'] for q in items])
        torun = []
        by_cause = collections.defaultdict(list)
        for q, (v, err) in zip(items, verd):
            q['tc'] = v; q['tc_err'] = err
            ck.extra['tc_verdicts'][v] += 1
            if v == 'accept':
                by_cause[q['cause']].append(q)
            else:
                torun.append(q)              # refused by the front end: the drivers must stop (all of them are run)
        for q in items:
            q['run'] = False
        for cause, qs in sorted(by_cause.items(), key=lambda kv: str(kv[0])):
            ck.extra['root_causes'][str(cause)] += len(qs)
            if cause is not None and ('c05:' + cause) in known_keys:
                ck.rng.shuffle(qs)
                torun += qs[:per_key]        # open finding: a sample keeps replaying it, the rest is skipped
            else:
                # let through by the type checker for a reason that is NOT a recorded C05 finding: the tools must still refuse it
                # (later phase) -- every one is run (quick tier: at most `cap` per unchecked place, drawn at random)
                ck.rng.shuffle(qs)
                torun += qs if ck.thorough else qs[:cap]
        for q in torun:
            q['run'] = True
        for q in items:
            if not q['run']:
                ck.count((q['rule'], q['sexp']), False)      # judged by both type checkers only (open finding, not in the sample)
        def onem(t):
            j, q = t
            return q, T.run_three(b, wd, 'm%d' % j, q['src'])
        results = langlib.pmap(onem, list(enumerate(torun)))
    for q, obs in results:
        bad = {t: v for t, v in judge(obs).items() if v}
        nontrivial = True
        ck.count((q['rule'], q['sexp']), nontrivial)
        for t in obs:
            ck.extra['tool_runs'][t] += 1
        rep = dict(rule=q['rule'], fn=q['fn'], path=q['path'], arg=q['arg'], operator_class=q['cls'][0], consumer=q['cls'][1],
                   type_check=q['tc'], diagnostics=T.diag_titles(q['tc_err']), source=q['src'], mutant_sexp=q['sexp'],
                   original_sexp=sx[q['prog']], tools=brief(obs))
        if q['tc'] != 'accept':
            # the model of the drivers (Driver/Pipeline.v over gen/DriverPhases.v): exit 1, diagnostic, no artifact, nothing executed
            for t in TOOLS:
                ck.extra['refused_by']['%s:%s' % (t, 'front-end' if T.tc_rejected(obs[t]['err']) or 'arser' in obs[t]['err'] or 'arsing' in obs[t]['err'] else 'later')] += 1
            if q['tc'] != 'reject:types':
                ck.fail('c05:front:%s:%s' % (q['tc'], q['rule']), 'front end did not reach a type-check verdict on a mutant: %s' % q['tc'], rep)
            if bad:
                ck.fail('c05:driver:%s:%s' % ('+'.join(sorted(bad)), q['rule']),
                        'type_check refused the program but a driver did not stop as Driver/Pipeline.v says: ' + json.dumps(bad), rep)
            continue
        if not bad:
            continue                 # let through by the type checker but refused later by all three tools (C04 records these)
        if q['cause'] is not None:
            ck.fail('c05:' + q['cause'], 'ill-formed program is not refused: ' + json.dumps(bad), rep)
        else:
            ck.fail('c05:unexplained:%s:%s:%s' % (q['rule'], q['cls'][0], q['cls'][1]), 'ill-formed program is not refused: ' + json.dumps(bad), rep)
    if results:
        q, obs = results[0]
        ck.sample(dict(rule=q['rule'], mutant=q['src'][:900], type_check=q['tc'], tools={t: dict(rc=o['rc'], artifact=o['artifact']) for t, o in obs.items()}))
    for k in ('rules', 'tc_verdicts', 'root_causes', 'tool_runs', 'refused_by'):
        ck.extra[k] = dict(ck.extra[k])
    ck.extra['mutants_generated'] = len(items)
    ck.extra['mutants_run_on_tools'] = len(results)
    ck.extra['programs'] = nprog
    ck.cov['rule'] = ('every (rule, position) of the catalogue Lang/Mutate.mut (21 rules; positions = every node of every function body) applied to '
                      'type-directed random well-typed programs (progen); each mutant is checked by the extracted reference checker (must be ill-typed), '
                      'by the real front end (probe), and -- all front-end-refused mutants, all mutants accepted for an unrecorded reason, and a sample '
                      'per recorded unchecked place -- by the three real tools.  non-trivial = a mutant that was run on the three tools; distinct = '
                      'distinct (rule, mutant program)')
    ck.trusted += ['Lang/Types.v as a faithful transcription of the static rules of docs/SPECIFICATION.md sections 3-6, 8',
                   'extraction ExtrOcamlBasic only; extract/nvio.ml, nvio_z.ml, c04_driver.ml (S-expression reader/printer, enumeration of positions)',
                   'tools/progen.py (generator, renderer), tools/props/tc_common.py (S-expression -> source, attribution of accepted mutants, tool runner)',
                   'probes/tc_probe.c (calls tokenize, parse_program, type_check as the drivers do)',
                   'translators gen_driverphases / gen_diagsites (clang JSON AST; rule sets stated in their headers)']
    ck.assumptions += ['mutants of global initialisers are not generated (the catalogue addresses function bodies)',
                       'rules about fields/variants, resources and unsafe are outside the fragment of Lang/Ast.v']


def replay(ck, d):
    b = ck.build('plain')
    src = d.get('source')
    print(src)
    with langlib.Work('replay') as wd:
        obs = T.run_three(b, wd, 'r', src)
    bad = {t: v for t, v in judge(obs).items() if v}
    for t, o in brief(obs).items():
        print(t, o)
    print('REPRODUCED' if bad else 'not reproduced', bad)
    return 1 if bad else 0
