"""C04: the "function tail" axis -- independent of progen.

Non-void functions (result int / bool / string / struct / array<int>) whose LAST statement is a control construct with every
path returning: if/else, if / else-if / else chain, match STATEMENT on a union with all arms returning (with and without use of
the binding, 2 and 3 variants, match nested in an arm), while true { .. return .. }, for loop followed by return, if inside a
match arm, match inside an else branch, unsafe block ending in returns, a returned cond expression, early return followed by a
tail match.  Each function is called from main with arguments that select every path and the results are printed.  The void
analogues (the same tails printing instead of returning a value) and the same tails as the tail of `main` itself are included.
Every program the REAL type checker accepts must build and run on both backends without an internal failure class
(c04_matrix.classify) and the two backends must print the same.  Quick tier: one program per result type holding all tails
(split into one program per cell when it fails); the main-tail programs are single by nature.  Keys: c04:tail:<tail>:<type>."""
import re, json, collections
import vlib, langlib
import tc_common as T
import c04_matrix

DECLS = ('struct Pt {\n    x: int,\n    y: int\n}\n'
         'union U2 {\n    Some { value: int },\n    None { }\n}\n'
         'union U3 {\n    Ka { a: int },\n    Kb { b: int },\n    Kc { }\n}\n')

TYPES = {
    'int': dict(ty='int', A='11', B='22', C='33', frm=lambda v: '(+ %s 1)' % v),
    'bool': dict(ty='bool', A='true', B='false', C='true', frm=lambda v: '(> %s 0)' % v),
    'string': dict(ty='string', A='"aa"', B='"bb"', C='"cc"', frm=lambda v: '(int_to_string %s)' % v),
    'struct': dict(ty='Pt', A='Pt { x: 1, y: 2 }', B='Pt { x: 3, y: 4 }', C='Pt { x: 5, y: 6 }', frm=lambda v: 'Pt { x: %s, y: 0 }' % v),
    'array': dict(ty='array<int>', A='[1, 2]', B='[3, 4]', C='[5, 6]', frm=lambda v: '[%s, 1]' % v),
}
SOME = 'U2.Some { value: 5 }'
NONE = 'U2.None { }'
KA, KB, KC = 'U3.Ka { a: 7 }', 'U3.Kb { b: 8 }', 'U3.Kc { }'

# tail name -> (parameters, list of argument tuples, body builder(R, A, B, C, F) -> lines);  R(e) renders "return e"
def _m2(R, x, y, ind=''):
    return [ind + 'match o {', ind + '    Some(s) => {'] + [ind + '        ' + l for l in x] + [ind + '    }', ind + '    None(n) => {'] + \
           [ind + '        ' + l for l in y] + [ind + '    }', ind + '}']


def _m3(R, xa, xb, xc, ind=''):
    return [ind + 'match p {', ind + '    Ka(k) => {'] + [ind + '        ' + l for l in xa] + [ind + '    }', ind + '    Kb(k2) => {'] + \
           [ind + '        ' + l for l in xb] + [ind + '    }', ind + '    Kc(k3) => {'] + [ind + '        ' + l for l in xc] + [ind + '    }', ind + '}']


TAILS = collections.OrderedDict([
    ('if_else', ('sel: int', [('1',), ('0',)],
                 lambda R, A, B, C, F: ['if (> sel 0) {'] + ['    ' + l for l in R(A)] + ['} else {'] + ['    ' + l for l in R(B)] + ['}'])),
    ('else_if_chain', ('sel: int', [('0',), ('1',), ('2',)],
                       lambda R, A, B, C, F: ['if (== sel 0) {'] + ['    ' + l for l in R(A)] + ['} else if (== sel 1) {'] + ['    ' + l for l in R(B)] +
                                             ['} else {'] + ['    ' + l for l in R(C)] + ['}'])),
    ('match2_binding', ('o: U2', [(SOME,), (NONE,)], lambda R, A, B, C, F: _m2(R, R(F('s.value')), R(B)))),
    ('match2_nobinding', ('o: U2', [(SOME,), (NONE,)], lambda R, A, B, C, F: _m2(R, R(A), R(B)))),
    ('match3', ('p: U3', [(KA,), (KB,), (KC,)], lambda R, A, B, C, F: _m3(R, R(F('k.a')), R(B), R(C)))),
    ('match_nested_in_arm', ('o: U2, p: U3', [(SOME, KA), (SOME, KB), (SOME, KC), (NONE, KA)],
                             lambda R, A, B, C, F: _m2(R, _m3(R, R(F('k.a')), R(B), R(C)), R(A)))),
    ('while_true', ('sel: int', [('0',), ('3',)],
                    lambda R, A, B, C, F: ['let mut i: int = 0', 'while true {', '    if (>= i sel) {'] + ['        ' + l for l in R(A)] + ['    }', '    set i (+ i 1)', '}'])),
    ('for_then_return', ('sel: int', [('1',), ('5',)],
                         lambda R, A, B, C, F: ['for i in (range 0 sel) {', '    if (== i 2) {'] + ['        ' + l for l in R(A)] + ['    }', '}'] + R(B))),
    ('if_in_match_arm', ('o: U2, sel: int', [(SOME, '1'), (SOME, '0'), (NONE, '1')],
                         lambda R, A, B, C, F: _m2(R, ['if (> sel 0) {'] + ['    ' + l for l in R(F('s.value'))] + ['} else {'] + ['    ' + l for l in R(B)] + ['}'], R(C)))),
    ('match_in_else', ('sel: int, o: U2', [('9', SOME), ('1', SOME), ('1', NONE)],
                       lambda R, A, B, C, F: ['if (> sel 5) {'] + ['    ' + l for l in R(A)] + ['} else {'] + _m2(R, R(F('s.value')), R(C), '    ') + ['}'])),
    ('unsafe_tail', ('sel: int', [('1',), ('0',)],
                     lambda R, A, B, C, F: ['unsafe {', '    if (> sel 0) {'] + ['        ' + l for l in R(A)] + ['    } else {'] + ['        ' + l for l in R(B)] + ['    }', '}'])),
    ('cond_returned', ('sel: int', [('1',), ('0',)], lambda R, A, B, C, F: R('(cond ((> sel 0) %s) (else %s))' % (A, B)))),
    ('early_return_then_match', ('sel: int, o: U2', [('-1', SOME), ('1', SOME), ('1', NONE)],
                                 lambda R, A, B, C, F: ['if (< sel 0) {'] + ['    ' + l for l in R(C)] + ['}'] + _m2(R, R(F('s.value')), R(B)))),
])
RESULTS = ['int', 'bool', 'string', 'struct', 'array', 'void', 'main']


def show(t, call, n):
    """statements of main that print the result of `call` of type t"""
    if t in ('int', 'bool', 'string'):
        return ['(println %s)' % call]
    if t == 'struct':
        return ['let r%d: Pt = %s' % (n, call), '(println r%d.x)' % n, '(println r%d.y)' % n]
    if t == 'array':
        return ['let r%d: array<int> = %s' % (n, call), '(println (at r%d 0))' % n, '(println (array_length r%d))' % n]
    if t == 'void':
        return [call]
    raise ValueError(t)


def function(tail, t, fname):
    params, args, build = TAILS[tail]
    if t == 'void':
        ti = TYPES['int']
        R = lambda e: ['(println %s)' % e, 'return']
        body = build(R, ti['A'], ti['B'], ti['C'], ti['frm'])
        rt = 'void'
    else:
        ti = TYPES[t]
        R = lambda e: ['return %s' % e]
        body = build(R, ti['A'], ti['B'], ti['C'], ti['frm'])
        rt = ti['ty']
    return 'fn %s(%s) -> %s {\n%s\n}\nshadow %s { assert true }\n' % (fname, params, rt, '\n'.join('    ' + l for l in body), fname)


def program(cells):
    """cells: list of (tail, type) with type not 'main'"""
    fns, body = [], []
    n = 0
    for j, (tail, t) in enumerate(cells):
        fname = 'f%d_%s' % (j, tail)
        fns.append(function(tail, t, fname))
        for a in TAILS[tail][1]:
            n += 1
            body += ['    ' + l for l in show(t, '(%s %s)' % (fname, ' '.join(a)), n)]
    return DECLS + ''.join(fns) + 'fn main() -> int {\n' + '\n'.join(body) + '\n    return 0\n}\nshadow main { assert true }\n'


def main_program(tail, which):
    """the tail construct as the tail of main itself; the selectors are local constants (argument tuple number `which`)"""
    params, args, build = TAILS[tail]
    a = args[which % len(args)]
    ti = TYPES['int']
    R = lambda e: ['(println %s)' % e, 'return 0']
    lets = ['let %s = %s' % (p.strip(), v) for p, v in zip(params.split(','), a)]
    body = lets + build(R, ti['A'], ti['B'], ti['C'], ti['frm'])
    return DECLS + 'fn main() -> int {\n' + '\n'.join('    ' + l for l in body) + '\n}\nshadow main { assert true }\n'


def classify(obs):
    fails, same = c04_matrix.classify(obs)
    if not fails and not same:
        nat = obs['nanoc'].get('ran') or {}
        fails['differ-output'] = 'vm=%r native=%r' % (obs['run']['out'][:80], (nat.get('out') or b'')[:80])
    return fails


def run_tails(ck, b, probe, wd, thorough):
    known = {k['key'] for k in getattr(ck, 'known', [])}
    cells = [(tail, t) for t in RESULTS if t != 'main' for tail in TAILS]
    singles = {c: program([c]) for c in cells}
    mains = {(tail, 'main%d' % w): main_program(tail, w) for tail in TAILS for w in range(min(2, len(TAILS[tail][1])))}
    allsrc = dict(singles); allsrc.update(mains)
    keys = list(allsrc)
    verd = dict(zip(keys, T.probe_tc(probe, [allsrc[k] for k in keys])))
    table = {}
    failures = []
    for k in keys:
        if verd[k][0] != 'accept':
            table[k] = 'refused:' + verd[k][0].split(':')[-1]
            if not verd[k][0].startswith('reject'):
                failures.append(('c04:tail:%s:%s:front-end-%s' % (k[0], k[1], verd[k][0].replace(':', '-')), 'front end ends with %s' % verd[k][0],
                                 dict(tail=k[0], result=k[1], source=allsrc[k], type_check=verd[k][0])))

    def run_prog(name, src):
        obs = T.run_three(b, wd, name, src, want=('run', 'nanoc', 'native-run'))
        return obs, classify(obs)

    todo = [k for k in mains if verd[k][0] == 'accept']
    acc = [c for c in cells if verd[c][0] == 'accept']
    if thorough:
        todo += acc
    else:
        rec = [c for c in acc if 'c04:tail:%s:%s' % c in known]
        todo += rec
        groups = collections.defaultdict(list)
        for c in acc:
            if c not in rec:
                groups[c[1]].append(c)
        bsrc = {t: program(cs) for t, cs in groups.items()}
        bverd = dict(zip(bsrc, T.probe_tc(probe, list(bsrc.values()))))
        def oneb(t):
            if bverd[t][0] != 'accept':
                return t, {'batch': 'refused'}
            return t, run_prog('tlb_' + t, bsrc[t])[1]
        nsplit = 0
        for t, fails in langlib.pmap(oneb, sorted(bsrc)):
            if fails:
                nsplit += 1
                todo += groups[t]
            else:
                for c in groups[t]:
                    table[c] = 'ok'
        ck.extra['tails_batches'] = dict(batches=len(bsrc), split_into_singles=nsplit)

    def one(k):
        obs, fails = run_prog('tl_%s_%s' % k, allsrc[k])
        return k, obs, fails
    for k, obs, fails in langlib.pmap(one, todo):
        if not fails:
            table[k] = 'ok'
            continue
        table[k] = 'FAIL ' + json.dumps(fails, sort_keys=True)
        nat = obs['nanoc']
        failures.append(('c04:tail:%s:%s' % k,
                         'function tail %s with result %s: accepted by the type checker, then %s' % (k[0], k[1], json.dumps(fails, sort_keys=True)),
                         dict(tail=k[0], result=k[1], construct='tail:' + k[0], source=allsrc[k], type_check='accept', internal_failures=fails,
                              backends={t: dict(rc=o['rc'], stdout=o['out'][:300].decode('latin1'), stderr=T.ANSI.sub('', o['err'])[-700:]) for t, o in obs.items()},
                              native_binary=dict(rc=(nat.get('ran') or {}).get('rc'), stdout=((nat.get('ran') or {}).get('out') or b'')[:300].decode('latin1')))))
    per = collections.defaultdict(collections.Counter)
    for k in keys:
        r = table.get(k, '?')
        per[k[1] if not k[1].startswith('main') else 'main']['ok' if r == 'ok' else 'fail' if r.startswith('FAIL') else 'refused'] += 1
    ck.extra['tails_size'] = dict(tails=len(TAILS), results=len(RESULTS), cells=len(keys), accepted=sum(1 for k in keys if verd[k][0] == 'accept'),
                                  failing=sum(1 for k in keys if table.get(k, '').startswith('FAIL')))
    ck.extra['tails_per_result'] = {k: dict(v) for k, v in per.items()}
    ck.extra['tails_cells_not_ok'] = {'%s:%s' % k: table[k] for k in keys if table.get(k) != 'ok'}
    for k in keys:
        ck.count('tail:%s:%s' % k, table.get(k, '').startswith(('ok', 'FAIL')))
    return failures
