"""Shared by C04 and C05: the reference checker / mutation catalogue (extracted nvref_c04), the real front end (probes/tc_probe.c)
and the three real tools, with the classification of what they did."""
import os, re, sys, json, hashlib, random, collections, binascii
import vlib, progen, langlib

PROBE_MS = 4000
VM_FUEL = 2_000_000


# ------------------------------------------------------------------------------------------------ S-expressions -> progen AST
def _tok(s):
    return s.replace('(', ' ( ').replace(')', ' ) ').split()


def parse_sx(s):
    toks = _tok(s)
    pos = [0]

    def one():
        t = toks[pos[0]]; pos[0] += 1
        if t == '(':
            out = []
            while toks[pos[0]] != ')':
                out.append(one())
            pos[0] += 1
            return out
        return t
    return one()


def _z(h):
    return -int(h[1:], 16) if h.startswith('-') else int(h, 16)


def expr_ast(x):
    k = x[0]
    if k == 'num':
        return ('num', _z(x[1]))
    if k == 'bool':
        return ('bool', x[1] == '1')
    if k == 'str':
        return ('str', b'' if x[1] == '-' else bytes.fromhex(x[1]))
    if k == 'var':
        return ('var', int(x[1], 16))
    if k == 'un':
        return ('un', x[1], expr_ast(x[2]))
    if k == 'bin':
        return ('bin', x[1], expr_ast(x[2]), expr_ast(x[3]))
    if k == 'call':
        return ('call', int(x[1], 16), [expr_ast(a) for a in x[2:]])
    if k == 'cond':
        return ('cond', expr_ast(x[1]), expr_ast(x[2]), expr_ast(x[3]))
    if k == 'arr':
        return ('arr', [expr_ast(a) for a in x[1:]])
    if k == 'at':
        return ('at', expr_ast(x[1]), expr_ast(x[2]))
    if k == 'len':
        return ('len', expr_ast(x[1]))
    if k in ('s1', 's2'):
        return (k, x[1]) + tuple(expr_ast(a) for a in x[2:])
    if k == 'substr':
        return ('substr',) + tuple(expr_ast(a) for a in x[1:])
    raise ValueError(x)


def stmt_ast(x):
    k = x[0]
    if k == 'skip':
        return ('skip',)
    if k == 'seq':
        return ('seq', stmt_ast(x[1]), stmt_ast(x[2]))
    if k == 'let':
        return ('let', x[1] == '1', int(x[2], 16), x[3], expr_ast(x[4]))
    if k == 'set':
        return ('set', int(x[1], 16), expr_ast(x[2]))
    if k == 'if':
        return ('if', expr_ast(x[1]), stmt_ast(x[2]), stmt_ast(x[3]))
    if k == 'while':
        return ('while', expr_ast(x[1]), stmt_ast(x[2]))
    if k == 'for':
        return ('for', int(x[1], 16), expr_ast(x[2]), expr_ast(x[3]), stmt_ast(x[4]))
    if k == 'break':
        return ('break',)
    if k == 'continue':
        return ('continue',)
    if k == 'ret':
        return ('ret', expr_ast(x[1]) if len(x) > 1 else None)
    if k == 'print':
        return ('print', x[1] == '1', expr_ast(x[2]))
    if k == 'assert':
        return ('assert', expr_ast(x[1]))
    if k == 'expr':
        return ('expr', expr_ast(x[1]))
    raise ValueError(x)


def prog_ast(sx):
    x = parse_sx(sx)
    assert x[0] == 'prog'
    return dict(main=int(x[1], 16),
                globals=[(int(g[1], 16), g[2], expr_ast(g[3])) for g in x[2][1:]],
                fns=[dict(name=int(f[1], 16), ret=f[2], params=[(int(p[0], 16), p[1]) for p in f[3]], body=stmt_ast(f[4]), effect=True)
                     for f in x[3][1:]])


# progen's tyname maps 'str' -> 'string' already; sexp uses 'str'
class _FixedChain:
    """a progen rng stand-in: prefix spelling, an else branch that is exactly one `if` is ALWAYS (chain=True) or NEVER written `else if`"""
    def __init__(self, chain):
        self.v = 0.0 if chain else 1.0
    def random(self):
        return self.v


def to_nano(p, chain=True):
    return progen.to_nano(p, 'prefix', _FixedChain(chain))


def in_else_if(body, path):
    """does the path go through (or end at) an `if` that is the whole else branch of an enclosing `if`?"""
    try:
        chain = node_at(body, path)
    except Exception:
        return False
    for i in range(1, len(chain)):
        if chain[i][0] == 'if' and chain[i - 1][0] == 'if' and path[i - 1] == 2:
            return True
    return False


# ------------------------------------------------------------------------------------------------ context of a mutation
def node_at(body, path):
    """walk a Mutate.at_stmt path; returns list of (kind, node) from the root to the addressed node"""
    chain = []
    n = body
    is_stmt = True
    for k in path:
        chain.append((n[0], n))
        t = n[0]
        if is_stmt:
            if t == 'seq':
                n = n[1 + k]
            elif t == 'let':
                n = n[4]; is_stmt = False
            elif t == 'set':
                n = n[2]; is_stmt = False
            elif t == 'if':
                n = n[1 + k]; is_stmt = k != 0
            elif t == 'while':
                n = n[1 + k]; is_stmt = k != 0
            elif t == 'for':
                n = n[2 + k]; is_stmt = k == 2
            elif t == 'ret':
                n = n[1]; is_stmt = False
            elif t == 'print':
                n = n[2]; is_stmt = False
            elif t in ('assert', 'expr'):
                n = n[1]; is_stmt = False
            else:
                raise ValueError((t, k))
        else:
            if t == 'un':
                n = n[2]
            elif t == 'bin':
                n = n[2 + k]
            elif t == 'call':
                n = n[2][k]
            elif t == 'cond':
                n = n[1 + k]
            elif t == 'arr':
                n = n[1][k]
            elif t == 'at':
                n = n[1 + k]
            elif t == 'len':
                n = n[1]
            elif t in ('s1', 's2'):
                n = n[2 + k]
            elif t == 'substr':
                n = n[1 + k]
            else:
                raise ValueError((t, k))
    chain.append((n[0], n))
    return chain


ARITH = ('add', 'sub', 'mul', 'div', 'mod')
ORDER = ('lt', 'le', 'gt', 'ge')


def opclass(n):
    t = n[0]
    if t == 'un':
        return 'neg' if n[1] == 'neg' else 'not'
    if t == 'bin':
        o = n[1]
        return 'arith' if o in ARITH else 'order' if o in ORDER else 'equality' if o in ('eq', 'ne') else 'logic'
    return t


def consumer(chain, path):
    """who looks at the TYPE of the addressed expression node: the innermost enclosing construct, with the operand/argument role"""
    if len(chain) < 2:
        return 'top'
    pk, pn = chain[-2]
    k = path[-1]
    if pk in ('un', 'bin'):
        return 'operand-of-' + opclass(pn)
    if pk == 'call':
        return 'call-arg'
    if pk == 'cond':
        return 'cond-test' if k == 0 else 'cond-branch'
    if pk == 'at':
        return 'at-array' if k == 0 else 'at-index'
    if pk == 'len':
        return 'array-length-arg'
    if pk == 'arr':
        return 'array-element'
    if pk in progen.STR_NODES:
        return 'string-builtin-arg'
    if pk == 'if':
        return 'if-cond'
    if pk == 'while':
        return 'while-cond'
    if pk == 'for':
        return 'range-bound'
    if pk == 'expr':
        return 'expr-stmt'
    return pk            # let, set, ret, print, assert


def mutant_class(rule, orig_fn, path):
    """(operator class of the mutated node, consumer of its type) -- used only to group and name findings"""
    try:
        chain = node_at(orig_fn['body'], path)
    except Exception:
        return ('?', '?')
    kind, node = chain[-1]
    if rule in ('operand',):
        return (opclass(node), consumer(chain, path))
    if rule in ('argtype', 'arity+', 'arity-', 'unknown-fn'):
        return ('call', consumer(chain, path))
    if rule in ('unknown-name', 'other-fn-local'):
        return ('var', consumer(chain, path))
    if rule == 'nonbool-cond':
        return (kind, consumer(chain, path) if kind == 'cond' else 'stmt')
    return (kind, 'stmt')


SILENT = {'missing-return': 'no-return-path-check', 'out-of-scope': 'block-scope-not-popped', 'other-fn-local': 'function-scope-not-popped',
          'out-of-scope-return': 'block-scope-not-popped', 'out-of-scope-break': 'block-scope-not-popped', 'out-of-scope-continue': 'block-scope-not-popped'}
CHECKED_STMT = ('let', 'set', 'ret', 'if', 'while', 'assert')
OP_ABSORB = {'order': 'order-operands-unchecked', 'equality': 'equality-operands-unchecked', 'logic': 'logic-operands-unchecked',
             'not': 'not-operand-unchecked'}


def _propagate(chain, path):
    """the addressed node yields TYPE_UNKNOWN: who is the first ancestor that does not pass it on?  None = a construct that
    compares the type with an expectation and fails the compilation (let/set/return/if/while/assert)."""
    i = len(chain) - 1
    while i > 0:
        pk, pn = chain[i - 1]
        k = path[i - 1]
        if pk in ('un', 'bin'):
            oc = opclass(pn)
            if oc in ('arith', 'neg'):
                i -= 1
                continue
            return OP_ABSORB[oc]
        if pk == 'call':
            return 'call-arg-type-unchecked'
        if pk == 'cond':
            return 'cond-test-unchecked' if k == 0 else 'cond-branch-unchecked'
        if pk == 'at':
            if k == 0:
                i -= 1               # (at UNKNOWN i) has no known element type: unknown again
                continue
            return 'at-index-unchecked'
        if pk == 'len':
            return 'array-length-arg-unchecked'
        if pk == 'arr':
            # an element of UNKNOWN type is compared with nothing: the literal is an array whatever its elements are
            return 'array-element-type-unchecked'
        if pk in progen.STR_NODES:
            # (+ UNKNOWN string) is typed string on purpose ("preserves the string context through nested (+ a (+ b c))",
            # src/typechecker.c): the other operand of a string + absorbs UNKNOWN; the builtins' operands are never looked at
            if pk == 's2' and pn[1] == 'plus':
                return 'string-plus-unknown-operand'
            return 'string-builtin-arg-unchecked'
        if pk == 'print':
            return 'print-arg-unchecked'
        if pk == 'expr':
            return 'call-stmt-unchecked'
        if pk == 'for':
            return 'range-bound-unchecked'
        if pk in CHECKED_STMT:
            return None
        return 'unclassified-' + pk
    return 'unclassified-top'


def root_cause(rule, orig_fn, path, arg=0):
    """Why would the real type checker let this mutant through?  The name of the unchecked place (a key suffix of the
    known findings), or None when every construct on the way compares types and the mutant must be refused."""
    if rule in SILENT:
        return SILENT[rule]
    if rule in ('set-immutable', 'set-param', 'set-loopvar', 'wrong-return', 'return-novalue', 'void-variable', 'dup-param', 'main-param'):
        return None
    try:
        chain = node_at(orig_fn['body'], path)
    except Exception:
        return 'unclassified-path'
    kind, node = chain[-1]
    if rule == 'nonbool-cond':
        return 'cond-test-unchecked' if kind == 'cond' else None
    if rule == 'argtype':
        return 'call-arg-type-unchecked'
    if rule == 'operand':
        oc = opclass(node)
        if oc in OP_ABSORB:
            return OP_ABSORB[oc]
        if oc == 'at':
            # Mutate.rw_operand: odd arg -> the index becomes a bool/string literal, even -> the array operand an int/bool literal
            return 'at-index-unchecked' if arg % 2 == 1 else 'at-array-operand-unchecked'
        if oc == 'len':
            return 'array-length-arg-unchecked'
        if oc in progen.STR_NODES:
            # the operands of (+ a b) are compared (string + string or numbers: TYPE MISMATCH, the sum is UNKNOWN and the consumers
            # above decide, as for arithmetic); the string builtins' operands are never looked at
            return _propagate(chain, path) if (oc == 's2' and node[1] == 'plus') else 'string-builtin-arg-unchecked'
        if oc == 'arr':
            # the first element becomes a bool/string literal.  A one-element literal is then an array of bools/strings, which
            # passes for array<int> everywhere.  With more elements the checker prints "Array elements must all have the same
            # type" and types the literal `unknown` -- except under `at`, which takes the type of the FIRST element (the wrong
            # literal's): in both cases what happens next is decided by the consumers above
            if len(node[1]) == 1:
                return 'array-element-type-unchecked'
            if len(chain) >= 2 and chain[-2][0] == 'at' and path[-1] == 0:
                return _propagate(chain[:-1], path[:-1])
            return _propagate(chain, path)
        return _propagate(chain, path)
    if rule in ('arity+', 'arity-', 'unknown-fn', 'unknown-name'):
        return _propagate(chain, path)
    return 'unclassified-rule'


# ------------------------------------------------------------------------------------------------ model side
def model_wt(nv, sexps):
    out = vlib.run_lines(nv, ['wt ' + s for s in sexps], timeout=600)
    return [o == 'ok' for o in out]


def model_mutants(nv, sexps, limit=0):
    """per program: list of dict(rule, fn, path, arg, wt, sexp)"""
    out = vlib.run_lines(nv, ['muts %d %s' % (limit, s) for s in sexps], timeout=900)
    res = []
    for l in out:
        parts = l.split(' | ')
        ms = []
        for q in parts[1:]:
            f = q.split(' ', 5)
            ms.append(dict(rule=f[0], fn=int(f[1]), path=[] if f[2] == '-' else [int(x) for x in f[2].split('.')], arg=int(f[3], 16),
                           wt=f[4] == 'ok', sexp=f[5]))
        res.append(ms)
    return res


# ------------------------------------------------------------------------------------------------ real front end
def probe_tc(probe, sources):
    """-> list of (verdict, stderr-text)"""
    lines = ['tc %d %s' % (PROBE_MS, (binascii.hexlify(s.encode('latin1')).decode() or '-')) for s in sources]
    out = []
    # several probe processes in parallel
    chunks = [lines[i::16] for i in range(16)]
    res = langlib.pmap(lambda ch: vlib.run_lines(probe, ch, timeout=1200) if ch else [], chunks)
    merged = [None] * len(lines)
    for ci, r in enumerate(res):
        for j, l in enumerate(r):
            merged[ci + 16 * j] = l
    for l in merged:
        v, _, e = l.partition(' err=')
        out.append((v, '' if e in ('-', '') else bytes.fromhex(e).decode('utf-8', 'replace')))
    return out


ANSI = re.compile(r'\x1b\[[0-9;]*m')


def diag_titles(err):
    """the diagnostics a type-check run printed: context-error titles and 'Error ...' lines (warnings dropped)"""
    err = ANSI.sub('', err)
    out = []
    for l in err.split('\n'):
        m = re.match(r'^-- ([A-Z][A-Z ]+[A-Z]) -+', l)
        if m:
            out.append(m.group(1)); continue
        m = re.match(r'^Error(?: at line \d+, column \d+)?: (.*)$', l)
        if m:
            out.append('Error: ' + re.sub(r"'[^']*'|`[^`]*`|\d+", '_', m.group(1))[:70])
    return out


def has_error_diag(err):
    err = ANSI.sub('', err)
    return bool(re.search(r'(?m)^-- [A-Z]|[Ee]rror|failed', err))


# ------------------------------------------------------------------------------------------------ the three tools
INTERNAL_MARKS = [
    ('cc-failed', 'C compilation failed'), ('transpile-failed', 'Transpilation failed'), ('codegen-failed', 'codegen failed'),
    ('verify-failed', 'bytecode verification failed'),
]
RUNTIME_INTERNAL = re.compile(r'runtime error: (.*)')
DOCUMENTED_RUNTIME = ('Assertion failed', 'assertion', 'Array index out of bounds', 'index out of', 'out of bounds', 'Call depth', 'call depth',
                      'Stack overflow: call depth', 'instruction budget exhausted', 'Division by zero', 'division by zero')


def run_three(b, wd, name, src, want=('run', 'emit', 'nanoc')):
    """run the three tool invocations on one source text; fresh -o paths inside wd.  Returns dict tool -> observation."""
    path = os.path.join(wd, name + '.nano')
    open(path, 'w').write(src)
    obs = {}
    env = dict(os.environ, NANOLANG_VERIF_FUEL=str(VM_FUEL))
    if 'run' in want:
        rc, o, e = langlib.run_cmd([b.bin('nano_virt'), path, '--run'], 30, env)
        obs['run'] = dict(rc=rc, out=o, err=e.decode('utf-8', 'replace'), artifact=False)
    if 'emit' in want:
        art = os.path.join(wd, name + '.emit.nvm')
        rc, o, e = langlib.run_cmd([b.bin('nano_virt'), path, '--emit-nvm', '-o', art], 30, env)
        obs['emit'] = dict(rc=rc, out=o, err=e.decode('utf-8', 'replace'), artifact=os.path.exists(art))
        if os.path.exists(art):
            os.unlink(art)
    if 'nanoc' in want:
        art = os.path.join(wd, name + '.native.bin')
        rc, o, e = langlib.run_cmd([b.bin('nanoc'), path, '-o', art], 180)
        ob = dict(rc=rc, out=o, err=(o + e).decode('utf-8', 'replace'), artifact=os.path.exists(art), ran=None)
        if os.path.exists(art) and 'native-run' in want:
            rc2, o2, e2 = langlib.run_cmd([art], 30)
            ob['ran'] = dict(rc=rc2, out=o2, err=e2.decode('utf-8', 'replace'))
        if os.path.exists(art):
            os.unlink(art)
        obs['nanoc'] = ob
    return obs


def tc_rejected(err):
    return 'type check failed' in err or 'Type checking failed' in err


def internal_failure(tool, ob):
    """C04: name of the internal failure class an ACCEPTED program ended in, or None"""
    err = ANSI.sub('', ob['err'])
    for k, m in INTERNAL_MARKS:
        if m in err:
            return k
    if tool == 'run':
        if ob['rc'] == -9:
            return None        # budget/timeouts are not internal failures
        if ob['rc'] is not None and ob['rc'] < 0:
            return 'vm-signal%d' % -ob['rc']
        m = RUNTIME_INTERNAL.search(err)
        if m and not any(d in m.group(1) for d in DOCUMENTED_RUNTIME):
            return 'vm-runtime:' + re.sub(r'\d+', 'N', m.group(1))[:50]
    if tool == 'nanoc' and ob.get('ran'):
        r = ob['ran']
        if r['rc'] == -6 and 'Index out of bounds' in r.get('err', ''):
            return None                  # the runtime's index assertion: the documented out-of-bounds fault
        if r['rc'] is not None and r['rc'] < 0 and r['rc'] != -9 and -r['rc'] not in (8,):      # SIGFPE = documented division fault
            return 'native-signal%d' % -r['rc']
    return None


def c05_tool_verdict(tool, ob):
    """C05: list of what is wrong with this tool's handling of an ill-formed program (empty = correctly refused)"""
    bad = []
    if ob['rc'] == 0:
        bad.append('exit-0')
    if ob['rc'] is not None and ob['rc'] < 0:
        bad.append('killed-or-timeout(%s)' % ob['rc'])
    if ob['artifact']:
        bad.append('artifact-written')
    if tool == 'run' and ob['out']:
        bad.append('program-output')
    if tool == 'run' and 'runtime error' in ob['err']:
        bad.append('program-was-executed')
    if not has_error_diag(ob['err']):
        bad.append('no-diagnostic')
    return bad
