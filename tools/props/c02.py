"""C02 -- every execution engine implements the defined semantics.
Proof: NV/Props/Properties_C02.v (operator table for all int64 operands, compiler-model facts, simulation lemmas).
Ties (all run on every check):
  A  model bytecode == real bytecode:  Back/VmCompile.compile_program vs `nano_virt --emit-nvm` (code, string pool, function table)
  B  model VM run == real VM run:      Back/VmExec.run_vm vs `nano_virt --run` (stdout, exit class)
  C  model native run == real native:  Back/NatSem.run_nat RtoL vs the binary nanoc builds
Property-level oracle (independent of the engine models): real VM and real native vs Lang/Ref.run_ref.
"""
import os, sys, random, collections, json
import vlib, progen, langlib, lang_findings

FUEL_VM = 60000


def same_as_ref(r, real, eng=None, oob_prefix=False):
    """r: parsed reference outcome; real: dict(cls, rc, out) of an engine run.
    An out-of-range (at a i) is a run-time fault of the language (docs/ARRAY_SAFETY.md): the run stops there with a non-zero
    status and everything printed before it.  The VM reports `runtime error` and exits 1; the native runtime fails an assertion
    and aborts (SIGABRT).  oob_prefix: while lang:native-oob-output-lost is open the native stdout need only be a prefix of the
    reference output (nothing printed after the access, nothing invented)."""
    if r['cls'] == 'exit':
        return real['cls'] == 'exit' and real['rc'] == r['rc'] and real['out'] == r['out']
    if r['cls'] == 'fault-assert':
        return real['cls'] == 'exit' and real['rc'] == 1 and real['out'] == r['out']
    if r['cls'] == 'fault-oob':
        if eng == 'native':
            if real['cls'] == 'compile-failed' and r['out'] == b'' and 'out of bounds' in real.get('err', ''):
                # the out-of-range access sits in a top-level constant: nanoc evaluates those while compiling and stops there with
                # the same diagnostic -- no output, non-zero status, before main: the same observable outcome as the run-time stop
                return True
            if real['cls'] != 'signal6':
                return False
            return real['out'] == r['out'] or (oob_prefix and r['out'].startswith(real['out']))
        return real['cls'] == 'exit' and real['rc'] == 1 and real['out'] == r['out'] and 'out of bounds' in real.get('err', 'out of bounds')
    return None        # reference says partial operation / out of fuel: no verdict


def same_model(m, real):
    if m['cls'] == 'exit':
        return real['cls'] == 'exit' and real['rc'] == m['rc'] and real['out'] == m['out']
    if m['cls'] in ('vmerror-assert', 'vmerror-type', 'vmerror-oob', 'vmerror-stack', 'vmerror-calldepth', 'vmerror-decode',
                    'vmerror-undeffn', 'fault-assert'):
        return real['cls'] == 'exit' and real['rc'] == 1 and real['out'] == m['out']
    if m['cls'] == 'nofuel':
        return real['cls'] in ('outoffuel', 'timeout')
    if m['cls'] == 'signal-fpe':
        return real['cls'] == 'signal8'
    if m['cls'] == 'abort-oob':
        if real['cls'] == 'compile-failed' and not m.get('out') and 'out of bounds' in real.get('err', ''):
            return True                          # the access is in a top-level constant: nanoc stops with the same diagnostic while compiling
        return real['cls'] == 'signal6'          # like SIGFPE: what of the buffered stdout survives abort() is libc's business
    if m['cls'] == 'ccfail':
        return real['cls'] == 'cc-failed'
    if m['cls'] == 'felloff-x':
        return real['cls'] == 'exit' and real['out'] == m['out']
    return False


def canon_dump(d):
    lines = d.strip().split('\n')
    if len(lines) < 5 or not lines[0].startswith('flags='):
        return None
    ent = lines[0].split('entry=')[1]
    dd = dict(l.split('=', 1) for l in lines[1:])
    return 'ok entry=%s strings=%s fns=%s code=%s' % (ent, dd['strings'], dd['fns'], dd['code'])


def stream_cfg(ck):
    """Generator configuration of the main stream: constructs whose divergence is an OPEN known finding are not generated
    (their dedicated witnesses keep reporting KNOWN-FINDING); everything else is."""
    open_keys = {k['key'] for k in ck.known}
    cfg = progen.Cfg()
    cfg.multi_effect_args = 'lang:arg-order' not in open_keys
    cfg.self_ref_shadow = 'lang:self-ref-shadow' not in open_keys
    cfg.shortcircuit_effect = not ({'lang:shortcircuit-and', 'lang:shortcircuit-or'} & open_keys)
    cfg.continue_in_for = 'lang:continue-in-for' not in open_keys
    cfg.block_shadow = 'lang:block-shadow' not in open_keys
    cfg.arrays = True
    cfg.strops = True          # string builtins inside their common domain (Ast.char_at_v / substr_v / concat_v)
    cfg.at_on_call = 'lang:at-of-call-untyped' not in open_keys
    cfg.for_bound_mutated = 'lang:for-bound-reevaluated' not in open_keys
    return cfg


def run_engines(ck, b, progs, want_native=True, styles=('prefix', 'infix', 'prefix', 'mixed')):
    """progs: list of (id, ast).  Returns per program dict(dump, vm, nat)."""
    dump = ck.probe('nvm_dump.c')
    res = {}
    with langlib.Work('c02') as wd:
        def one(t):
            pid, p = t
            path = os.path.join(wd, 'p%s.nano' % pid)
            import zlib
            hk = zlib.crc32(str(pid).encode())
            open(path, 'w').write(progen.to_nano(p, 'infix-chain' if 'infix-chain' in str(pid) else styles[hk % len(styles)], random.Random(hk)))
            nvm = path + '.nvm'
            rc, o, e = langlib.run_cmd([b.bin('nano_virt'), path, '--emit-nvm', '-o', nvm], 30)
            d = None
            if rc == 0 and os.path.exists(nvm):
                rc2, o2, e2 = langlib.run_cmd([dump, nvm], 20)
                d = canon_dump(o2.decode('utf-8', 'replace'))
            vm = langlib.run_vm(b, path, fuel=FUEL_VM)
            vm_big = vm
            if vm['cls'] == 'outoffuel':
                # budget of the tie exhausted: for the property-level comparison give the real VM 300x more
                vm_big = langlib.run_vm(b, path, fuel=FUEL_VM * 300, timeout=60)
            nat = langlib.run_native(b, path, wd) if want_native else None
            return pid, dict(dump=d, vm=vm, vm_big=vm_big, nat=nat, emit_err=e.decode('utf-8', 'replace')[-400:], src=open(path).read())
        for pid, r in langlib.pmap(one, progs):
            res[pid] = r
    return res


# generator features whose divergence is an OPEN finding of ONE engine: programs using them are still generated and still
# judged on the other engine (and on all three ties); only the affected engine's property-level comparison is exempt
ENGINE_FINDINGS = {'lang:self-ref-shadow': ('native', ('self_ref_shadow',), 'self_ref_shadow'),
                   'lang:arg-order': ('native', ('multi_effect_args', 'multi_effect_operands'), 'multi_effect_args'),
                   'lang:for-bound-reevaluated': ('native', ('for_bound_mutated',), 'for_bound_mutated')}


def exempt_engines(ck, feat):
    open_keys = {k['key'] for k in ck.known}
    ex = set()
    for key, (eng, fs, _) in ENGINE_FINDINGS.items():
        if key in open_keys and any(f in feat for f in fs):
            ex.add(eng)
    return ex


def check_programs(ck, b, nv, progs, feats, stream, want_native=True, ties=True):
    """stream: 'gen' | 'witness'.  Returns number of failures recorded."""
    sx = [progen.to_sexp(p) for _, p in progs]
    ref = langlib.model_many(nv, 'ref', sx)
    vmc = vlib.run_lines(nv, ['vmc 0 ' + s for s in sx], timeout=600)
    vmr = langlib.model_many(nv, 'vmrun', sx, fuel=FUEL_VM)
    natr = langlib.model_many(nv, 'natr', sx) if want_native else [None] * len(sx)
    real = run_engines(ck, b, progs, want_native)
    nfail = 0
    for (pid, p), s, r, mc, mr, mn in zip(progs, sx, ref, vmc, vmr, natr):
        R = real[pid]
        key = pid if stream == 'witness' else 'c02:gen:%s' % pid
        rep = dict(program_sexp=s, source=R['src'], reference=dict(cls=r['cls'], rc=r['rc'], out=r['out'].decode('latin1')))
        nontrivial = r['cls'] in ('exit', 'fault-assert', 'fault-oob') and len(r['out']) > 0
        ck.count(s, nontrivial)
        ck.extra['ref_classes'][r['cls']] += 1
        if r['cls'] in ('stuck', 'error'):
            # the generator promised a well-typed program: a stuck reference run is a generator/model defect, not the engines'
            ck.fail(key + ':ref-stuck', 'reference semantics is stuck on a generated program (generator or Ref defect)', rep)
            nfail += 1
            continue
        # a self-referential let (`let x = (+ x 1)` shadowing an outer x) becomes `T x = x + 1;` in C: the initialiser reads the
        # NEW, uninitialised x (open finding lang:self-ref-shadow).  Whether cc refuses it (-Wuninitialized is flow- and
        # optimisation-dependent) and what the binary prints otherwise is not modelled: NatSem says 'ccfail' for all of them.
        nat_unmodelled = (stream == 'gen' and mn is not None and mn['cls'] == 'ccfail'
                          and 'lang:self-ref-shadow' in {k['key'] for k in ck.known})
        # a for loop whose body assigns a variable the range bound reads: the generated C re-evaluates the bound before every
        # iteration (open finding lang:for-bound-reevaluated); NatSem models the single evaluation the language prescribes
        # a string builtin outside the domain on which the engines agree: NatSem stops there (NFStrDomain), the binary goes on
        nat_unmodelled = nat_unmodelled or (mn is not None and mn['cls'] == 'fault-strdomain')
        nat_unmodelled = nat_unmodelled or (stream == 'gen' and 'for_bound_mutated' in feats.get(pid, {})
                                            and 'lang:for-bound-reevaluated' in {k['key'] for k in ck.known})
        # ---- property level: each real engine against the reference
        for eng, obs in (('vm', R['vm_big']), ('native', R['nat'])):
            if obs is None:
                continue
            if stream == 'gen' and (eng in exempt_engines(ck, feats.get(pid, {})) or (eng == 'native' and nat_unmodelled)):
                ck.extra['engine_exempt'][eng] += 1
                continue
            if obs['cls'] == 'rejected':
                # the front end refused a program the reference type system accepts: no engine ran, no verdict here
                ck.extra['rejected_by_front_end'] = ck.extra.get('rejected_by_front_end', 0) + 1
                continue
            v = same_as_ref(r, obs, eng, oob_prefix=(stream == 'gen' and 'lang:native-oob-output-lost' in {k['key'] for k in ck.known}))
            ck.extra['engine_runs'][eng] += 1
            if v is False:
                k2 = key if stream == 'witness' else key + ':' + eng
                ck.fail(k2, '%s engine differs from the reference semantics: ref=%s/%s real=%s/%s' % (eng, r['cls'], r['rc'], obs['cls'], obs['rc']),
                        dict(rep, engine=eng, observed=dict(cls=obs['cls'], rc=obs['rc'], out=obs['out'].decode('latin1'), err=obs['err'][-600:])))
                nfail += 1
        # ---- ties (model vs implementation); a broken tie with the property intact is still reported.
        # Witnesses of OPEN findings are exempt: the finding says the engine deviates there and the models need not mirror a defect.
        if not ties or (stream == 'witness' and pid in {k['key'] for k in ck.known}):
            continue
        if R['dump'] is None:
            if R['vm']['cls'] not in ('rejected',):
                ck.fail(key + ':emit', 'nano_virt --emit-nvm failed on a program the model compiles', dict(rep, stderr=R['emit_err']))
                nfail += 1
        elif mc != R['dump']:
            ck.extra['tie_breaks']['bytecode'] += 1
            ck.fail(key + ':tie-bytecode', 'correspondence broken: VmCompile model bytecode != real bytecode (no-failing-input-found unless an engine line above)',
                    dict(rep, correspondence='Back.VmCompile.compile_program vs nano_virt --emit-nvm', model=mc[:4000], real=R['dump'][:4000]), tie=True)
            nfail += 1
        else:
            ck.extra['ties_ok']['bytecode'] += 1
        if R['vm']['cls'] == 'rejected':
            continue
        if not same_model(mr, R['vm']):
            ck.extra['tie_breaks']['vmrun'] += 1
            ck.fail(key + ':tie-vmrun', 'correspondence broken: VmExec model run != real VM run: model=%s real=%s/%s' % (mr['cls'], R['vm']['cls'], R['vm']['rc']),
                    dict(rep, correspondence='Back.VmExec.run_vm vs nano_virt --run', model=mr.get('raw', mr['cls']), real=dict(cls=R['vm']['cls'], rc=R['vm']['rc'], out=R['vm']['out'].decode('latin1'))), tie=True)
            nfail += 1
        else:
            ck.extra['ties_ok']['vmrun'] += 1
        if mn is not None and R['nat'] is not None and not nat_unmodelled:
            if not same_model(mn, R['nat']):
                ck.extra['tie_breaks']['native'] += 1
                ck.fail(key + ':tie-native', 'correspondence broken: NatSem model run != real native run: model=%s real=%s/%s' % (mn['cls'], R['nat']['cls'], R['nat']['rc']),
                        dict(rep, correspondence='Back.NatSem.run_nat RtoL vs nanoc binary', model=mn.get('raw', mn['cls']),
                             real=dict(cls=R['nat']['cls'], rc=R['nat']['rc'], out=R['nat']['out'].decode('latin1'), err=R['nat']['err'][-600:])), tie=True)
                nfail += 1
            else:
                ck.extra['ties_ok']['native'] += 1
        if stream == 'gen':
            for f in feats.get(pid, {}):
                ck.extra['features'][f] += 1
    return nfail


def operator_table(ck, b, nv):
    """13 binary + 2 unary operators x all pairs of boundary operands, on both real engines, against the reference."""
    B = [0, 1, -1, 2, -2, 7, -7, progen.INT64_MIN, progen.INT64_MIN + 1, progen.INT64_MAX, progen.INT64_MAX - 1, 2**31, -2**31, 2**32, -2**32]
    if not ck.thorough:
        B = [0, 1, -1, 2, -7, progen.INT64_MIN, progen.INT64_MAX, 2**31, -2**32]
    stmts = []
    # operands flow through variables so that the C compiler cannot fold them (constant folding is lang:constant-overflow)
    n = 0
    progs = []
    ops_i = ['add', 'sub', 'mul', 'div', 'mod', 'eq', 'ne', 'lt', 'le', 'gt', 'ge']
    for op in ops_i:
        body = []
        for x in B:
            for y in B:
                if op in ('div', 'mod') and (y == 0 or (x == progen.INT64_MIN and y == -1)):
                    continue
                body.append(('print', True, ('bin', op, ('call', 1, [('num', x)]), ('call', 1, [('num', y)]))))
                n += 1
        idf = dict(name=1, params=[(2, 'int')], ret='int', body=('ret', ('var', 2)), effect=False)
        progs.append(('optable:' + op, dict(globals=[], fns=[idf, dict(name=0, params=[], ret='int', body=lang_findings.seq(*(body + [('ret', ('num', 0))])), effect=True)], main=0)))
    body = []
    idb = dict(name=3, params=[(4, 'bool')], ret='bool', body=('ret', ('var', 4)), effect=False)
    for op in ('and', 'or', 'eq', 'ne'):
        for x in (False, True):
            for y in (False, True):
                body.append(('print', True, ('bin', op, ('call', 3, [('bool', x)]), ('call', 3, [('bool', y)]))))
                n += 1
    for x in (False, True):
        body.append(('print', True, ('un', 'not', ('call', 3, [('bool', x)]))))
    idf = dict(name=1, params=[(2, 'int')], ret='int', body=('ret', ('var', 2)), effect=False)
    for x in B:
        if x != progen.INT64_MIN or True:
            body.append(('print', True, ('un', 'neg', ('call', 1, [('num', x)]))))
            n += 1
    progs.append(('optable:bool-unary', dict(globals=[], fns=[idf, idb, dict(name=0, params=[], ret='int', body=lang_findings.seq(*(body + [('ret', ('num', 0))])), effect=True)], main=0)))
    ck.extra['operator_table_cases'] = n
    return progs


def trust_labels(b, path):
    rc, o, e = langlib.run_cmd([b.bin('nanoc'), path, '-o', path + '.tr.bin', '--trust-report'], 120)
    labels = {}
    import re
    for m in re.finditer(r'^\s+(\w+)\(.*?\)\s*->\s*\w+\s+\[(\w+)\s*\]', (o + e).decode('utf-8', 'replace'), re.M):
        labels[m.group(1)] = m.group(2)
    try:
        os.unlink(path + '.tr.bin')
    except OSError:
        pass
    return labels


def nanocore_part(ck, b, nv):
    """Functions that `nanoc --trust-report` labels 'verified' must compute what the repository's own proved semantics
    (formal/EvalFn.v, copied into NV/NanoCore on this run and extracted) assigns -- compared on the common domain (exact_eval)."""
    rng = random.Random(ck.seed * 31 + 5)
    B = [0, 1, -1, 2, 3, 7, -7, 10, 100, -100, 255, 2**31, -2**31, 2**32, progen.INT64_MAX, progen.INT64_MIN + 1]
    cfg = progen.Cfg(cond_expr=True, boundary_ints=True)
    nf = 60 if ck.thorough else 16
    fns, calls = [], []
    for i in range(nf):
        g = progen.Gen(rng, cfg)
        g.next_name = 100 + 20 * i
        params = [(g.fresh(), rng.choice(['int', 'int', 'bool'])) for _ in range(rng.randrange(1, 4))]
        ret = rng.choice(['int', 'int', 'bool'])
        sc = dict(vars=[(x, t, False) for (x, t) in params], fns=[], fns_by_name={}, globals=[])
        e = g.gen_expr(ret, 3, sc, pure=True)
        name = g.fresh()
        fns.append(dict(name=name, params=params, ret=ret, body=('ret', e), effect=False, expr=e))
        for _ in range(6 if ck.thorough else 4):
            args = [rng.choice(B) if t == 'int' else rng.random() < 0.5 for (_, t) in params]
            calls.append((len(fns) - 1, args))
    wit = {
        'lang:nanocore-negative-division': (dict(name=90, params=[(91, 'int'), (92, 'int')], ret='int', body=('ret', ('bin', 'div', ('var', 91), ('var', 92))),
                                                 effect=False, expr=('bin', 'div', ('var', 91), ('var', 92))), [-7, 2]),
        'lang:nanocore-negative-modulo': (dict(name=93, params=[(94, 'int'), (95, 'int')], ret='int', body=('ret', ('bin', 'mod', ('var', 94), ('var', 95))),
                                               effect=False, expr=('bin', 'mod', ('var', 94), ('var', 95))), [-7, 2]),
        'lang:nanocore-overflow': (dict(name=96, params=[(97, 'int')], ret='int', body=('ret', ('bin', 'add', ('var', 97), ('num', 1))),
                                        effect=False, expr=('bin', 'add', ('var', 97), ('num', 1))), [progen.INT64_MAX]),
    }
    wkeys = {}
    for k, (f, args) in wit.items():
        fns.append(f); calls.append((len(fns) - 1, args)); wkeys[len(calls) - 1] = k
    body = []
    for (fi, args) in calls:
        f = fns[fi]
        body.append(('print', True, ('call', f['name'], [('num', a) if t == 'int' else ('bool', a) for a, (_, t) in zip(args, f['params'])])))
    prog = dict(globals=[], fns=fns + [dict(name=0, params=[], ret='int', body=lang_findings.seq(*(body + [('ret', ('num', 0))])), effect=True)], main=0)
    lines = []
    for (fi, args) in calls:
        f = fns[fi]
        env = ' '.join('(%x %s %s)' % (x, t, (progen.zs(a) if t == 'int' else ('1' if a else '0'))) for a, (x, t) in zip(args, f['params']))
        # Ref binds parameters so that the last is newest; order is irrelevant here (distinct names)
        lines.append('nc 200 (env %s) %s' % (env, progen.expr_sexp(f['expr'])))
    ans = vlib.run_lines(nv, lines)
    with langlib.Work('c02nc') as wd:
        path = os.path.join(wd, 'nc.nano')
        open(path, 'w').write(progen.to_nano(prog))
        labels = trust_labels(b, path)
        vm = langlib.run_vm(b, path, fuel=5_000_000)
        nat = langlib.run_native(b, path, wd)
    st = collections.Counter()
    if vm['cls'] != 'exit' or nat['cls'] != 'exit':
        ck.fail('c02:nanocore:engines-did-not-run', 'the NanoCore comparison program did not run: vm=%s native=%s' % (vm['cls'], nat['cls']),
                dict(source=progen.to_nano(prog)[:3000], vm_err=vm['err'][-400:], native_err=nat['err'][-600:]))
        return
    vout, nout = vm['out'].decode().split('\n'), nat['out'].decode().split('\n')
    def val(s):
        f = s.split('=', 1)[1]
        if f == 'none' or f == 'other':
            return None
        t, v = f.split(':')
        return (str(int(v, 16)) if not v.startswith('-') else '-' + str(int(v[1:], 16))) if t == 'int' else ('true' if v == '1' else 'false')
    for i, ((fi, args), a) in enumerate(zip(calls, ans)):
        f = fns[fi]
        ex, nc = [val(x) for x in a.split()]
        label = labels.get(progen.fname(f['name']))
        st['label:%s' % label] += 1
        ck.count(('nc', progen.expr_sexp(f['expr']), tuple(args)), ex is not None)
        rep = dict(function=progen.to_nano(dict(globals=[], fns=[f], main=0)), args=args, trust_label=label, nanocore_eval=nc, exact_eval=ex, vm=vout[i], native=nout[i])
        if label != 'verified':
            continue
        key = wkeys.get(i)
        for eng, got in (('vm', vout[i]), ('native', nout[i])):
            if nc is not None and got != nc:
                if ex is not None or key:
                    ck.fail(key or 'c02:nanocore:s%d-%d:%s' % (ck.seed, i, eng),
                            "function labelled 'verified' computes %s on the %s engine, formal/EvalFn.v assigns %s" % (got, eng, nc), dict(rep, engine=eng))
                else:
                    st['outside-common-domain-differs'] += 1
            elif nc is not None:
                st['agree'] += 1
    # a function that prints is outside NanoCore (no output in formal/Semantics.v) yet main is labelled verified
    if labels.get('main') == 'verified':
        ck.fail('lang:nanocore-println-verified', "main contains (println ...) calls and is labelled 'verified' although formal/Semantics.v has no output",
                dict(trust_labels=labels))
    ck.extra['nanocore'] = dict(st)
    ck.sample(dict(nanocore_case=lines[0], answer=ans[0], vm=vout[0]))


def run(ck):
    b = ck.build('plain')
    vlib.sync_nanocore()
    ck.gen(['gen_isa', 'gen_intfmt'])
    for k in ('ref_classes', 'engine_runs', 'engine_exempt', 'tie_breaks', 'ties_ok', 'features'):
        ck.extra[k] = collections.Counter()
    ck.prove()
    nv = ck.nvref('lang')
    # 1. witnesses of recorded (open or fixed) findings + minimal corpus: replayed first
    wit = [(k, p) for k, p in sorted(lang_findings.WITNESSES.items())]
    check_programs(ck, b, nv, wit, {}, 'witness')
    # 2. operator table on both engines
    check_programs(ck, b, nv, operator_table(ck, b, nv), {}, 'witness')
    # 3. generated stream
    cfg = stream_cfg(ck)
    cfg.oob = True       # out-of-range accesses now and then: the reference says where the run stops (C01 excludes partial operations, C02 does not)
    # every third program also uses the constructs on which only the native engine has an open finding (see ENGINE_FINDINGS)
    cfg_vm = progen.Cfg(**{k: v for k, v in cfg.__dict__.items()})
    for key, (eng, fs, flag) in ENGINE_FINDINGS.items():
        setattr(cfg_vm, flag, True)
    n = 400 if ck.thorough else 90
    progs, feats = [], {}
    for i in range(n):
        g = progen.Gen(random.Random(ck.seed * 100003 + i), cfg_vm if i % 3 == 2 else cfg)
        p = g.gen_program()
        pid = 's%d-%d' % (ck.seed, i)
        progs.append((pid, p)); feats[pid] = dict(g.feat)
    check_programs(ck, b, nv, progs, feats, 'gen')
    nanocore_part(ck, b, nv)
    # a correspondence broke but every program so far behaved as the reference says: search harder for an input on which the
    # PROPERTY fails on the implementation (deeper nesting, more loops/breaks, more statements), models not consulted
    open_keys = {k['key'] for k in ck.known}
    tie_broken = [f for f in ck.failures if f.get('tie') and f['key'] not in open_keys]
    prop_failed = [f for f in ck.failures if not f.get('tie') and f['key'] not in open_keys]
    if tie_broken and not prop_failed:
        ck.note('correspondence broken (%d inputs), no property failure yet: escalating the search' % len(tie_broken))
        deep = progen.Cfg(**{k: v for k, v in cfg.__dict__.items()})
        deep.max_depth = 5; deep.max_stmts = 8; deep.max_fns = 5
        sprogs, sfeats = [], {}
        for i in range(300 if ck.thorough else 120):
            g = progen.Gen(random.Random(ck.seed * 977 + 50000 + i), deep)
            p = g.gen_program()
            pid = 'search%d-%d' % (ck.seed, i)
            sprogs.append((pid, p)); sfeats[pid] = dict(g.feat)
        check_programs(ck, b, nv, sprogs, sfeats, 'gen', ties=False)
        ck.extra['escalated_search_programs'] = len(sprogs)
    ck.sample(dict(program=progen.to_nano(progs[0][1])[:1500], sexp=progen.to_sexp(progs[0][1])[:600]))
    ck.cov['rule'] = ('witness programs of every recorded finding + operator table (all binary/unary operators x pairs of INT64 boundary operands, '
                      'through identity calls so the C compiler cannot fold) + type-directed random programs (progen.py: effects in operands, '
                      'shadowing, break/continue, recursion, globals, boundary literals); non-trivial = the reference run terminates and prints '
                      'at least one byte; distinct = distinct program')
    for k in ('ref_classes', 'engine_runs', 'engine_exempt', 'tie_breaks', 'ties_ok', 'features'):
        ck.extra[k] = dict(ck.extra[k])
    ck.extra['generator_config'] = {k: v for k, v in cfg.__dict__.items()}
    ck.trusted += ['Lang/Ref.v as a faithful transcription of docs/SPECIFICATION.md sections 4-8 (reviewed by hand)',
                   'extraction ExtrOcamlBasic only; extract/nvio.ml, nvio_z.ml, lang_driver.ml (S-expression reader)',
                   'tools/progen.py (generator + renderers), tools/langlib.py (runners), probes/nvm_dump.c',
                   'translator gen_isa (opcode numbers and operand kinds used by the compiler/VM models)',
                   'NV/NanoCore/*.v = /repo/formal/{Syntax,Semantics,EvalFn,Determinism,Typing}.v copied on every run (From Stdlib -> From Coq, extraction directives commented out)',
                   'the C compiler and libc used by nanoc are modelled, not verified (NatSem: call arguments right-to-left, operands left-to-right)']
    ck.assumptions += ['division by zero and INT64_MIN / -1 are excluded from the stream (documented engine difference / hardware trap)',
                       'programs of the stream terminate within %d VM instructions' % FUEL_VM]


def replay(ck, d):
    b = ck.build('plain'); nv = ck.nvref('lang')
    s = d.get('program_sexp')
    print(d.get('source', ''))
    print('reference:', vlib.run_lines(nv, ['ref %d %s' % (langlib.REF_FUEL, s)])[0])
    with langlib.Work('replay') as wd:
        path = os.path.join(wd, 'r.nano'); open(path, 'w').write(d['source'])
        vm = langlib.run_vm(b, path, fuel=FUEL_VM); nat = langlib.run_native(b, path, wd)
    print('vm     :', vm['cls'], vm['rc'], vm['out'], vm['err'][-300:])
    print('native :', nat['cls'], nat['rc'], nat['out'], nat['err'][-300:])
    r = langlib.parse_model(vlib.run_lines(nv, ['ref %d %s' % (langlib.REF_FUEL, s)])[0])
    ok = same_as_ref(r, vm, 'vm') is not False and same_as_ref(r, nat, 'native') is not False
    print('REPRODUCED' if not ok else 'not reproduced')
    return 0 if ok else 1
