"""C06 -- shadow tests gate compilation.
Proof: NV/Props/Properties_C06.v
  gate_iff            produces_binary(nanoc) <-> every assertion executed by every executed test is true (fold over an arbitrary list of
                      tests / assertions: position, count, nesting arbitrary)
  gate_exit_status, binary_only_after_passing, gate_names_test, executed_tests (skip rule), missing_shadow_reported
  gate_iff_ref        the same against the REFERENCE truth values, under names_apart (through C03's interp_correct); gate_refuted without
Oracle on the implementation (no model involved): the reference semantics runs the same statements (A(p), see shadowlib) and says
which assertions are false; real `nanoc S.nano -o <fresh path> --verbose` must exit non-zero, name exactly the failing tests,
print "Shadow tests failed" and leave NO file at the output path iff there is a false one; else exit 0 and the file exists.
Failing assertions are planted first / last / inside a loop / after passing ones / in the last of many blocks / in main's block /
many / all; plus ITERATION-DEPENDENT assertions (shadowlib.iter_construct): false only in the first / a middle / every-but-the-last
iteration with the last one passing, or only in the last, in for and while loops left normally / by break / by return, in the shadow
block itself or in a helper function it calls (then the reference stops at the assertion: the gate must be closed, the test named).
Which blocks run: ALL of them -- the generator gives functions 1-3 shadow blocks (false assertion in the first / a middle / the last,
nothing else failing), puts blocks before their function, at the top or at the end of the file, and moves functions into an imported
module while their shadow blocks stay in the compiled file (modes multi-first / multi-middle / multi-last / imported-block).  Functions without a shadow block: warning on stderr, no effect on the gate.
Tie: Driver/ShadowGate.nanoc extracted (nvref_c03) vs the real nanoc: exit status, binary, FAILED lines + counts, warnings."""
import os, sys, random, collections, json, hashlib
import vlib, progen, langlib
import shadowlib as S
import shadow_witnesses as W
import c03


def record(ck, c, stream):
    key0 = c.id if stream == 'witness' else 'c06:%s' % c.id
    if S.front_rejected(c):
        ck.extra['status']['rejected'] += 1
        ck.count(c.s_src, False)
        return
    if c.r_rc < 0 and c.r_rc != -9:
        # nanoc killed by a signal while evaluating the shadow tests: no executable for a program whose assertions all hold
        ck.extra['status']['crash'] += 1
        ck.count(c.s_src, True)
        rs = S.ref_segments(c)
        if rs is not None and all(all(t) for _, t in rs):
            ck.fail(key0, 'every shadow assertion holds (reference) but nanoc is killed by signal %d at compile time' % -c.r_rc, S.replay_dict(c))
        elif c.m_interp['cls'] == 'done':
            ck.fail(key0 + ':tie', 'correspondence broken: real nanoc killed by signal %d, model outcome done' % -c.r_rc, S.replay_dict(c), tie=True)
        return
    if c.r_rc == -9:
        ck.extra['status']['hang'] += 1
        ck.count(c.s_src, True)
        # no executable, no exit status: for a program whose assertions all hold this is a refusal of a correct program
        rs = S.ref_segments(c)
        if rs is not None and all(all(t) for _, t in rs):
            ck.fail(key0, 'every shadow assertion holds (reference) but nanoc does not terminate', S.replay_dict(c))
        if c.m_interp['cls'] != 'nofuel' and c.id not in c03.MODEL_BOUNDARY:
            ck.fail(key0 + ':tie', 'correspondence broken: real nanoc hangs, model outcome %s' % c.m_interp['cls'], S.replay_dict(c), tie=True)
        return
    if not c.r_verbose.get('reached'):
        ck.extra['status']['no-shadow-phase'] += 1
        ck.fail(key0 + ':tie', 'nanoc did not reach the shadow phase: rc=%s' % c.r_rc, S.replay_dict(c))
        return
    ck.extra['status']['ok'] += 1
    rs = S.ref_segments(c)
    gate_bad = []
    if rs is not None:
        ex = [t for t in S.real_tests(c) if t[2] != 'SKIPPED']
        if len(ex) == len(rs):
            gate_bad = S.cmp_gate(c, [t for _, t in rs])
        else:
            # not every shadow block was run: say what that did to the gate
            gate_bad = ['%d shadow blocks executed by nanoc, %d in the program (reference)' % (len(ex), len(rs))]
            falsein = [c.order_names[i] for i, (_, t) in enumerate(rs) if not all(t)]
            if falsein and c.r_rc == 0:
                gate_bad.append('a shadow assertion is false (blocks of %s) but nanoc exits 0' % falsein)
            if falsein and c.r_binary:
                gate_bad.append('a shadow assertion is false (blocks of %s) but an executable is left at the output path' % falsein)
            named = [t[0] for t in c.r_verbose.get('tests', []) if t[2] == 'FAILED']
            if falsein and sorted(named) != sorted(falsein):
                gate_bad.append('failing blocks %s, named by nanoc: %s' % (falsein, named))
        nfalse = sum(1 for _, t in rs for x in t if not x)
        ck.extra['false_assertions_per_case'][min(nfalse, 9)] += 1
        ck.count(c.s_src, True)
    elif S.ref_fault_test(c) is not None:
        # the reference stops at a false assertion inside a called function: the gate must be closed and the test named
        gate_bad = S.cmp_gate_fault(c, S.ref_fault_test(c))
        ck.extra['false_assertions_per_case']['in-callee'] += 1
        ck.count(c.s_src, True)
    elif c.ref_a['cls'] == 'fault-oob':
        # the reference stops at an out-of-range array index inside a test: the gate must stay closed
        if c.r_rc == 0:
            gate_bad.append('a shadow test indexes an array out of range (reference) but nanoc exits 0')
        if c.r_binary:
            gate_bad.append('a shadow test indexes an array out of range (reference) but an executable is left at the output path')
        ck.extra['false_assertions_per_case']['out-of-range'] += 1
        ck.count(c.s_src, True)
    else:
        ck.extra['ref_unavailable'][c.ref_a['cls']] += 1
        ck.count(c.s_src, False)
    later = [g for g in gate_bad if g.startswith('LATER-PHASE')]
    gate_bad = [g for g in gate_bad if not g.startswith('LATER-PHASE')]
    tie = S.cmp_model(c)
    if stream == 'witness':
        if gate_bad:
            ck.fail(key0, 'gate disagrees with the language: ' + '; '.join(gate_bad[:2]), S.replay_dict(c, discrepancies=gate_bad))
        if tie and c.id not in c03.MODEL_BOUNDARY:
            ck.fail(key0 + ':tie', 'correspondence broken: gate model != real nanoc on a witness: ' + '; '.join(tie[:2]), S.replay_dict(c, discrepancies=tie), tie=True)
        return
    if stream == 'clash':
        if tie:
            ck.fail(key0 + ':tie', 'correspondence broken: gate model != real nanoc: ' + '; '.join(tie[:2]), S.replay_dict(c, discrepancies=tie), tie=True)
        elif gate_bad and c.m_apart:
            ck.fail(key0, 'names_apart program on which the gate disagrees with the language: ' + '; '.join(gate_bad[:2]), S.replay_dict(c, discrepancies=gate_bad))
        elif gate_bad:
            ck.extra['clash']['gate-errs-as-the-model-predicts'] += 1
        else:
            ck.extra['clash']['agrees'] += 1
        return
    if gate_bad:
        ck.fail(key0, 'gate violated: ' + '; '.join(gate_bad[:2]), S.replay_dict(c, discrepancies=gate_bad))
    if later:
        ck.fail(key0 + ':later-phase', 'all shadow tests pass but no executable: ' + later[0], S.replay_dict(c))
    if tie:
        ck.fail(key0 + ':tie', 'correspondence broken: Driver/ShadowGate model != real nanoc (gate %s on this input): %s' % (
            'violated' if gate_bad else 'holds', '; '.join(tie[:2])), S.replay_dict(c, correspondence='Driver.ShadowGate.nanoc vs nanoc', discrepancies=tie), tie=not gate_bad)
    # dropped shadow blocks must be reported (implementation-side: stderr)
    want = sorted(progen.fname(n) for n in getattr(c, 'dropped_shadows', []))
    import re
    got = sorted(re.findall(r"Function '([^']+)' is missing a shadow test", c.r_stderr))
    ck.extra['missing_shadow_functions'] += len(want)
    if want != got:
        ck.fail(key0 + ':missing-shadow', 'functions without shadow block %s, warnings for %s' % (want, got), S.replay_dict(c))


def skip_extern_case(ck, b, nv3):
    """hand-written source with an extern function: the test of a function that calls it is SKIPPED and cannot fail the gate"""
    c = S.Case()
    c.id, c.mode, c.seed, c.tag, c.feat, c.picked = 'c06:corpus:skip-extern', 'hand', 0, 'corpus', {}, []
    c.s_src, c.a_src, c.sprog, c.a_sexp = W.SKIP_EXTERN_SRC, '', W.SKIP_EXTERN_SPROG, ''
    c.order_names = ['f1', 'f3', 'main']
    c.m_interp = S.parse_model_run(vlib.run_lines(nv3, ['interp %d %s' % (S.FUEL, c.sprog)])[0])
    c.m_gate = S.parse_nanoc_model(vlib.run_lines(nv3, ['nanoc %d 1 1 %s' % (S.FUEL, c.sprog)])[0])
    c.m_apart, c.m_reft, c.ref_a = True, None, dict(cls='n/a', out=b'', rc=None)
    S.run_real(b, [c], 'c06x', want_native=False)
    ck.count(c.s_src, True)
    st = {t[0]: t[2] for t in c.r_verbose.get('tests', [])}
    bad = []
    if st.get('f1') != 'SKIPPED':
        bad.append('test f1 (calls an extern function) is %s, expected SKIPPED' % st.get('f1'))
    if c.r_rc != 0 or not c.r_binary:
        bad.append('skipped test with a false assertion: nanoc rc=%s binary=%s (a skipped test cannot fail)' % (c.r_rc, c.r_binary))
    if c.m_interp['cls'] != 'done' or [progen.fname(n) for n in c.m_interp['skipped']] != ['f1'] or not c.m_gate.get('binary'):
        bad.append('model: %s skipped=%s gate=%s' % (c.m_interp['cls'], c.m_interp.get('skipped'), c.m_gate))
    bad += S.cmp_model(c)
    if bad:
        ck.fail(c.id, 'skip rule: ' + '; '.join(bad[:3]), S.replay_dict(c))
    ck.extra['skip_extern_case'] = 'ok' if not bad else bad


def module_own_block_case(ck, b):
    """a false assertion in the shadow block that the IMPORTED MODULE has for its own function: is the program refused?"""
    key = 'c06:module-shadow-blocks-never-run'
    with langlib.Work('c06mod') as d:
        open(os.path.join(d, 'mod.nano'), 'w').write(W.MODULE_OWN_BLOCK['mod'])
        sp = os.path.join(d, 's.nano'); open(sp, 'w').write(W.MODULE_OWN_BLOCK['main'])
        outp = os.path.join(d, 's.out')
        rc, o, e = S.run_nanoc_verbose(b, sp, outp, d, 200)
        binary = os.path.exists(outp)
    ck.count(W.MODULE_OWN_BLOCK['main'] + W.MODULE_OWN_BLOCK['mod'], True)
    ran = b'Testing f1... ' in o
    ck.extra['module_own_block'] = dict(rc=rc, binary=binary, module_block_executed=ran)
    if rc == 0 or binary:
        ck.fail(key, 'false assertion in the imported module\'s own shadow block: nanoc rc=%s binary=%s, block executed: %s' % (rc, binary, ran),
                dict(source=W.MODULE_OWN_BLOCK['main'], module_source=W.MODULE_OWN_BLOCK['mod'], a_source='', sprog='', a_sexp='', order=['main'],
                     real=dict(rc=rc, binary=binary, stdout=o.decode('latin1')[-1500:], stderr=e.decode('latin1')[-600:])))


def run(ck):
    b = ck.build('plain')
    for k in ('dropped', 'status', 'clash', 'modes', 'features', 'apart', 'ref_unavailable', 'false_assertions_per_case', 'gate_outcomes'):
        ck.extra[k] = collections.Counter()
    ck.extra['missing_shadow_functions'] = 0
    ck.prove()
    nvl = ck.nvref('lang'); nv3 = ck.nvref('c03')
    openk = S.all_open_keys()
    # 1. witnesses + corpus
    wit = c03.witness_cases()
    S.run_models(nv3, nvl, wit)
    S.run_real(b, wit, 'c06w', want_native=False)
    for c in wit:
        record(ck, c, 'witness')
    skip_extern_case(ck, b, nv3)
    module_own_block_case(ck, b)
    # corpus: iteration-dependent assertions (false in a non-final iteration, true in the last one, ...): must pass the check
    corp = [W.corpus_case(S, k) for k in sorted(W.CORPUS)]
    S.run_models(nv3, nvl, corp)
    S.run_real(b, corp, 'c06c', want_native=False)
    for c in corp:
        record(ck, c, 'witness')
        f = os.path.join(vlib.VERIF, 'corpus', 'C06', c.id.split(':')[-1] + '.nano')
        if not os.path.exists(f) or open(f).read().split('\n', 1)[1] != c.s_src:
            ck.note('corpus/C06/%s is not the rendering of shadow_witnesses.CORPUS[%s]' % (os.path.basename(f), c.id))
        if c.r_rc == 0 or c.r_binary:
            ck.fail(c.id + ':gate-open', 'corpus program with a false shadow assertion: nanoc rc=%s binary=%s' % (c.r_rc, c.r_binary), S.replay_dict(c))
    # deterministic family "control-flag leaks" (shared with C03): every assertion holds, so the gate must open
    fam = S.flag_family()
    S.run_models(nv3, nvl, fam)
    S.run_real(b, fam, 'c06f', want_native=False)
    for c in fam:
        record(ck, c, 'gen')
    ck.extra['control_flag_family'] = dict(programs=len(fam), constructs=sum(len(c.flag_labels) for c in fam))
    # deterministic family "operand evaluation" (shared with C03): every assertion holds, the gate must open
    ofam = S.order_family(openk)
    S.run_models(nv3, nvl, ofam)
    S.run_real(b, ofam, 'c06o', want_native=False)
    for c in ofam:
        record(ck, c, 'gen')
    ck.extra['operand_evaluation_family'] = dict(programs=len(ofam), constructs=sum(len(c.order_labels) for c in ofam))
    # 2. main stream: all placements of the failing assertion; some functions lose their shadow block
    cfg = S.stream_cfg(openk)
    n = 1200 if ck.thorough else 108
    cases = S.build_cases(ck, nvl, [ck.seed * 611953 + i for i in range(n)], cfg, S.MUTATIONS + ['none'] * 3 + S.LAYOUT_MUTATIONS, 'g%d' % ck.seed, drop_shadow_prob=0.12,
                          iter_prob=(0.85, 0.25), multi_prob=0.45, import_prob=0.3)
    S.count_iter(ck, cases)
    S.count_layout(ck, cases)
    S.run_models(nv3, nvl, cases)
    S.run_real(b, cases, 'c06m', want_native=False)
    for c in cases:
        # outside names_apart (a block-local let spelled like a top-level constant): dynamic scoping is an open finding, the
        # case is judged like the clash stream (the model must predict the gate)
        record(ck, c, 'gen' if c.m_apart else 'clash')
        ck.extra['modes'][c.mode] += 1
        ck.extra['apart'][str(c.m_apart)] += 1
        ck.extra['gate_outcomes']['rc=%s binary=%s' % (c.r_rc, c.r_binary)] += 1
        for f in c.feat:
            ck.extra['features'][f] += 1
    # 3. clash stream (the evaluator's truth values are not the language's: the model must still predict the gate)
    m = 200 if ck.thorough else 24
    clash = S.build_cases(ck, nvl, [ck.seed * 15485863 + i for i in range(m)], None, ['none', 'last', 'many'], 'q%d' % ck.seed, genf=S.clash_program,
                          iter_prob=(0.3, 0.1))
    for c in clash:
        c.timeout = 12
    S.run_models(nv3, nvl, clash)
    S.run_real(b, clash, 'c06k', want_native=False)
    for c in clash:
        record(ck, c, 'clash')
    if cases:
        c = next((x for x in cases if x.mode != 'none'), cases[0])
        ck.sample(dict(mode=c.mode, falsified=c.picked, source=c.s_src[:1500], nanoc_rc=c.r_rc, binary=c.r_binary,
                       stdout_tail=c.r_stdout.decode('latin1')[-500:]))
    ck.cov['rule'] = ('one case = program + shadow blocks compiled by the real nanoc to a fresh output path; expected gate from the reference '
                      'semantics running the same statements; non-trivial = the reference run is defined; distinct = distinct source. '
                      'Failing assertion planted: ' + ', '.join(S.MUTATIONS))
    for k in ('dropped', 'status', 'clash', 'modes', 'features', 'apart', 'ref_unavailable', 'false_assertions_per_case', 'gate_outcomes', 'iteration_dependent', 'block_layout'):
        ck.extra[k] = dict(ck.extra.get(k, {}))
    ck.trusted += ['Lang/Ref.v as a faithful transcription of docs/SPECIFICATION.md sections 4-8 (reviewed by hand)',
                   'extraction ExtrOcamlBasic only; extract/nvio.ml, nvio_z.ml, c03_driver.ml',
                   'tools/progen.py, tools/props/shadowlib.py (generators, mutation of assertions, parsers of nanoc output), tools/langlib.py',
                   'phases 1-4 and 6-7 of the driver are inputs of the model (front_ok / later_ok); contains_extern_calls is an input (sh_skip), tied by one corpus program']
    ck.assumptions += ['no file exists at the output path before nanoc runs (fresh scratch path per case)',
                       'gate_iff_ref: names_apart and the reference semantics defined on every executed shadow block']


def replay(ck, d):
    b = ck.build('plain'); nvl = ck.nvref('lang'); nv3 = ck.nvref('c03')
    c = S.Case()
    c.id, c.mode, c.seed, c.tag, c.feat, c.picked = d.get('case', 'replay'), d.get('mode', '?'), 0, 'replay', {}, []
    c.s_src, c.a_src, c.sprog, c.a_sexp, c.order_names = d['source'], d['a_source'], d['sprog'], d['a_sexp'], d['order']
    c.mod_src = d.get('module_source')
    if c.a_sexp:
        S.run_models(nv3, nvl, [c])
    S.run_real(b, [c], 'c06r', want_native=False)
    print(c.s_src)
    print('nanoc rc=%s binary=%s' % (c.r_rc, c.r_binary)); print(c.r_stdout.decode('latin1')[-1500:]); print(c.r_stderr[-400:])
    bad = []
    if c.a_sexp:
        rs = S.ref_segments(c)
        if rs is not None:
            bad += S.cmp_gate(c, [t for _, t in rs])
        bad += S.cmp_model(c)
    for l in bad:
        print(l)
    print('REPRODUCED' if bad else 'not reproduced')
    return 1 if bad else 0
