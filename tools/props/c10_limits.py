"""C10, "declared limits": for every limit constant the sources declare (tools/gen/gen_limits.py -> build/limits.json)
modules AT limit-1, limit, limit+1
 * through the real nvm_* API (probe `rt`: build, serialize, deserialize, serialize again) against the model, plus the
   doubling boundaries of the initial table capacities in nvm_module_new;
 * as crafted files for the section-count limit (the only one the pinned loader enforces);
 * where a source program can reach the limit, through the real compiler: N functions with and without a top-level
   let (the synthesised __init__ is one more table entry), N distinct string literals, N locals, N globals --
   these programs join the end-to-end list of c10.py (--run vs nano_vm file vs wrapper executable vs nano_vmd).
Deterministic: no random choice."""
import os, json, struct, zlib
import vlib, nvmlib

CAPACITY = dict(strings=[64], functions=[32], imports=[32], debug=[256], code=[4096, 65536])   # nvm_module_new + u16 boundary


def load_axes():
    p = os.path.join(vlib.BUILD, 'limits.json')
    return json.load(open(p))['axes'] if os.path.exists(p) else {}


def bounds(vals):
    out = set()
    for v in vals:
        out.update(x for x in (v - 1, v, v + 1) if x >= 0)
    return sorted(out)


def limit_descs(axes):
    """[(axis, count, declared?, desc)]"""
    out = []
    def counts(ax):
        dec = bounds(axes.get(ax, {}).get('limits', []))
        cap = bounds(CAPACITY.get(ax, []))
        return [(c, c in dec) for c in sorted(set(dec) | set(cap))]
    for c, dec in counts('functions'):
        out.append(('functions', c, dec, '1 0 ; s 6d61696e ; c 3d' + ''.join(' ; f 0 0 0 1 %x 0' % (i % 65536) for i in range(c))))
    for c, dec in counts('strings'):
        out.append(('strings', c, dec, '0 0' + ''.join(' ; s ' + struct.pack('<H', i).hex() for i in range(c))))
    for c, dec in counts('imports'):
        out.append(('imports', c, dec, '2 0 ; s 6d' + ''.join(' ; i 0 0 1 1 %02x' % (i % 256) for i in range(c))))
    for c, dec in counts('debug'):
        out.append(('debug', c, dec, '4 0 ; c 3d' + ''.join(' ; d %x %x' % (i, i + 1) for i in range(c))))
    for c, dec in counts('code'):
        out.append(('code', c, dec, '1 0 ; c ' + (bytes((i * 7 + 1) & 0xff for i in range(c)).hex() or '-')))
    return out


def section_files(axes):
    """files with n empty sections of an unknown type, n around NVM_MAX_SECTIONS"""
    out = []
    for n in bounds(axes.get('sections', {}).get('limits', [])):
        end = 32 + 12 * n
        body = b''.join(struct.pack('<III', 0x7f, end, 0) for _ in range(n))
        f = b'NVM\x01' + struct.pack('<IIIIIII', 1, 0, 0, n, 0, 0, zlib.crc32(body) & 0xffffffff) + body
        out.append((n, f))
    return out


def limit_programs(axes):
    """[(name, source text, main's result)] -- programs that sit at a declared limit of the compiler / format"""
    out = []
    fl = axes.get('functions', {}).get('limits', [])
    for n in bounds(fl):                       # n = named functions including main
        for glob in (0, 1):
            h = n - 1
            src = ['let base: int = 40\n'] if glob else []
            for i in range(h):
                src.append('fn f%d(x: int) -> int { return (+ x %d) }\nshadow f%d { assert true }\n' % (i, i, i))
            last = 'f%d' % (h - 1) if h > 0 else None
            body = ' (println (%s 1))\n' % last if last else ''
            body += ' (println base)\n' if glob else ''
            src.append('fn main() -> int {\n%s return 3\n}\nshadow main { assert true }\n' % body)
            out.append(('limit_fn%d_g%d' % (n, glob), ''.join(src), 3))
    for L in axes.get('strings', {}).get('limits', []):
        for n in range(L - 3, L + 2):          # the pool also holds function names: straddle the limit from both sides
            src = 'fn main() -> int {\n' + ''.join(' (println "s%05d")\n' % i for i in range(n)) + ' return 4\n}\nshadow main { assert true }\n'
            out.append(('limit_str%d' % n, src, 4))
    for L in axes.get('locals', {}).get('limits', []):
        for n in range(L - 2, L + 2):
            src = 'fn main() -> int {\n' + ''.join(' let v%d: int = %d\n' % (i, i) for i in range(n)) + \
                  ' (println (+ v0 v%d))\n return 5\n}\nshadow main { assert true }\n' % (n - 1)
            out.append(('limit_loc%d' % n, src, 5))
    gl = axes.get('globals', {}).get('limits', [])
    if gl:
        for n in bounds([min(gl)]):
            src = ''.join('let g%d: int = %d\n' % (i, i) for i in range(n)) + \
                  'fn main() -> int {\n (println (+ g0 g%d))\n return 6\n}\nshadow main { assert true }\n' % (n - 1)
            out.append(('limit_glob%d' % n, src, 6))
    return out


def write_programs(axes):
    d = nvmlib.scratch('src_limits')
    res = []
    for name, src, ret in limit_programs(axes):
        p = os.path.join(d, name + '.nano')
        if not os.path.exists(p) or open(p).read() != src:
            open(p, 'w').write(src)
        res.append((name, p, ret))
    return res
