"""C13/C08 helper library: .nvm parsing / building, structure-aware mutation, bytecode generation.
All randomness comes from the rng handed in (ck.rng)."""
import os, re, struct, zlib
import vlib

KSIZE = dict(KU8=1, KU16=2, KU32=4, KI32=4, KI64=8, KF64=8)


def load_table():
    """opcode -> (name, [kind...]) from the generated NV/gen/IsaTable.v (the table the theorems use)."""
    rows = {}
    p = os.path.join(vlib.COQ, 'NV', 'gen', 'IsaTable.v')
    for m in re.finditer(r'^\s*\((\d+), \("([A-Z0-9_]+)", \[([^\]]*)\]\)\)', open(p).read(), re.M):
        ks = [k.strip() for k in m.group(3).split(';') if k.strip()]
        rows[int(m.group(1))] = (m.group(2), ks)
    return rows


class Asm:
    def __init__(self, table):
        self.t = table
        self.by_name = {v[0]: k for k, v in table.items()}

    def ins(self, name, *args):
        op = self.by_name[name]
        ks = self.t[op][1]
        assert len(ks) == len(args), (name, args)
        b = bytes([op])
        for k, a in zip(ks, args):
            b += (a % (1 << (8 * KSIZE[k]))).to_bytes(KSIZE[k], 'little')
        return b

    def size(self, op):
        return 1 + sum(KSIZE[k] for k in self.t[op][1])

    def decode(self, code, start, end):
        """sweep as the verifier does: list of (pos, op, args, size); stops at the first undecodable byte."""
        out = []
        pos = start
        while pos < end:
            op = code[pos]
            if op not in self.t:
                break
            sz = self.size(op)
            if pos + sz > end:
                break
            args = []
            q = pos + 1
            for k in self.t[op][1]:
                args.append(int.from_bytes(code[q:q + KSIZE[k]], 'little')); q += KSIZE[k]
            out.append((pos, op, args, sz))
            pos += sz
        return out


class Mod:
    """structured module; serialise() also returns the map of every header/directory/table field."""
    def __init__(self):
        self.flags = 1; self.entry = 0
        self.strings = []          # list of bytes
        self.funs = []             # dict(name, arity, off, len, locals, upvals)
        self.code = b''
        self.debug = []
        self.imports = b''         # raw section bytes
        self.extra = []            # extra (type, bytes) sections
        self.order = None          # section order override: list of 'S','C','F','D','I','X0'...

    def clone(self):
        m = Mod(); m.flags = self.flags; m.entry = self.entry; m.strings = list(self.strings)
        m.funs = [dict(f) for f in self.funs]; m.code = self.code; m.debug = list(self.debug)
        m.imports = self.imports; m.extra = list(self.extra); m.order = self.order
        return m

    def serialise(self):
        secs = []
        fields = []     # (abs_offset, width, label)
        sp = b''; sf = []
        for i, s in enumerate(self.strings):
            sf.append((len(sp), 4, 'str%d.len' % i)); sp += struct.pack('<I', len(s)) + s
        if self.strings: secs.append(('S', 2, sp, sf))
        if self.code: secs.append(('C', 1, self.code, []))
        fb = b''; ff = []
        for i, f in enumerate(self.funs):
            base = len(fb)
            ff += [(base, 4, 'fn%d.name' % i), (base + 4, 2, 'fn%d.arity' % i), (base + 6, 4, 'fn%d.off' % i),
                   (base + 10, 4, 'fn%d.len' % i), (base + 14, 2, 'fn%d.locals' % i), (base + 16, 2, 'fn%d.upvals' % i)]
            fb += struct.pack('<IHIIHH', f['name'] & 0xffffffff, f['arity'] & 0xffff, f['off'] & 0xffffffff,
                              f['len'] & 0xffffffff, f['locals'] & 0xffff, f['upvals'] & 0xffff)
        if self.funs: secs.append(('F', 3, fb, ff))
        if self.debug:
            secs.append(('D', 9, b''.join(struct.pack('<II', a & 0xffffffff, b & 0xffffffff) for a, b in self.debug), []))
        if self.imports: secs.append(('I', 8, self.imports, []))
        for i, (ty, bs) in enumerate(self.extra):
            secs.append(('X%d' % i, ty, bs, []))
        if self.order:
            d = {s[0]: s for s in secs}
            secs = [d[k] for k in self.order if k in d]
        n = len(secs)
        off = 32 + 12 * n
        body = b''; directory = b''
        spo = spl = 0
        for i, (tag, ty, bs, fl) in enumerate(secs):
            fields += [(32 + 12 * i, 4, 'sec%d.type' % i), (32 + 12 * i + 4, 4, 'sec%d.off' % i), (32 + 12 * i + 8, 4, 'sec%d.size' % i)]
            for (o, w, lab) in fl:
                fields.append((off + o, w, lab))
            if tag == 'S': spo, spl = off, len(bs)
            directory += struct.pack('<III', ty, off, len(bs))
            body += bs; off += len(bs)
        rest = directory + body
        hdr = b'NVM\x01' + struct.pack('<IIIIIII', 1, self.flags & 0xffffffff, self.entry & 0xffffffff, n, spo, spl, zlib.crc32(rest) & 0xffffffff)
        fields += [(4, 4, 'hdr.version'), (8, 4, 'hdr.flags'), (12, 4, 'hdr.entry'), (16, 4, 'hdr.nsec'), (20, 4, 'hdr.spo'), (24, 4, 'hdr.spl')]
        return hdr + rest, fields


def fix_crc(b):
    if len(b) < 32:
        return b
    return b[:28] + struct.pack('<I', zlib.crc32(b[32:]) & 0xffffffff) + b[32:]


def parse_nvm(b):
    """compiler-produced module -> Mod (no hostile input here)."""
    m = Mod()
    ver, m.flags, m.entry, nsec, spo, spl, crc = struct.unpack('<IIIIIII', b[4:32])
    for i in range(nsec):
        ty, off, sz = struct.unpack('<III', b[32 + 12 * i:44 + 12 * i])
        d = b[off:off + sz]
        if ty == 2:
            p = 0
            while p + 4 <= sz:
                l = struct.unpack('<I', d[p:p + 4])[0]; p += 4
                m.strings.append(d[p:p + l]); p += l
        elif ty == 1:
            m.code += d
        elif ty == 3:
            for p in range(0, sz - 17, 18):
                n_, a, o, l, lc, uv = struct.unpack('<IHIIHH', d[p:p + 18])
                m.funs.append(dict(name=n_, arity=a, off=o, len=l, locals=lc, upvals=uv))
        elif ty == 9:
            for p in range(0, sz - 7, 8):
                m.debug.append(struct.unpack('<II', d[p:p + 8]))
        elif ty == 8:
            m.imports += d
        else:
            m.extra.append((ty, d))
    return m


def boundary_values(rng, width, cur, filesize):
    mx = (1 << (8 * width)) - 1
    c = [0, 1, 2, cur + 1, max(cur - 1, 0), mx, mx - 1, (mx + 1) // 2, (mx + 1) // 2 - 1, filesize & mx, (filesize + 1) & mx,
         max(filesize - 1, 0) & mx, (mx + 1 - cur) & mx, (mx - cur) & mx, (mx + 1 - 16) & mx, 0x20, 0x10, 0xff, 0x100, 0xffff, 0x10000,
         (cur * 2) & mx, cur // 2, 4096, 4095, 4097, 1024, 1023, 1025, rng.getrandbits(8 * width), rng.randrange(0, 64)]
    if width == 4:
        c += [0xfffffff0, 0xffffffee, 0x80000000, 0x7fffffff, (0x100000000 - filesize) & mx, (0x100000000 - filesize + cur) & mx,
              (0x100000000 + 4 - cur) & mx if cur else 5]
    return c


def mutate_field(rng, data, fields):
    off, w, lab = rng.choice(fields)
    cur = int.from_bytes(data[off:off + w], 'little')
    v = rng.choice(boundary_values(rng, w, cur, len(data))) % (1 << (8 * w))
    return fix_crc(data[:off] + v.to_bytes(w, 'little') + data[off + w:]), '%s:%d->%d' % (lab, cur, v)


INT_EDGE = [0, 1, -1, 2, 3, 5, 7, -2, 255, 256, 65535, 65536, 2**31 - 1, 2**31, -2**31, 2**32 - 1, 2**32, 2**32 + 1, 2**32 + 2,
            2**63 - 1, -2**63, -2**63 + 1, 2**62, 10, 100, 4096, 4095, 1024, 1023]


def mutate_code(rng, asm, m):
    """instruction-level mutation inside one function; returns (Mod, description) or None."""
    if not m.funs or not m.code:
        return None
    fi = rng.randrange(len(m.funs)); f = m.funs[fi]
    ins = asm.decode(m.code, f['off'], f['off'] + f['len'])
    if not ins:
        return None
    code = bytearray(m.code)
    kind = rng.choice(['operand', 'operand', 'opcode', 'insert', 'delete', 'dup', 'retarget', 'retarget', 'swap', 'truncate', 'midjump'])
    m2 = m.clone()
    pos, op, args, sz = rng.choice(ins)
    name, ks = asm.t[op]
    if kind == 'operand' and ks:
        k = rng.randrange(len(ks)); w = KSIZE[ks[k]]
        vals = boundary_values(rng, w, args[k], len(m.code)) + [len(m.strings), len(m.funs), f['locals'], f['locals'] + 1, len(m.strings) - 1]
        if ks[k] == 'KI64':
            vals += [v % 2**64 for v in INT_EDGE]
        v = rng.choice(vals) % (1 << (8 * w))
        q = pos + 1 + sum(KSIZE[x] for x in ks[:k])
        code[q:q + w] = v.to_bytes(w, 'little')
        m2.code = bytes(code)
        return m2, 'fn%d@%d %s operand%d=%d' % (fi, pos, name, k, v)
    if kind == 'opcode':
        # same-size replacement keeps the sweep aligned
        cands = [o for o in asm.t if asm.size(o) == sz and o != op]
        if not cands:
            return None
        o2 = rng.choice(cands); code[pos] = o2; m2.code = bytes(code)
        return m2, 'fn%d@%d %s->%s' % (fi, pos, name, asm.t[o2][0])
    if kind in ('insert', 'dup', 'delete', 'swap', 'truncate'):
        if kind == 'insert':
            o2 = rng.choice(list(asm.t)); n2, k2 = asm.t[o2]
            new = asm.ins(n2, *[rng.choice(boundary_values(rng, KSIZE[x], 0, len(m.code))) for x in k2])
            piece = bytes(code[:pos]) + new + bytes(code[pos:]); delta = len(new); desc = 'insert %s' % n2
        elif kind == 'dup':
            piece = bytes(code[:pos + sz]) + bytes(code[pos:pos + sz]) + bytes(code[pos + sz:]); delta = sz; desc = 'dup %s' % name
        elif kind == 'delete':
            piece = bytes(code[:pos]) + bytes(code[pos + sz:]); delta = -sz; desc = 'delete %s' % name
        elif kind == 'swap':
            j = rng.randrange(len(ins)); p2, o2, a2, s2 = ins[j]
            if p2 == pos: return None
            (pa, sa), (pb, sb) = sorted([(pos, sz), (p2, s2)])
            piece = bytes(code[:pa]) + bytes(code[pb:pb + sb]) + bytes(code[pa + sa:pb]) + bytes(code[pa:pa + sa]) + bytes(code[pb + sb:])
            delta = 0; desc = 'swap @%d @%d' % (pa, pb)
        else:
            cut = rng.randrange(1, sz + 1) if sz > 1 else 1
            piece = bytes(code[:pos + sz - cut]) + bytes(code[pos + sz:]); delta = -cut; desc = 'truncate %s by %d' % (name, cut)
        m2.code = piece
        # keep the function table consistent (this function grows/shrinks, later ones shift) -- jumps are NOT fixed: that is the point
        for g in m2.funs:
            if g is m2.funs[fi]:
                g['len'] = max(0, g['len'] + delta)
            elif g['off'] > f['off']:
                g['off'] = max(0, g['off'] + delta)
        return m2, 'fn%d@%d %s' % (fi, pos, desc)
    if kind in ('retarget', 'midjump'):
        jumps = [(p, o, a, s) for (p, o, a, s) in ins if asm.t[o][0] in ('JMP', 'JMP_TRUE', 'JMP_FALSE', 'MATCH_TAG')]
        if not jumps:
            # turn this instruction into a jump if it has the size for it
            if sz < 5: return None
            jp, jop, jargs, jsz = pos, asm.by_name['JMP'], [0], 5
            code[pos] = jop
            for q in range(pos + 5, pos + sz): code[q] = 0
        else:
            jp, jop, jargs, jsz = rng.choice(jumps)
        rel0 = jp - f['off']
        bounds = [p - f['off'] for (p, _, _, _) in ins] + [f['len']]
        if kind == 'midjump':
            tgt = rng.choice([b + 1 for b in bounds[:-1]] + [b + 2 for b in bounds[:-1]])
        else:
            tgt = rng.choice(bounds + [f['len'] + 1, -1, 0, f['len'] - 1, -f['off'], -f['off'] - 1, len(m.code) - f['off'], 2**31 - 1 + rel0 - rel0,
                                       -2**31 + rel0 if rel0 else 0, f['len'] + 2**32 % 7])
        offv = (tgt - rel0) % 2**32
        q = jp + 1 + (2 if asm.t[jop][0] == 'MATCH_TAG' else 0)
        code[q:q + 4] = offv.to_bytes(4, 'little')
        m2.code = bytes(code)
        return m2, 'fn%d@%d %s -> rel %d' % (fi, jp, kind, tgt)
    return None


def mutate_struct(rng, m):
    m2 = m.clone()
    k = rng.choice(['dupstr', 'dupfn', 'order', 'extra', 'dropstr', 'nulstr', 'initname', 'dupcode', 'entry', 'flags', 'emptyfn', 'fnlocals'])
    if k == 'dupstr' and m2.strings:
        m2.strings.append(rng.choice(m2.strings)); return m2, 'duplicate string'
    if k == 'dropstr' and m2.strings:
        i = rng.randrange(len(m2.strings)); del m2.strings[i]; return m2, 'drop string %d' % i
    if k == 'nulstr' and m2.strings:
        i = rng.randrange(len(m2.strings)); s = m2.strings[i]; j = rng.randrange(len(s) + 1)
        m2.strings[i] = s[:j] + b'\0' + s[j:]; return m2, 'NUL in string %d' % i
    if k == 'initname' and m2.strings and m2.funs:
        m2.strings.append(b'__init__' if rng.random() < 0.7 else b'__init__\0x'); rng.choice(m2.funs)['name'] = len(m2.strings) - 1
        return m2, 'function renamed __init__'
    if k == 'dupfn' and m2.funs:
        m2.funs.insert(rng.randrange(len(m2.funs) + 1), dict(rng.choice(m2.funs))); return m2, 'duplicate function entry'
    if k == 'order':
        o = ['S', 'C', 'F', 'D', 'I']; rng.shuffle(o); m2.order = o; return m2, 'section order ' + ''.join(o)
    if k == 'extra':
        ty = rng.choice([0, 4, 5, 6, 7, 10, 11, 12, 0xffff, 1, 2, 3, 9, 8])
        m2.extra.append((ty, bytes(rng.randrange(256) for _ in range(rng.randrange(0, 40))))); return m2, 'extra section type %d' % ty
    if k == 'dupcode':
        m2.extra.append((1, m2.code[:rng.randrange(len(m2.code) + 1)])); return m2, 'second CODE section'
    if k == 'entry':
        m2.entry = rng.choice([0, 1, len(m2.funs) - 1, len(m2.funs), 2**32 - 1]); return m2, 'entry %d' % m2.entry
    if k == 'flags':
        m2.flags = rng.choice([0, 1, 2, 3, 4, 5, 7, 0xfffffffe, 0xffffffff]); return m2, 'flags %d' % m2.flags
    if k == 'emptyfn' and m2.funs:
        f = rng.choice(m2.funs); f['len'] = 0; return m2, 'empty function'
    if k == 'fnlocals' and m2.funs:
        f = rng.choice(m2.funs); f['locals'] = rng.choice([0, 1, f['arity'], max(f['arity'] - 1, 0), 65535, 300]); f['arity'] = rng.choice([f['arity'], 0, 1, 2, 65535, 5])
        return m2, 'arity/locals %d/%d' % (f['arity'], f['locals'])
    return None


def mutate_raw(rng, data):
    b = bytearray(data)
    k = rng.choice(['flip', 'flip', 'trunc', 'append', 'flipnocrc', 'zero'])
    if k in ('flip', 'flipnocrc') and len(b) > 0:
        for _ in range(rng.randrange(1, 4)):
            i = rng.randrange(len(b)); b[i] = rng.choice([0, 0xff, b[i] ^ (1 << rng.randrange(8)), rng.randrange(256)])
        return (fix_crc(bytes(b)) if k == 'flip' else bytes(b)), k
    if k == 'trunc':
        n = rng.randrange(0, len(b) + 1); return (fix_crc(bytes(b[:n])) if rng.random() < 0.7 else bytes(b[:n])), 'trunc %d' % n
    if k == 'append':
        return fix_crc(bytes(b) + bytes(rng.randrange(256) for _ in range(rng.randrange(1, 30)))), 'append'
    i = rng.randrange(len(b)); j = min(len(b), i + rng.randrange(1, 16)); b[i:j] = bytes(j - i)
    return fix_crc(bytes(b)), 'zero %d..%d' % (i, j)


# ------------------------------------------------------------------ generated bytecode
class Gen:
    """random instruction sequences from the modelled set, mostly type-plausible (abstract stack), some deliberately not."""
    def __init__(self, rng, asm):
        self.rng = rng; self.a = asm

    def const_int(self):
        return self.rng.choice(INT_EDGE + [self.rng.randrange(-5, 12)] * 6)

    def program(self):
        rng = self.rng; a = self.a
        m = Mod()
        m.strings = [b'main', b'', b'ab', b'hello world', b'12', b' -42x', b'99999999999999999999', b'f1', b'f2']
        nloc = rng.randrange(0, 5)
        body = b''; st = []          # abstract stack
        n = rng.randrange(3, 40)
        helper_locals = rng.randrange(0, 3); helper_arity = rng.randrange(0, 3)
        def push_int():
            nonlocal body
            if rng.random() < 0.12:      # an enum value wherever an int is expected (arithmetic, MOD, NEG, array index coerce it)
                body += a.ins('ENUM_VAL', 0, rng.choice([0, 1, 2, 3, 5, 65535]))
            else:
                body += a.ins('PUSH_I64', self.const_int())
            st.append('i')
        def push_str():
            nonlocal body; body += a.ins('PUSH_STR', rng.choice([1, 2, 3, 4, 5, 6, rng.randrange(0, 12)])); st.append('s')
        def push_arr():
            nonlocal body
            k = rng.randrange(0, 5)
            for _ in range(k): body += a.ins('PUSH_I64', self.const_int())
            body += a.ins('ARR_LITERAL', 1, k); st.append('a')
        def need(*tys):
            # make the stack end with these abstract types (pushing fresh values)
            for t in tys:
                {'i': push_int, 's': push_str, 'a': push_arr}.get(t, push_int)()
        for _ in range(n):
            r = rng.random()
            if r < 0.08:
                o = rng.choice(list(a.t)); nm, ks = a.t[o]
                if nm in ('CALL_EXTERN',): continue
                args = [rng.choice([0, 1, 2, 3, 255, 65535, rng.randrange(0, 10)]) for _ in ks]
                if nm in ('JMP', 'JMP_TRUE', 'JMP_FALSE'): args = [5]
                if nm == 'MATCH_TAG': args = [args[0], 7]
                if nm in ('LOAD_LOCAL', 'STORE_LOCAL'): args = [rng.randrange(0, max(nloc, 1))]
                if nm in ('LOAD_UPVALUE', 'STORE_UPVALUE'): continue
                if nm in ('CALL', 'CLOSURE_NEW'): args[0] = rng.randrange(0, 2)
                if nm == 'PUSH_STR': args = [rng.randrange(0, 9)]
                body += a.ins(nm, *args); st.clear(); continue
            c = rng.choice(['arith', 'arith', 'cmp', 'logic', 'arr', 'arr', 'arr', 'str', 'str', 'local', 'global', 'print', 'print', 'struct', 'tuple', 'union',
                            'stack', 'cast', 'call', 'closure', 'cyc', 'enum'])
            if c == 'arith':
                need('i', 'i'); body += a.ins(rng.choice(['ADD', 'SUB', 'MUL', 'DIV', 'MOD', 'DIV', 'MOD']));
                del st[-2:]; st.append('i')
                if rng.random() < 0.3: body += a.ins('NEG')
            elif c == 'cmp':
                need(rng.choice('is'), rng.choice('is')); body += a.ins(rng.choice(['EQ', 'NE', 'LT', 'LE', 'GT', 'GE'])); del st[-2:]; st.append('b')
            elif c == 'logic':
                need('i', 'i'); body += a.ins(rng.choice(['AND', 'OR'])); body += a.ins('NOT'); del st[-2:]; st.append('b')
            elif c == 'arr':
                push_arr()
                k = rng.choice(['get', 'get', 'set', 'pop', 'remove', 'push', 'len', 'slice', 'getset'])
                if k == 'get': push_int(); body += a.ins('ARR_GET'); del st[-2:]; st.append('x')
                elif k == 'set': push_int(); push_int(); body += a.ins('ARR_SET'); del st[-3:]; st.append('a')
                elif k == 'pop': body += a.ins('ARR_POP'); st[-1:] = ['x', 'a']
                elif k == 'remove': push_int(); body += a.ins('ARR_REMOVE'); del st[-2:]; st.append('a')
                elif k == 'push': need(rng.choice('isa')); body += a.ins('ARR_PUSH'); del st[-2:]; st.append('a')
                elif k == 'len': body += a.ins('ARR_LEN'); st[-1] = 'i'
                elif k == 'slice': push_int(); push_int(); body += a.ins('ARR_SLICE'); del st[-3:]; st.append('a')
                else:
                    body += a.ins('DUP'); push_int(); push_int(); body += a.ins('ARR_SET') + a.ins('POP'); push_int(); body += a.ins('ARR_GET'); st[-1:] = ['x']
            elif c == 'str':
                k = rng.choice(['len', 'cat', 'sub', 'sub', 'has', 'eq', 'chr', 'fromint', 'add', 'fromfloat'])
                if k == 'len': need('s'); body += a.ins('STR_LEN'); st[-1] = 'i'
                elif k == 'cat': need('s', 's'); body += a.ins('STR_CONCAT'); del st[-2:]; st.append('s')
                elif k == 'add': need('s', 's'); body += a.ins('ADD'); del st[-2:]; st.append('s')
                elif k == 'sub': need('s', 'i', 'i'); body += a.ins('STR_SUBSTR'); del st[-3:]; st.append('s')
                elif k == 'has': need('s', 's'); body += a.ins('STR_CONTAINS'); del st[-2:]; st.append('b')
                elif k == 'eq': need('s', 's'); body += a.ins('STR_EQ'); del st[-2:]; st.append('b')
                elif k == 'chr': need('s', 'i'); body += a.ins('STR_CHAR_AT'); del st[-2:]; st.append('i')
                elif k == 'fromint': need('i'); body += a.ins('STR_FROM_INT'); st[-1] = 's'
                else: need('i'); body += a.ins('STR_FROM_FLOAT'); st[-1] = 's'
            elif c == 'local' and nloc:
                if rng.random() < 0.5 or not st:
                    body += a.ins('LOAD_LOCAL', rng.randrange(nloc)); st.append('x')
                else:
                    body += a.ins('STORE_LOCAL', rng.randrange(nloc)); st.pop()
            elif c == 'global':
                g = rng.choice([0, 1, 2, 4095, 4096, 7])
                if rng.random() < 0.5 or not st:
                    body += a.ins('LOAD_GLOBAL', g); st.append('x')
                else:
                    body += a.ins('STORE_GLOBAL', g); st.pop()
            elif c == 'print':
                if not st: need(rng.choice('isa'))
                body += a.ins(rng.choice(['PRINT', 'PRINTLN', 'PRINTLN'])); st.pop()
            elif c == 'struct':
                k = rng.randrange(0, 4)
                for _ in range(k): need(rng.choice('isa'))
                body += a.ins('STRUCT_LITERAL', rng.randrange(3), k); del st[len(st) - k:]; st.append('st')
                r2 = rng.random()
                if r2 < 0.4: body += a.ins('STRUCT_GET', rng.choice([0, 1, k, max(k - 1, 0), 65535])); st[-1] = 'x'
                elif r2 < 0.7: push_int(); body += a.ins('STRUCT_SET', rng.choice([0, 1, k, 65535])); del st[-1:]
            elif c == 'tuple':
                k = rng.randrange(0, 4)
                for _ in range(k): need(rng.choice('isa'))
                body += a.ins('TUPLE_NEW', k); del st[len(st) - k:]; st.append('t')
                if rng.random() < 0.6: body += a.ins('TUPLE_GET', rng.choice([0, 1, k, max(k - 1, 0), 65535])); st[-1] = 'x'
            elif c == 'union':
                k = rng.randrange(0, 3); v = rng.randrange(0, 3)
                for _ in range(k): need(rng.choice('is'))
                body += a.ins('UNION_CONSTRUCT', 0, v, k); del st[len(st) - k:]; st.append('u')
                r2 = rng.random()
                if r2 < 0.3: body += a.ins('UNION_TAG'); st[-1] = 'i'
                elif r2 < 0.6: body += a.ins('UNION_FIELD', rng.choice([0, 1, k, 65535])); st[-1] = 'x'
                elif r2 < 0.8: body += a.ins('MATCH_TAG', rng.randrange(0, 3), 7 + 1)  # jump over the next 1-byte instruction
            elif c == 'stack':
                body += a.ins(rng.choice(['DUP', 'POP', 'SWAP', 'ROT3', 'PUSH_VOID', 'NOP', 'GC_RETAIN', 'GC_RELEASE', 'OPAQUE_NULL', 'OPAQUE_VALID']))
                st.clear()
            elif c == 'cast':
                need(rng.choice('isa')); body += a.ins(rng.choice(['CAST_INT', 'CAST_BOOL', 'CAST_STRING', 'CAST_INT'])); st[-1] = 'x'
                if rng.random() < 0.3: body += a.ins('TYPE_CHECK', rng.randrange(0, 16))
            elif c == 'call':
                for _ in range(rng.choice([helper_arity, helper_arity, 0])): push_int()
                body += a.ins('CALL', 1); st.clear(); st.append('x')
            elif c == 'closure':
                k = rng.choice([0, 0, 1, 2]);
                for _ in range(k): push_int()
                body += a.ins('CLOSURE_NEW', 1, k); del st[len(st) - k:]
                for _ in range(helper_arity): push_int()
                if helper_arity == 0:
                    body += a.ins(rng.choice(['CLOSURE_CALL', 'CALL_INDIRECT'])); st.clear(); st.append('x')
                else:
                    body += a.ins('POP') * helper_arity + a.ins(rng.choice(['CLOSURE_CALL', 'CALL_INDIRECT', 'PRINTLN', 'POP'])); st.clear()
            elif c == 'cyc' and rng.random() < 0.3:
                body += a.ins('ARR_NEW', 7) + a.ins('DUP') + a.ins('ARR_PUSH') + a.ins(rng.choice(['POP', 'PRINTLN', 'ARR_LEN']))
            elif c == 'enum':
                body += a.ins('ENUM_VAL', 0, rng.randrange(0, 4)); st.append('i')
        tail = rng.random()
        if tail < 0.7:
            if rng.random() < 0.7: body += a.ins('PUSH_I64', self.const_int())
            body += a.ins('RET')
        elif tail < 0.8:
            body += a.ins('HALT')
        # helper function 1
        h = b''
        for _ in range(rng.randrange(0, 6)):
            k = rng.choice(['ll', 'add', 'print', 'up', 'push', 'rec', 'sl'])
            if k == 'll' and helper_locals + helper_arity: h += a.ins('LOAD_LOCAL', rng.randrange(helper_locals + helper_arity))
            elif k == 'sl' and helper_locals + helper_arity: h += a.ins('PUSH_I64', self.const_int()) + a.ins('STORE_LOCAL', rng.randrange(helper_locals + helper_arity))
            elif k == 'add': h += a.ins('PUSH_I64', self.const_int()) + a.ins('PUSH_I64', self.const_int()) + a.ins(rng.choice(['ADD', 'MUL', 'DIV', 'SUB']))
            elif k == 'print': h += a.ins('PUSH_STR', 7) + a.ins('PRINTLN')
            elif k == 'up': h += a.ins('LOAD_UPVALUE', 0, rng.randrange(0, 3)) if rng.random() < 0.7 else a.ins('PUSH_I64', 5) + a.ins('STORE_UPVALUE', 0, rng.randrange(0, 3))
            elif k == 'push': h += a.ins('PUSH_I64', self.const_int())
            elif k == 'rec' and rng.random() < 0.3:
                for _ in range(helper_arity): h += a.ins('PUSH_I64', 1)
                h += a.ins('CALL', 1)
        if rng.random() < 0.8: h += a.ins('RET')
        m.code = body + h
        m.funs = [dict(name=0, arity=0, off=0, len=len(body), locals=nloc, upvals=0),
                  dict(name=7, arity=helper_arity, off=len(body), len=len(h), locals=helper_arity + helper_locals, upvals=3)]
        return m
