"""C08 -- out-of-range operations stop the program and never yield a value.
Proof: NV/Props/Properties_C08.v (Vm/Bounds.v: what each engine computes for every (length, idx : Z, access kind); Step/Run for the VM
state machine).  Correspondence: generated programs per (length n, index, access kind, engine) -- the index reaches the program at run time
(getenv) so one native binary serves all indices -- run on nano_virt --run (ASan build), on the nanoc-compiled native binary, and in the
interpreter (shadow test evaluated by nanoc); observed = {trapped: exit != 0 and no after-marker | continued + which element was touched}
vs the extracted model at the cfg of the current source.  Field/tuple/union index: bytecode modules through vm_probe vs the VM model."""
import os, sys, re, json, glob, time, hashlib, tempfile, shutil
from concurrent.futures import ThreadPoolExecutor
import vlib
import c13, c13_lib as L

INT64_MIN = -2**63; INT64_MAX = 2**63 - 1
ENVB = dict(os.environ, ASAN_OPTIONS='detect_leaks=0:exitcode=99', UBSAN_OPTIONS='print_stacktrace=0')


def indices(n):
    s = [-1, n, n + 1, INT64_MIN, INT64_MAX, 2**31, 2**32 - 1, 2**32, 2**32 + n, 2**63 - 1, -2**32 + 1]
    if n > 0:
        s += [-n, 2**32 + 0, 2**32 + n - 1, -2**32 + n - 1, 0, n - 1]     # the last two are legitimate
    if n > 2:
        s += [2**32 + 1, 1]
    out = []
    for x in s:
        if x not in out and INT64_MIN <= x <= INT64_MAX:
            out.append(x)
    return out


def pushes(n):
    return ''.join('    set a (array_push a %d)\n' % (10 * (j + 1)) for j in range(n))


def literal(n):
    return '[' + ', '.join(str(10 * (j + 1)) for j in range(n)) + ']'


DUMP = ('    let mut j: int = 0\n    while (< j (array_length a)) {\n        (println (at a j))\n        set j (+ j 1)\n    }\n')


def program(kind, n):
    """VM / native: prints B, performs the access with the run-time index, prints what it can see, prints A."""
    head = 'fn main() -> int {\n    let i: int = (string_to_int (getenv "C08_IDX"))\n    let mut a: array<int> = []\n' + pushes(n) + '    (println "B")\n'
    if kind == 'get':
        body = '    let x: int = (at a i)\n    (println x)\n'
    elif kind == 'set':
        body = '    (array_set a i 99)\n' + DUMP
    elif kind == 'pop':
        body = '    let x: int = (array_pop a)\n    (println x)\n    (println (array_length a))\n'
    else:
        body = '    set a (array_remove_at a i)\n' + DUMP
    return head + body + '    (println "A")\n    return 0\n}\n'


def dyn(n, fresh=False):
    """a dynamic array of n elements for the interpreter: an empty literal that was never pushed to is still a *static* array there
    (array_pop / array_remove_at then answer "requires a dynamic array"), so the empty dynamic array is made by push + pop."""
    if n == 0 and not fresh:
        return '    set a (array_push a 1)\n    let tmp: int = (array_pop a)\n'
    return pushes(n)


def interp_program(kind, n, fresh=False):
    """interpreter: f performs the access and returns what identifies the touched element; the shadow assertion FAILS exactly when f returns
    C08_EXPECT, so that 'continued as the model says' ends nanoc before the (slow) C compilation."""
    if kind == 'get':
        f = '    let a: array<int> = %s\n    let x: int = (at a i)\n    return x\n' % literal(n)
    elif kind == 'set':
        f = ('    let mut a: array<int> = %s\n    (array_set a i 99)\n    let mut j: int = 0\n    let mut pos: int = -1\n'
             '    while (< j (array_length a)) {\n        if (== (at a j) 99) { set pos j }\n        set j (+ j 1)\n    }\n    return pos\n' % literal(n))
    elif kind == 'pop':
        f = ('    let mut a: array<int> = []\n' + dyn(n, fresh) + '    let x: int = (array_pop a)\n'
             '    if (== (array_length a) %d) { return x } else { return -5 }\n' % (n - 1))
    else:
        f = ('    let mut a: array<int> = []\n' + dyn(n, fresh) + '    set a (array_remove_at a i)\n    let mut j: int = 0\n    let mut s: int = 0\n'
             '    while (< j (array_length a)) {\n        set s (+ s (at a j))\n        set j (+ j 1)\n    }\n    return (+ (* 100000 (array_length a)) s)\n')
    return ('fn f(i: int) -> int {\n' + f + '}\nshadow f {\n    assert (!= (f (string_to_int (getenv "C08_IDX"))) (string_to_int (getenv "C08_EXPECT")))\n}\n'
            'fn main() -> int { return 0 }\n')


def interp_expect(kind, n, acc):
    """value f returns when the access behaves as the model says (acc = ('elem', i) | ('void',) | ('noop',))."""
    if kind == 'get':
        return 10 * (acc[1] + 1) if acc[0] == 'elem' else 0
    if kind == 'set':
        return acc[1] if acc[0] == 'elem' else -1
    if kind == 'pop':
        return 10 * n if acc[0] == 'elem' else -5
    tot = sum(10 * (j + 1) for j in range(n))
    return 100000 * (n - 1) + tot - 10 * (acc[1] + 1) if acc[0] == 'elem' else 100000 * n + tot


def observe(kind, n, rc, out):
    """(trapped?, touched) from a VM / native run.  touched: ('elem', i) | ('void',) | ('noop',) | ('other', text)."""
    lines = out.split('\n')
    after = 'A' in lines
    if rc != 0 and not after:
        return ('trap',)
    if rc != 0 or not after or 'B' not in lines:
        return ('other', 'rc=%s out=%r' % (rc, out[:80]))
    mid = lines[lines.index('B') + 1:lines.index('A')]
    try:
        if kind == 'get':
            v = mid[0]
            if v.lstrip('-').isdigit() and int(v) % 10 == 0 and 1 <= int(v) // 10 <= n: return ('elem', int(v) // 10 - 1)
            return ('void',)
        if kind == 'set':
            vals = [int(x) for x in mid]
            want = [10 * (j + 1) for j in range(n)]
            if vals == want: return ('noop',)
            d = [j for j in range(n) if j < len(vals) and vals[j] != want[j]]
            if len(vals) == n and len(d) == 1 and vals[d[0]] == 99: return ('elem', d[0])
            return ('other', ' '.join(mid)[:60])
        if kind == 'pop':
            v, ln = mid[0], int(mid[1])
            if n > 0 and v == str(10 * n) and ln == n - 1: return ('elem', n - 1)
            if ln == n: return ('void',)
            return ('other', ' '.join(mid)[:60])
        vals = [int(x) for x in mid]
        want = [10 * (j + 1) for j in range(n)]
        if vals == want: return ('noop',)
        for j in range(n):
            if vals == want[:j] + want[j + 1:]: return ('elem', j)
        return ('other', ' '.join(mid)[:60])
    except Exception:
        return ('other', ' '.join(mid)[:60])


def parse_model(ans):
    f = ans.split()
    legit = f[-1] == 'legit'
    if f[0] == 'elem': return ('elem', int(f[1], 16)), legit
    return (f[0],), legit


def zhex(z):
    return ('-%x' % -z) if z < 0 else '%x' % z


def klass(obs, model_idx, n):
    """finding class of a continued illegitimate access"""
    if obs[0] == 'elem': return 'wrap'
    return obs[0]


# ------------------------------------------------------------------ element-kind axis
ELEM_KINDS = {   # kind -> (type, prelude, value expressions, how to show an element q)
    'int':    ('int', '', ['10', '20', '99'], '(println q)'),
    'float':  ('float', '', ['1.5', '2.5', '9.5'], '(println q)'),
    'bool':   ('bool', '', ['true', 'false', 'true'], '(println q)'),
    'string': ('string', '', ['"s1"', '"s2"', '"s9"'], '(println q)'),
    'struct': ('P', 'struct P { x: int, y: int }\n', ['P { x: 1, y: 2 }', 'P { x: 3, y: 4 }', 'P { x: 9, y: 9 }'], '(println q.x)'),
    'nested': ('array<int>', '', ['[1, 2]', '[3]', '[9, 9, 9]'], '(println (array_length q))'),
}


def kind_program(ek, op, interp=False):
    """array<ek> of two elements; op in get / set / remove / pop2 (two elements popped from a one-element array)"""
    ty, prelude, vals, show = ELEM_KINDS[ek]
    build = '    let mut a: array<%s> = []\n    set a (array_push a %s)\n' % (ty, vals[0]) + ('' if op == 'pop2' else '    set a (array_push a %s)\n' % vals[1])
    if op == 'get':
        body = '    let q: %s = (at a i)\n    %s\n' % (ty, show if not interp else 'set w (+ w 1)')
    elif op == 'set':
        body = '    (array_set a i %s)\n' % vals[2]
    elif op == 'remove':
        body = '    set a (array_remove_at a i)\n'
    else:
        body = '    let q: %s = (array_pop a)\n    if (== i 1) {\n        let r: %s = (array_pop a)\n        set w (+ w 1)\n    }\n' % (ty, ty)
    if interp:
        return (prelude + 'fn f(i: int) -> int {\n' + build + '    let mut w: int = 0\n' + body + '    return (+ 7 (* 0 w))\n}\n'
                'shadow f {\n    assert (!= (f (string_to_int (getenv "C08_IDX"))) 7)\n}\nfn main() -> int { return 0 }\n')
    return (prelude + 'fn main() -> int {\n    let i: int = (string_to_int (getenv "C08_IDX"))\n' + build + '    let mut w: int = 0\n    (println "B")\n' + body +
            '    (println "A")\n    return (* 0 w)\n}\n')


# ------------------------------------------------------------------ stale-bound family
# the loop bound is derived from the array once; the body (or something it calls) shrinks or replaces the array; the first access at an index >= the
# CURRENT length must trap.  The program prints the current length and the index before every access, so the verdict does not depend on an engine's
# aliasing rules: record (len, i) with i >= len must be the last thing the program does.
STALE_LOOPS = ('for_len', 'while_hoisted', 'nested')
STALE_WAYS = ('pop', 'remove', 'literal', 'slice', 'callee_pops', 'alias')
STALE_ACCESSES = ('at', 'array_get', 'array_set')
STALE_KINDS = ('int', 'float', 'string', 'struct')
STALE_VALS = {'int': ['10', '20', '30', '40', '99'], 'float': ['1.5', '2.5', '3.5', '4.5', '9.5'], 'string': ['"a"', '"b"', '"c"', '"d"', '"z"'],
              'struct': ['P { x: 1, y: 1 }', 'P { x: 2, y: 2 }', 'P { x: 3, y: 3 }', 'P { x: 4, y: 4 }', 'P { x: 9, y: 9 }']}


def stale_program(loop, ek, way, acc, interp=False):
    ty, prelude = ELEM_KINDS[ek][0], ELEM_KINDS[ek][1]
    v = STALE_VALS[ek]
    helper = ''
    if way == 'callee_pops':
        helper = 'fn shrink(a0: array<%s>) -> int {\n    let mut a: array<%s> = a0\n    let t1: %s = (array_pop a)\n    let t2: %s = (array_pop a)\n    return 0\n}\n' % (ty, ty, ty, ty)
    shrink = {'pop': 'let t1: %s = (array_pop xs)\n            let t2: %s = (array_pop xs)' % (ty, ty),
              'remove': 'set xs (array_remove_at xs 0)\n            set xs (array_remove_at xs 0)',
              'literal': 'set xs [%s]' % v[0],
              'slice': 'set xs (array_slice xs 0 1)',
              'callee_pops': 'let r1: int = (shrink xs)',
              'alias': 'let mut ys2: array<%s> = xs\n            let t1: %s = (array_pop ys2)\n            let t2: %s = (array_pop ys2)' % (ty, ty, ty)}[way]
    access = {'at': 'let q: %s = (at xs i)' % ty, 'array_get': 'let q: %s = (array_get xs i)' % ty, 'array_set': '(array_set xs i %s)' % v[4]}[acc]
    if interp:
        pre = '        if (>= i (array_length xs)) { set stale 1 }\n'
        post = '        if (== stale 1) { return 99 }\n'
    else:
        pre = '        (println "L")\n        (println (array_length xs))\n        (println i)\n'
        post = '        (println "ok")\n'
    body = ('        if (and (== i 1) (== (array_length xs) 4)) {\n            %s\n        }\n' % shrink) + pre + '        ' + access + '\n' + post
    if loop == 'for_len':
        lp = '    for i in (range 0 (array_length xs)) {\n' + body + '    }\n'
    elif loop == 'while_hoisted':
        lp = '    let n: int = (array_length xs)\n    let mut i: int = 0\n    while (< i n) {\n' + body + '        set i (+ i 1)\n    }\n'
    else:
        lp = '    let ys: array<int> = [1, 2]\n    for j in (range 0 (array_length ys)) {\n    for i in (range 0 (array_length xs)) {\n' + body + '    }\n    }\n'
    build = '    let mut xs: array<%s> = []\n' % ty + ''.join('    set xs (array_push xs %s)\n' % v[k] for k in range(4))
    if interp:
        return (prelude + helper + 'fn f(z: int) -> int {\n' + build + '    let mut stale: int = 0\n' + lp + '    return (+ 7 (* 0 stale))\n}\n'
                'shadow f {\n    assert (!= (f 0) 99)\n}\nfn main() -> int { return 0 }\n')
    return prelude + helper + 'fn main() -> int {\n' + build + '    (println "B")\n' + lp + '    (println "A")\n    return 0\n}\n'


def stale_cases(thorough):
    full = [(l, k, w, a) for l in STALE_LOOPS for k in STALE_KINDS for w in STALE_WAYS for a in STALE_ACCESSES]
    # `set xs [P { .. }]` (array literal of structs assigned to a variable) is emitted as invalid C by the native transpiler: not a bounds question, left out
    full = [c for c in full if not (c[1] == 'struct' and c[2] == 'literal')]
    # `(array_get xs i)` on an array of structs is emitted as C that does not compile (the helper returns void*): accepted-program
    # -fails-natively is a C04 matter, not a bounds question; `at` covers struct arrays here
    full = [c for c in full if not (c[1] == 'struct' and c[3] == 'array_get')]
    if thorough:
        return full
    return [c for c in full if (c[3] == 'at' and (c[1] in ('int', 'float') or c[0] == 'for_len')) or (c[3] != 'at' and c[0] != 'nested' and c[1] == 'int')]


def stale_verdict(rc, so):
    """-> (class, records): class = 'ok' (every access behaved as its record demands) | 'stale-continued' | 'spurious-trap' | 'other'"""
    lines = so.split('\n')
    recs = []; k = 0
    if 'B' not in lines:
        return 'other', recs
    k = lines.index('B') + 1
    while k + 2 < len(lines) + 1 and k < len(lines) and lines[k] == 'L':
        try:
            ln, i = int(lines[k + 1]), int(lines[k + 2])
        except Exception:
            return 'other', recs
        ok = k + 3 < len(lines) and lines[k + 3] == 'ok'
        recs.append((ln, i, ok)); k += 4 if ok else 3
    after = 'A' in lines
    for j, (ln, i, ok) in enumerate(recs):
        if i >= ln or i < 0:
            return ('ok' if (not ok and j == len(recs) - 1 and rc != 0 and not after) else 'stale-continued'), recs
        if not ok:
            return 'spurious-trap', recs
    return ('ok' if rc == 0 and after else 'other'), recs


def run_stale_and_kinds(ck, b, ba, ref, cfgbits, scratch):
    engines = ('vm', 'vmfile', 'native', 'interp')
    # ---- sources
    progs = {}
    for c in stale_cases(ck.thorough):
        # interpreter: array_set works on static arrays only, array_get is not implemented at all -> `at` only
        progs[('stale',) + c] = (stale_program(*c), stale_program(*c, interp=True) if c[3] == 'at' else None)
    for ek in ELEM_KINDS:
        for op in ('get', 'set', 'remove', 'pop2'):
            ip = None if ek == 'nested' else kind_program(ek, op, interp=True)      # interpreter: "Unsupported array element type" for pushed arrays
            if ip is not None and op == 'set':
                ty, prelude, vals, show = ELEM_KINDS[ek]
                ip = ip.replace('    let mut a: array<%s> = []\n    set a (array_push a %s)\n    set a (array_push a %s)\n' % (ty, vals[0], vals[1]),
                                '    let mut a: array<%s> = [%s, %s]\n' % (ty, vals[0], vals[1]))
            progs[('kind', ek, op)] = (kind_program(ek, op), ip)
    files = {}
    for key, (rp, ip) in progs.items():
        base = os.path.join(scratch, 'y_' + hashlib.sha1(repr(key).encode()).hexdigest()[:12])
        open(base + '.nano', 'w').write(rp)
        if ip is not None: open(base + '_i.nano', 'w').write(ip)
        files[key] = base

    def prep(key):
        base = files[key]
        r1 = vlib.sh([b.bin('nanoc'), base + '.nano', '-o', base + '.bin'], timeout=180, cwd=scratch)
        r2 = vlib.sh([b.bin('nano_virt'), base + '.nano', '--emit-nvm', '-o', base + '.nvm'], timeout=60, cwd=scratch)
        return key, r1[0] == 0 and os.path.exists(base + '.bin'), r2[0] == 0 and os.path.exists(base + '.nvm'), (r1[1] + r1[2] + r2[2])[-300:]
    with ThreadPoolExecutor(16) as ex:
        built = {k: (n_, v_, log) for k, n_, v_, log in ex.map(prep, list(files))}
    for k, (n_, v_, log) in built.items():
        if not (n_ and v_):
            ck.fail('c08:gen:compile:' + ':'.join(map(str, k)), 'a generated C08 program no longer compiles (%s): %s' % ('native' if not n_ else 'emit-nvm', log),
                    dict(program=progs[k][0], correspondence='machinery'), tie=True)

    def run_engine(e, key, idx):
        base = files[key]; env = dict(ENVB, C08_IDX=str(idx))
        if e == 'interp':
            ob = base + '_ib_' + hashlib.sha1(repr((key, idx)).encode()).hexdigest()[:8]
            rc, so, se = vlib.sh([b.bin('nanoc'), base + '_i.nano', '-o', ob], timeout=180, env=env, cwd=scratch)
            if os.path.exists(ob): os.unlink(ob)
            return rc, so + se, ''
        if e == 'vm':
            return vlib.sh([ba.bin('nano_virt'), base + '.nano', '--run'], timeout=60, env=env, cwd=scratch)
        if e == 'vmfile':
            return vlib.sh([ba.bin('nano_vm'), base + '.nvm'], timeout=60, env=env, cwd=scratch)
        return vlib.sh([base + '.bin'], timeout=30, env=env, cwd=scratch)

    jobs = []
    for key in progs:
        for e in engines:
            if e == 'interp' and progs[key][1] is None: continue
            if e in ('native',) and not built[key][0]: continue
            if e == 'vmfile' and not built[key][1]: continue
            if key[0] == 'stale':
                jobs.append((e, key, 0))
            else:
                for idx in ((0, 1) if key[2] == 'pop2' else (0, 1, 2, -1, 2**32 + 1)):
                    jobs.append((e, key, idx))
    with ThreadPoolExecutor(16) as ex:
        results = list(ex.map(lambda j: run_engine(*j), jobs))
    sdist = {}; kdist = {}; exercised = 0
    mq = []       # model questions for the stale records
    for (e, key, idx), (rc, so, se) in zip(jobs, results):
        san = e != 'interp' and ('AddressSanitizer' in se or re.search(r'\.[ch]:\d+:\d+: runtime error:', se) is not None)
        if key[0] == 'stale':
            _, loop, ek, way, acc = key
            name = 'stale:%s:%s:%s:%s:%s' % (e, loop, ek, way, acc)
            if e == 'interp':
                cls = 'ok' if ('Runtime Error' in so and rc != 0) or rc == 0 else ('stale-continued' if 'FAILED' in so else 'other')
                recs = []
            else:
                cls, recs = stale_verdict(rc, so)
                if san: cls = 'sanitizer'
            stale_hit = any(i >= ln for ln, i, ok in recs) or (e == 'interp' and 'Runtime Error' in so)
            exercised += 1 if stale_hit else 0
            ck.count(name, nontrivial=stale_hit)
            d = sdist.setdefault(e, {}); d[cls] = d.get(cls, 0) + 1
            for ln, i, ok in recs:
                mq.append((name, e, acc, ln, i, ok, key))
            if cls == 'other' and e == 'native' and ek == 'struct' and acc in ('at', 'array_get') and rc == -11:
                # dyn_array_get_struct answers an out-of-range index with NULL, the emitted code dereferences it: SIGSEGV, stdout lost (one site, one key)
                ck.fail('c08:native:get_struct:oob-segv', 'native: (at xs i) on array<struct> outside [0,length) returns NULL from dyn_array_get_struct and the program dies of SIGSEGV '
                        '(uncontrolled: output lost, memory outside the object touched)', dict(engine=e, family='stale', loop=loop, elem=ek, way=way, access=acc, rc=rc, program=progs[key][0]))
            elif cls != 'ok':
                prog = progs[key][1 if e == 'interp' else 0]
                ck.fail('c08:stale:%s:%s:%s:%s:%s' % (e, loop, ek, way, acc),
                        '%s: loop "%s" over array<%s>, body shrinks it by "%s": %s %s (records (current length, index, continued): %s)'
                        % (e, loop, ek, way, acc, {'stale-continued': 'at an index >= the CURRENT length does not stop the program', 'spurious-trap': 'inside the current length stopped the program',
                                                   'sanitizer': 'raised a sanitizer report: ' + se[:160]}.get(cls, 'ended in an unexpected way rc=%s' % rc), recs[-4:]),
                        dict(engine=e, family='stale', loop=loop, elem=ek, way=way, access=acc, observed_records=recs, rc=rc, program=prog,
                             expected='the access at index >= current length is the last thing the program does; exit != 0'))
        else:
            _, ek, op = key
            name = 'kind:%s:%s:%s:idx=%d' % (e, ek, op, idx)
            n = 1 if op == 'pop2' else 2
            legit = (idx == 0) if op == 'pop2' else (0 <= idx < n)
            ck.count(name, nontrivial=not legit)
            if e == 'interp':
                ob = 'trap' if ('Runtime Error' in so and rc != 0) else ('continue' if 'FAILED' in so else 'other rc=%s %s' % (rc, so[-80:]))
            else:
                lines = so.split('\n')
                ob = 'sanitizer' if san else ('trap' if (rc != 0 and 'B' in lines and 'A' not in lines) else ('continue' if rc == 0 and 'A' in lines else 'other rc=%s' % rc))
            d = kdist.setdefault(e, {}); lab = ('legit-' if legit else 'oob-') + ob.split()[0]; d[lab] = d.get(lab, 0) + 1
            want = 'continue' if legit else 'trap'
            if ob != want:
                site = 'c08:%s:%s_%s:%s' % (e, {'get': 'get', 'set': 'set', 'remove': 'remove', 'pop2': 'pop'}[op], ek,
                                            'oob-continues' if (not legit and ob == 'continue') else ('oob-segv' if (not legit and ob == 'other rc=-11') else 'unexpected'))
                ck.fail(site, '%s: %s on array<%s> (length %d) at index %d: observed %s, the property demands %s' % (e, op, ek, n, idx, ob, want),
                        dict(engine=e, family='kind', elem=ek, access=op, length=n, index=idx, observed_impl=ob, stderr=se[-200:], program=progs[key][1 if e == 'interp' else 0],
                             env=dict(C08_IDX=str(idx))))
    # the model's word on every recorded access of the stale family (current length at the time of the access)
    if mq:
        ans = vlib.run_lines(ref, ['acc %s %s %s %x %s' % (cfgbits, 'vm' if e == 'vmfile' else e, {'at': 'get', 'array_get': 'get', 'array_set': 'set'}[acc], ln, zhex(i))
                                   for (_, e, acc, ln, i, ok, key) in mq])
        for (name, e, acc, ln, i, ok, key), a_ in zip(mq, ans):
            macc, legit = parse_model(a_)
            if (macc[0] == 'trap') == ok:
                ck.fail('c08:diff:' + name + ':len=%d:idx=%d' % (ln, i), 'engine %s: %s at index %d with current length %d %s, model says %s' % (e, acc, i, ln, 'continued' if ok else 'stopped', macc[0]),
                        dict(engine=e, family='stale', loop=key[1], elem=key[2], way=key[3], access=acc, program=progs[key][0], correspondence='engine run vs nvref_c08 (stale-bound stream)'))
    ck.extra['stale_bound_stream'] = dict(programs=sum(1 for k in progs if k[0] == 'stale'), runs=sum(1 for j in jobs if j[1][0] == 'stale'), runs_reaching_a_stale_index=exercised,
                                          loops=list(STALE_LOOPS), ways=list(STALE_WAYS), accesses=list(STALE_ACCESSES), elem_kinds=list(STALE_KINDS), outcomes=sdist)
    ck.extra['element_kind_stream'] = dict(kinds=list(ELEM_KINDS), outcomes=kdist,
                                           excluded=['interp x nested: the interpreter cannot push arrays into an array ("Unsupported array element type")',
                                                     'interp x array_set on pushed (dynamic) arrays: builtin_array_set accepts static arrays only -> literal arrays used'])


# ------------------------------------------------------------------ context axis
# every trapping operation in every syntactic position: the trap is an effect, so it must survive "the value is not used"
INT_CTX = {
    'stmt':        '    E\n',
    'let':         '    let v: int = E\n    set w (+ w v)\n',
    'set':         '    set w E\n',
    'arg':         '    (println E)\n',
    'arg_ignored': '    (ignore E)\n',
    'arg_ignored_let': '    let z: int = (ignore E)\n    set w (+ w z)\n',
    'operand':     '    set w (+ 1 E)\n',
    'cond':        '    if (== E 12345) { (println "x") }\n',
    'return':      '    set w (h a i)\n',
    'and':         '    if (and true (== E 12345)) { (println "x") }\n',
    'or':          '    if (or false (== E 12345)) { (println "x") }\n',
    'for_bound':   '    for j in (range 0 E) { set w (+ w 0) }\n',
}
ARR_CTX = {
    'stmt': '    E\n',
    'set':  '    set a E\n',
    'let':  '    let b: array<int> = E\n    set w (+ w (array_length b))\n',
    'arg':  '    (println (array_length E))\n',
}
VOID_CTX = {
    'stmt':    '    E\n',
    'if_body': '    if (== 1 1) { E }\n',
    'for_body': '    for j in (range 0 1) { E }\n',
}
CTX_OPS = {   # op -> (model kind, expression over a and i, contexts)
    'at':        ('get', '(at a i)', INT_CTX),
    'array_get': ('get', '(array_get a i)', INT_CTX),
    'array_pop': ('pop', '(array_pop a)', INT_CTX),
    'array_remove_at': ('remove', '(array_remove_at a i)', ARR_CTX),
    'array_set': ('set', '(array_set a i 99)', VOID_CTX),
}
CTX_HELPERS = 'fn ignore(x: int) -> int {\n    return 0\n}\n'


def ctx_program(op, ctx, n, interp=False):
    kind, expr, ctxs = CTX_OPS[op]
    body = ctxs[ctx].replace('E', expr)
    helper = CTX_HELPERS
    if ctx == 'return':
        helper += 'fn h(a0: array<int>, i0: int) -> int {\n    let mut a: array<int> = a0\n    let i: int = i0\n    return %s\n}\n' % expr
    if interp:
        arr = ('    let mut a: array<int> = %s\n' % literal(n)) if op in ('at', 'array_get', 'array_set') else ('    let mut a: array<int> = []\n' + dyn(n))
        return (helper + 'fn f(i: int) -> int {\n' + arr + '    let mut w: int = 0\n' + body + '    return (+ 7 (* 0 w))\n}\n'
                'shadow f {\n    assert (!= (f (string_to_int (getenv "C08_IDX"))) 7)\n}\nfn main() -> int { return 0 }\n')
    return (helper + 'fn main() -> int {\n    let i: int = (string_to_int (getenv "C08_IDX"))\n    let mut a: array<int> = []\n' + pushes(n) +
            '    let mut w: int = 0\n    (println "B")\n' + body + '    (println "A")\n    return (* 0 w)\n}\n')


def ctx_cases():
    out = []
    for op, (kind, expr, ctxs) in CTX_OPS.items():
        for ctx in ctxs:
            if op == 'array_pop':
                out += [(op, ctx, 0, 0), (op, ctx, 2, 0)]
            else:
                out += [(op, ctx, 3, i) for i in (0, 2, 3, -1, 2**32 + 1)]
    return out


def run_ctx(ck, b, ba, ref, cfgbits, scratch):
    """the context stream: trap vs continue per (operation, syntactic context, length, index, engine)"""
    cases = ctx_cases()
    engines = ('vm', 'vmfile', 'native', 'interp')
    srcs = {}
    for op, ctx, n, _ in cases:
        if (op, ctx, n) in srcs: continue
        p = os.path.join(scratch, 'x_%s_%s_%d.nano' % (op, ctx, n)); open(p, 'w').write(ctx_program(op, ctx, n))
        q = os.path.join(scratch, 'xi_%s_%s_%d.nano' % (op, ctx, n)); open(q, 'w').write(ctx_program(op, ctx, n, interp=True))
        srcs[(op, ctx, n)] = (p, q)

    def prep(key):
        p, q = srcs[key]
        nat = p[:-5] + '.bin'; nvm = p[:-5] + '.nvm'
        r1 = vlib.sh([b.bin('nanoc'), p, '-o', nat], timeout=180, cwd=scratch)
        r2 = vlib.sh([b.bin('nano_virt'), p, '--emit-nvm', '-o', nvm], timeout=60, cwd=scratch)
        return key, (nat if r1[0] == 0 and os.path.exists(nat) else None), (nvm if r2[0] == 0 and os.path.exists(nvm) else None), (r1[1] + r1[2] + r2[2])[-300:]
    with ThreadPoolExecutor(16) as ex:
        built = {k: (nat, nvm, log) for k, nat, nvm, log in ex.map(prep, list(srcs))}
    for k, (nat, nvm, log) in built.items():
        if nat is None or nvm is None:
            ck.fail('c08:ctx:compile:%s:%s' % (k[0], k[1]), 'a generated context program no longer compiles (%s): %s' % ('native' if nat is None else 'emit-nvm', log),
                    dict(program=open(srcs[k][0]).read(), correspondence='machinery'), tie=True)
    # the compile-time interpreter has no builtin `array_get` at all ("Error: Undefined function 'array_get'", evaluation goes on with void,
    # in range or not): not a bounds question, left out of this stream for that engine (reported in the evidence)
    jobs = [(e, op, ctx, n, idx) for (op, ctx, n, idx) in cases for e in engines if not (e == 'interp' and op == 'array_get')]
    ck.extra['context_stream_excluded'] = ['interp x array_get: builtin not implemented by the interpreter (Undefined function, continues with void)']
    mlines = ['acc %s %s %s %x %s' % (cfgbits, 'vm' if e == 'vmfile' else e, CTX_OPS[op][0], n, zhex(idx)) for (e, op, ctx, n, idx) in jobs]
    model = [parse_model(a) for a in vlib.run_lines(ref, mlines)]

    def one(job):
        e, op, ctx, n, idx = job
        env = dict(ENVB, C08_IDX=str(idx))
        p, q = srcs[(op, ctx, n)]; nat, nvm, _ = built[(op, ctx, n)]
        if e == 'interp':
            ob = os.path.join(scratch, 'xb_%s' % hashlib.sha1(repr(job).encode()).hexdigest()[:10])
            rc, so, se = vlib.sh([b.bin('nanoc'), q, '-o', ob], timeout=180, env=env, cwd=scratch)
            if os.path.exists(ob): os.unlink(ob)
            txt = so + se
            if 'Runtime Error' in txt and rc != 0: return 'trap'
            if 'Shadow test' in txt and 'FAILED' in txt: return 'continue'
            return 'other rc=%s %s' % (rc, txt[-100:])
        if e == 'vm':
            rc, so, se = vlib.sh([ba.bin('nano_virt'), p, '--run'], timeout=60, env=env, cwd=scratch)
        elif e == 'vmfile':
            if nvm is None: return 'other no nvm'
            rc, so, se = vlib.sh([ba.bin('nano_vm'), nvm], timeout=60, env=env, cwd=scratch)
        else:
            if nat is None: return 'other no binary'
            rc, so, se = vlib.sh([nat], timeout=30, env=env, cwd=scratch)
        if 'AddressSanitizer' in se or re.search(r'\.[ch]:\d+:\d+: runtime error:', se): return 'other sanitizer ' + se[:120]
        lines = so.split('\n')
        if rc != 0 and 'B' in lines and 'A' not in lines: return 'trap'
        if rc == 0 and 'A' in lines: return 'continue'
        return 'other rc=%s out=%r' % (rc, so[:60])
    with ThreadPoolExecutor(16) as ex:
        obs = list(ex.map(one, jobs))
    dist = {}
    for (e, op, ctx, n, idx), (macc, legit), ob in zip(jobs, model, obs):
        key = 'ctx:%s:%s:%s:len=%d:idx=%d' % (e, op, ctx, n, idx)
        ck.count(key, nontrivial=not legit)
        d = dist.setdefault(e, {}); lab = ('legit-' if legit else 'oob-') + ob.split()[0]; d[lab] = d.get(lab, 0) + 1
        want = 'trap' if macc[0] == 'trap' else 'continue'
        prog = ctx_program(op, ctx, n, interp=(e == 'interp'))
        if ob != want:
            ck.fail('c08:diff:' + key, 'engine %s, %s in context "%s" on length %d at index %d: observed %s, model %s' % (e, op, ctx, n, idx, ob, want),
                    dict(engine=e, access=op, context=ctx, length=n, index=idx, expected_model=want, observed_impl=ob, cfg=cfgbits, program=prog,
                         env=dict(C08_IDX=str(idx)), correspondence='engine run vs nvref_c08 (context stream)'))
        if not legit and ob != 'trap':
            ck.fail('c08:ctx:%s:%s:%s' % (e, op, ctx), '%s: %s in context "%s" at index %d of a length-%d array does not stop the program (%s)' % (e, op, ctx, idx, n, ob),
                    dict(engine=e, access=op, context=ctx, length=n, index=idx, observed_impl=ob, expected='exit != 0 and no statement after the access',
                         program=prog, env=dict(C08_IDX=str(idx))))
    ck.extra['context_stream'] = dict(cases=len(jobs), contexts=sorted(set(INT_CTX) | set(ARR_CTX) | set(VOID_CTX)), operations=sorted(CTX_OPS), engines=list(engines), outcomes=dist)


def run(ck):
    b = ck.build('plain'); ba = ck.build('asan')
    ck.gen(['gen_isa', 'gen_c13cfg'])
    proved = ck.prove()
    cfgbits = c13.read_cfg()
    ck.extra['unrecognised_sites'] = c13.unrecognised_sites(ck)
    ck.extra['cfg_of_current_source'] = dict(zip(['fx_sec', 'fx_slen', 'fx_fnrange', 'fx_div', 'fx_substr', 'fx_print', 'fx_arr', 'fx_npop', 'fx_ipop', 'fx_strict'], cfgbits))
    ref = ck.nvref('c08')
    ns = list(range(0, 65)) if ck.thorough else [0, 1, 2, 3, 5, 8]
    kinds = ['get', 'set', 'pop', 'remove']
    scratch = tempfile.mkdtemp(prefix='c08_', dir=vlib.BUILD)
    t_start = time.time()
    try:
        cases = []     # (engine, kind, n, idx)
        for n in ns:
            for kind in kinds:
                idxs = [0] if kind == 'pop' else indices(n)
                if not ck.thorough and n in (5, 8) and kind != 'get':
                    idxs = idxs[:9]
                for idx in idxs:
                    for e in ('vm', 'native', 'interp'):
                        cases.append((e, kind, n, idx))
        mlines = ['acc %s %s %s %x %s' % (cfgbits, e, k, n, zhex(i)) for (e, k, n, i) in cases]
        model = [parse_model(a) for a in vlib.run_lines(ref, mlines)]
        # sources
        srcs = {}
        for n in ns:
            for kind in kinds:
                p = os.path.join(scratch, 'p_%s_%d.nano' % (kind, n)); open(p, 'w').write(program(kind, n)); srcs[('run', kind, n)] = p
                p = os.path.join(scratch, 'i_%s_%d.nano' % (kind, n)); open(p, 'w').write(interp_program(kind, n)); srcs[('interp', kind, n)] = p
        # native binaries, one per (kind, n)
        def compile_native(key):
            _, kind, n = key
            o = os.path.join(scratch, 'n_%s_%d' % (kind, n))
            rc, so, se = vlib.sh([b.bin('nanoc'), srcs[key], '-o', o], timeout=180, cwd=scratch)
            return key, (o if rc == 0 and os.path.exists(o) else None), (so + se)[-300:]
        with ThreadPoolExecutor(16) as ex:
            natives = {k: (o, log) for k, o, log in ex.map(compile_native, [k for k in srcs if k[0] == 'run'])}
        bad_native = [k for k, (o, log) in natives.items() if o is None]
        if bad_native:
            ck.fail('c08:native:compile', 'native compilation of a generated C08 program failed: %s' % natives[bad_native[0]][1],
                    dict(program=open(srcs[bad_native[0]]).read(), correspondence='machinery'))

        def one(case_model):
            (e, kind, n, idx), (macc, legit) = case_model
            env = dict(ENVB, C08_IDX=str(idx))
            if e == 'vm':
                rc, so, se = vlib.sh([ba.bin('nano_virt'), srcs[('run', kind, n)], '--run'], timeout=60, env=env, cwd=scratch)
                san = 'AddressSanitizer' in se or re.search(r'\.[ch]:\d+:\d+: runtime error:', se) is not None     # (nano_virt itself prints "runtime error: <vm message>")
                return observe(kind, n, rc, so) if not san else ('other', 'sanitizer: ' + se[:200])
            if e == 'native':
                o = natives.get(('run', kind, n), (None, ''))[0]
                if o is None: return ('other', 'no binary')
                rc, so, se = vlib.sh([o], timeout=30, env=env, cwd=scratch)
                return observe(kind, n, rc, so)
            # interpreter: expect value from the model's answer (continue cases), otherwise anything
            exp = interp_expect(kind, n, macc) if macc[0] != 'trap' else 123456789
            env['C08_EXPECT'] = str(exp)
            out_bin = os.path.join(scratch, 'ib_%s_%d_%s' % (kind, n, hashlib.sha1(str(idx).encode()).hexdigest()[:8]))
            rc, so, se = vlib.sh([b.bin('nanoc'), srcs[('interp', kind, n)], '-o', out_bin], timeout=180, env=env, cwd=scratch)
            if os.path.exists(out_bin): os.unlink(out_bin)
            txt = so + se
            if 'Runtime Error' in txt and rc != 0: return ('trap',)
            if 'Shadow test' in txt and 'FAILED' in txt: return macc if macc[0] != 'trap' else ('other', 'continued')   # continued and returned the expected value
            if rc == 0: return ('other', 'continued with a value other than the model expects (%d)' % exp)
            return ('other', 'rc=%s %s' % (rc, txt[-120:]))
        with ThreadPoolExecutor(16) as ex:
            obs = list(ex.map(one, zip(cases, model)))
        dist = {}
        for (e, kind, n, idx), (macc, legit), ob in zip(cases, model, obs):
            key = '%s:%s:len=%d:idx=%d' % (e, kind, n, idx)
            ck.count(key, nontrivial=not legit)
            d = dist.setdefault(e, {}); lab = ('legit-' if legit else 'oob-') + ob[0]; d[lab] = d.get(lab, 0) + 1
            agree = (ob == macc)
            if not agree:
                ck.fail('c08:diff:' + key, 'engine %s, %s on length %d at index %d: observed %s, model %s' % (e, kind, n, idx, ob, macc),
                        dict(engine=e, access=kind, length=n, index=idx, expected_model=list(macc), observed_impl=list(ob), cfg=cfgbits,
                             program=(interp_program if e == 'interp' else program)(kind, n), correspondence='engine run vs nvref_c08'))
            # the property itself, on the implementation's own behaviour: an illegitimate access must trap
            if not legit and ob[0] != 'trap':
                fk = 'c08:%s:%s:%s' % (e, kind, klass(ob, idx, n))
                ck.fail(fk, '%s %s at index %d of a length-%d array does not stop the program (%s)' % (e, kind, idx, n, ' '.join(map(str, ob))),
                        dict(engine=e, access=kind, length=n, index=idx, observed_impl=list(ob), expected='exit != 0 and no statement after the access',
                             program=(interp_program if e == 'interp' else program)(kind, n), env=dict(C08_IDX=str(idx))))
        ck.extra['input_distribution'] = dist
        ck.extra['lengths'] = ns
        ck.extra['engine_runs_s'] = round(time.time() - t_start, 1)
        for i in (0, len(cases) // 2, len(cases) - 1):
            ck.sample(dict(case='%s %s len=%d idx=%d' % cases[i], model=list(model[i][0]), observed=list(obs[i])))
        run_ctx(ck, b, ba, ref, cfgbits, scratch)
        run_stale_and_kinds(ck, b, ba, ref, cfgbits, scratch)
        # ---- field / tuple / union index and the repaired-VM witnesses at bytecode level (vm_probe vs the VM model of C13)
        asm = L.Asm(L.load_table()); a = asm
        bc = []
        def mod(code):
            m = L.Mod(); m.strings = [b'main']; m.code = code
            m.funs = [dict(name=0, arity=0, off=0, len=len(code), locals=0, upvals=0)]
            return m.serialise()[0]
        for cnt in (0, 1, 2, 3):
            pushes_ = b''.join(a.ins('PUSH_I64', 10 * (j + 1)) for j in range(cnt))
            for idx in sorted({0, max(cnt - 1, 0), cnt, cnt + 1, 65535}):
                marker = a.ins('PUSH_I64', 777) + a.ins('PRINTLN')
                bc.append(('tuple', cnt, idx, mod(pushes_ + a.ins('TUPLE_NEW', cnt) + a.ins('TUPLE_GET', idx) + a.ins('PRINTLN') + marker + a.ins('PUSH_I64', 0) + a.ins('RET'))))
                bc.append(('struct', cnt, idx, mod(pushes_ + a.ins('STRUCT_LITERAL', 0, cnt) + a.ins('STRUCT_GET', idx) + a.ins('PRINTLN') + marker + a.ins('PUSH_I64', 0) + a.ins('RET'))))
                bc.append(('structset', cnt, idx, mod(pushes_ + a.ins('STRUCT_LITERAL', 0, cnt) + a.ins('PUSH_I64', 5) + a.ins('STRUCT_SET', idx) + a.ins('PRINTLN') + marker + a.ins('PUSH_I64', 0) + a.ins('RET'))))
                bc.append(('union', cnt, idx, mod(pushes_ + a.ins('UNION_CONSTRUCT', 0, 1, cnt) + a.ins('UNION_FIELD', idx) + a.ins('PRINTLN') + marker + a.ins('PUSH_I64', 0) + a.ins('RET'))))
        impl, mdl = c13.run_cases(ck, cfgbits, [('%s:%d:%d' % (k, c_, i), d) for k, c_, i, d in bc])
        fd = {}
        for (k, cnt, idx, data), ia, ma in zip(bc, impl, mdl):
            i4 = c13.classify(ia); m4 = c13.classify(ma)
            ck.count('field:%s:%d:%d' % (k, cnt, idx), nontrivial=idx >= cnt)
            lab = ('oob-' if idx >= cnt else 'legit-') + i4[0]; fd[lab] = fd.get(lab, 0) + 1
            if not c13.same(i4, m4):
                ck.fail('c08:diff:field:%s:count=%d:idx=%d' % (k, cnt, idx), 'vm_probe and VM model disagree: impl=%s model=%s' % (ia, ma),
                        dict(input_hex=data.hex(), expected_model=ma, observed_impl=ia, correspondence='vm_probe vs nvref_c13'))
            if idx >= cnt and not (i4[0] == 'vmerror' and i4[3] in ('-', '')):
                ck.fail('c08:vm:field:%s' % k, '%s index %d of a %d-field object does not stop the VM with an error before any output: %s' % (k, idx, cnt, ia),
                        dict(input_hex=data.hex(), observed_impl=ia, engine='vm_probe(asan)'))
        ck.extra['field_index_cases'] = fd
    finally:
        shutil.rmtree(scratch, ignore_errors=True)
    ck.extra['exhaustive'] = False
    ck.cov['rule'] = ('lengths n in %s x indices {-1, n, n+1, -n, INT64_MIN, INT64_MAX, 2^31, 2^32-1, 2^32, 2^32+k (k<n), -2^32+k, 2^63-1; plus 0 and n-1 as legitimate '
                      'controls} x {get,set,pop,remove} x {VM (nano_virt --run, ASan build), native (nanoc binary), interpreter (shadow test inside nanoc)}; '
                      'the index is read at run time (getenv) so one program per (kind, n); tuple/struct/union field index {0..count+1, 65535} as bytecode '
                      'through vm_probe. non-trivial = index outside [0,n) (pop: n = 0; field: idx >= count); distinct = (engine, kind, n, idx).'
                      % ('0..64' if ck.thorough else '[0,1,2,3,5,8]'))
    ck.trusted += ['translator tools/gen/gen_c13cfg.py (which repairs the source contains; tested by this correspondence)', 'extraction: ExtrOcamlBasic only; extract/c08_driver.ml',
                   'program generators and the output classifier in tools/props/c08.py (markers B/A, element values 10,20,..; interpreter observed through the shadow-test verdict)',
                   'probes/vm_probe.c + nvref_c13 for the field-index bytecode cases']
    ck.assumptions += ['array lengths below 2^32 (uint32_t length field of VmArray)',
                       'the interpreter engine is the shadow-test evaluator of nanoc (static array literals for get/set, dynamic arrays for pop/remove: builtin_array_set refuses dynamic arrays altogether)']


def replay_ctx(ck, b, ba, d):
    e, op, ctx, n, idx = d['engine'], d['access'], d['context'], d['length'], d['index']
    cfgbits = c13.read_cfg(); ref = ck.nvref('c08')
    macc, legit = parse_model(vlib.run_lines(ref, ['acc %s %s %s %x %s' % (cfgbits, 'vm' if e == 'vmfile' else e, CTX_OPS[op][0], n, zhex(idx))])[0])
    want = 'trap' if macc[0] == 'trap' else 'continue'
    scratch = tempfile.mkdtemp(prefix='c08r_', dir=vlib.BUILD)
    try:
        env = dict(ENVB, C08_IDX=str(idx))
        p = os.path.join(scratch, 'p.nano'); open(p, 'w').write(ctx_program(op, ctx, n, interp=(e == 'interp')))
        if e == 'interp':
            rc, so, se = vlib.sh([b.bin('nanoc'), p, '-o', os.path.join(scratch, 'ib')], timeout=180, env=env, cwd=scratch)
            txt = so + se
            ob = 'trap' if ('Runtime Error' in txt and rc != 0) else ('continue' if 'FAILED' in txt else 'other rc=%s' % rc)
        else:
            if e == 'vm':
                rc, so, se = vlib.sh([ba.bin('nano_virt'), p, '--run'], timeout=60, env=env, cwd=scratch)
            elif e == 'vmfile':
                vlib.sh([b.bin('nano_virt'), p, '--emit-nvm', '-o', os.path.join(scratch, 'p.nvm')], timeout=60, cwd=scratch)
                rc, so, se = vlib.sh([ba.bin('nano_vm'), os.path.join(scratch, 'p.nvm')], timeout=60, env=env, cwd=scratch)
            else:
                vlib.sh([b.bin('nanoc'), p, '-o', os.path.join(scratch, 'n')], timeout=180, cwd=scratch)
                rc, so, se = vlib.sh([os.path.join(scratch, 'n')], timeout=30, env=env, cwd=scratch)
            print('rc=%s stdout=%r stderr=%r' % (rc, so, se[-300:]))
            lines = so.split('\n')
            ob = 'trap' if (rc != 0 and 'A' not in lines) else ('continue' if rc == 0 and 'A' in lines else 'other')
        print('engine %s, %s in context %s, len=%d idx=%d: observed %s, model %s (%s)' % (e, op, ctx, n, idx, ob, want, 'legit' if legit else 'out of range'))
        okay = ob == want and (legit or ob == 'trap')
        print('not reproduced' if okay else 'REPRODUCED')
        return 0 if okay else 1
    finally:
        shutil.rmtree(scratch, ignore_errors=True)


def replay(ck, d):
    b = ck.build('plain'); ba = ck.build('asan'); ck.gen(['gen_isa', 'gen_c13cfg'])
    if 'input_hex' in d:
        return c13.replay(ck, d)
    if 'context' in d:
        return replay_ctx(ck, b, ba, d)
    e, kind, n, idx = d['engine'], d['access'], d['length'], d['index']
    cfgbits = c13.read_cfg(); ref = ck.nvref('c08')
    macc, legit = parse_model(vlib.run_lines(ref, ['acc %s %s %s %x %s' % (cfgbits, e, kind, n, zhex(idx))])[0])
    scratch = tempfile.mkdtemp(prefix='c08r_', dir=vlib.BUILD)
    try:
        env = dict(ENVB, C08_IDX=str(idx))
        if e == 'interp':
            p = os.path.join(scratch, 'i.nano'); open(p, 'w').write(interp_program(kind, n))
            env['C08_EXPECT'] = str(interp_expect(kind, n, macc) if macc[0] != 'trap' else 123456789)
            rc, so, se = vlib.sh([b.bin('nanoc'), p, '-o', os.path.join(scratch, 'ib')], timeout=180, env=env, cwd=scratch)
            txt = so + se
            ob = ('trap',) if ('Runtime Error' in txt and rc != 0) else (macc if 'FAILED' in txt else ('other', 'rc=%s' % rc))
            print(txt[-400:])
        else:
            p = os.path.join(scratch, 'p.nano'); open(p, 'w').write(program(kind, n))
            if e == 'vm':
                rc, so, se = vlib.sh([ba.bin('nano_virt'), p, '--run'], timeout=60, env=env, cwd=scratch)
            else:
                o = os.path.join(scratch, 'n'); vlib.sh([b.bin('nanoc'), p, '-o', o], timeout=180, cwd=scratch)
                rc, so, se = vlib.sh([o], timeout=30, env=env, cwd=scratch)
            print('rc=%s stdout=%r stderr=%r' % (rc, so, se[-300:]))
            ob = observe(kind, n, rc, so)
        print('engine %s %s len=%d idx=%d: observed %s, model %s (%s)' % (e, kind, n, idx, ob, macc, 'legit' if legit else 'out of range'))
        okay = ob == macc and (legit or ob[0] == 'trap')
        print('not reproduced' if okay else 'REPRODUCED')
        return 0 if okay else 1
    finally:
        shutil.rmtree(scratch, ignore_errors=True)
