"""C08 -- out-of-range operations stop the program and never yield a value.
Proof: NV/Props/Properties_C08.v (Vm/Bounds.v: what each engine computes for every (length, idx : Z, access kind); Step/Run for the VM
state machine).  Correspondence: generated programs per (length n, index, access kind, engine) -- the index reaches the program at run time
(getenv) so one native binary serves all indices -- run on nano_virt --run (ASan build), on the nanoc-compiled native binary, and in the
interpreter (shadow test evaluated by nanoc); observed = {trapped: exit != 0 and no after-marker | continued + which element was touched}
vs the extracted model at the cfg of the current source.  Field/tuple/union index: bytecode modules through vm_probe vs the VM model."""
import os, sys, re, json, glob, time, hashlib, tempfile, shutil
from concurrent.futures import ThreadPoolExecutor
import vlib
import c13, c13_lib as L

INT64_MIN = -2**63; INT64_MAX = 2**63 - 1
ENVB = dict(os.environ, ASAN_OPTIONS='detect_leaks=0:exitcode=99', UBSAN_OPTIONS='print_stacktrace=0')


def indices(n):
    s = [-1, n, n + 1, INT64_MIN, INT64_MAX, 2**31, 2**32 - 1, 2**32, 2**32 + n, 2**63 - 1, -2**32 + 1]
    if n > 0:
        s += [-n, 2**32 + 0, 2**32 + n - 1, -2**32 + n - 1, 0, n - 1]     # the last two are legitimate
    if n > 2:
        s += [2**32 + 1, 1]
    out = []
    for x in s:
        if x not in out and INT64_MIN <= x <= INT64_MAX:
            out.append(x)
    return out


def pushes(n):
    return ''.join('    set a (array_push a %d)\n' % (10 * (j + 1)) for j in range(n))


def literal(n):
    return '[' + ', '.join(str(10 * (j + 1)) for j in range(n)) + ']'


DUMP = ('    let mut j: int = 0\n    while (< j (array_length a)) {\n        (println (at a j))\n        set j (+ j 1)\n    }\n')


def program(kind, n):
    """VM / native: prints B, performs the access with the run-time index, prints what it can see, prints A."""
    head = 'fn main() -> int {\n    let i: int = (string_to_int (getenv "C08_IDX"))\n    let mut a: array<int> = []\n' + pushes(n) + '    (println "B")\n'
    if kind == 'get':
        body = '    let x: int = (at a i)\n    (println x)\n'
    elif kind == 'set':
        body = '    (array_set a i 99)\n' + DUMP
    elif kind == 'pop':
        body = '    let x: int = (array_pop a)\n    (println x)\n    (println (array_length a))\n'
    else:
        body = '    set a (array_remove_at a i)\n' + DUMP
    return head + body + '    (println "A")\n    return 0\n}\n'


def dyn(n, fresh=False):
    """a dynamic array of n elements for the interpreter: an empty literal that was never pushed to is still a *static* array there
    (array_pop / array_remove_at then answer "requires a dynamic array"), so the empty dynamic array is made by push + pop."""
    if n == 0 and not fresh:
        return '    set a (array_push a 1)\n    let tmp: int = (array_pop a)\n'
    return pushes(n)


def interp_program(kind, n, fresh=False):
    """interpreter: f performs the access and returns what identifies the touched element; the shadow assertion FAILS exactly when f returns
    C08_EXPECT, so that 'continued as the model says' ends nanoc before the (slow) C compilation."""
    if kind == 'get':
        f = '    let a: array<int> = %s\n    let x: int = (at a i)\n    return x\n' % literal(n)
    elif kind == 'set':
        f = ('    let mut a: array<int> = %s\n    (array_set a i 99)\n    let mut j: int = 0\n    let mut pos: int = -1\n'
             '    while (< j (array_length a)) {\n        if (== (at a j) 99) { set pos j }\n        set j (+ j 1)\n    }\n    return pos\n' % literal(n))
    elif kind == 'pop':
        f = ('    let mut a: array<int> = []\n' + dyn(n, fresh) + '    let x: int = (array_pop a)\n'
             '    if (== (array_length a) %d) { return x } else { return -5 }\n' % (n - 1))
    else:
        f = ('    let mut a: array<int> = []\n' + dyn(n, fresh) + '    set a (array_remove_at a i)\n    let mut j: int = 0\n    let mut s: int = 0\n'
             '    while (< j (array_length a)) {\n        set s (+ s (at a j))\n        set j (+ j 1)\n    }\n    return (+ (* 100000 (array_length a)) s)\n')
    return ('fn f(i: int) -> int {\n' + f + '}\nshadow f {\n    assert (!= (f (string_to_int (getenv "C08_IDX"))) (string_to_int (getenv "C08_EXPECT")))\n}\n'
            'fn main() -> int { return 0 }\n')


def interp_expect(kind, n, acc):
    """value f returns when the access behaves as the model says (acc = ('elem', i) | ('void',) | ('noop',))."""
    if kind == 'get':
        return 10 * (acc[1] + 1) if acc[0] == 'elem' else 0
    if kind == 'set':
        return acc[1] if acc[0] == 'elem' else -1
    if kind == 'pop':
        return 10 * n if acc[0] == 'elem' else -5
    tot = sum(10 * (j + 1) for j in range(n))
    return 100000 * (n - 1) + tot - 10 * (acc[1] + 1) if acc[0] == 'elem' else 100000 * n + tot


def observe(kind, n, rc, out):
    """(trapped?, touched) from a VM / native run.  touched: ('elem', i) | ('void',) | ('noop',) | ('other', text)."""
    lines = out.split('\n')
    after = 'A' in lines
    if rc != 0 and not after:
        return ('trap',)
    if rc != 0 or not after or 'B' not in lines:
        return ('other', 'rc=%s out=%r' % (rc, out[:80]))
    mid = lines[lines.index('B') + 1:lines.index('A')]
    try:
        if kind == 'get':
            v = mid[0]
            if v.lstrip('-').isdigit() and int(v) % 10 == 0 and 1 <= int(v) // 10 <= n: return ('elem', int(v) // 10 - 1)
            return ('void',)
        if kind == 'set':
            vals = [int(x) for x in mid]
            want = [10 * (j + 1) for j in range(n)]
            if vals == want: return ('noop',)
            d = [j for j in range(n) if j < len(vals) and vals[j] != want[j]]
            if len(vals) == n and len(d) == 1 and vals[d[0]] == 99: return ('elem', d[0])
            return ('other', ' '.join(mid)[:60])
        if kind == 'pop':
            v, ln = mid[0], int(mid[1])
            if n > 0 and v == str(10 * n) and ln == n - 1: return ('elem', n - 1)
            if ln == n: return ('void',)
            return ('other', ' '.join(mid)[:60])
        vals = [int(x) for x in mid]
        want = [10 * (j + 1) for j in range(n)]
        if vals == want: return ('noop',)
        for j in range(n):
            if vals == want[:j] + want[j + 1:]: return ('elem', j)
        return ('other', ' '.join(mid)[:60])
    except Exception:
        return ('other', ' '.join(mid)[:60])


def parse_model(ans):
    f = ans.split()
    legit = f[-1] == 'legit'
    if f[0] == 'elem': return ('elem', int(f[1], 16)), legit
    return (f[0],), legit


def zhex(z):
    return ('-%x' % -z) if z < 0 else '%x' % z


def klass(obs, model_idx, n):
    """finding class of a continued illegitimate access"""
    if obs[0] == 'elem': return 'wrap'
    return obs[0]


# ------------------------------------------------------------------ context axis
# every trapping operation in every syntactic position: the trap is an effect, so it must survive "the value is not used"
INT_CTX = {
    'stmt':        '    E\n',
    'let':         '    let v: int = E\n    set w (+ w v)\n',
    'set':         '    set w E\n',
    'arg':         '    (println E)\n',
    'arg_ignored': '    (ignore E)\n',
    'arg_ignored_let': '    let z: int = (ignore E)\n    set w (+ w z)\n',
    'operand':     '    set w (+ 1 E)\n',
    'cond':        '    if (== E 12345) { (println "x") }\n',
    'return':      '    set w (h a i)\n',
    'and':         '    if (and true (== E 12345)) { (println "x") }\n',
    'or':          '    if (or false (== E 12345)) { (println "x") }\n',
    'for_bound':   '    for j in (range 0 E) { set w (+ w 0) }\n',
}
ARR_CTX = {
    'stmt': '    E\n',
    'set':  '    set a E\n',
    'let':  '    let b: array<int> = E\n    set w (+ w (array_length b))\n',
    'arg':  '    (println (array_length E))\n',
}
VOID_CTX = {
    'stmt':    '    E\n',
    'if_body': '    if (== 1 1) { E }\n',
    'for_body': '    for j in (range 0 1) { E }\n',
}
CTX_OPS = {   # op -> (model kind, expression over a and i, contexts)
    'at':        ('get', '(at a i)', INT_CTX),
    'array_get': ('get', '(array_get a i)', INT_CTX),
    'array_pop': ('pop', '(array_pop a)', INT_CTX),
    'array_remove_at': ('remove', '(array_remove_at a i)', ARR_CTX),
    'array_set': ('set', '(array_set a i 99)', VOID_CTX),
}
CTX_HELPERS = 'fn ignore(x: int) -> int {\n    return 0\n}\n'


def ctx_program(op, ctx, n, interp=False):
    kind, expr, ctxs = CTX_OPS[op]
    body = ctxs[ctx].replace('E', expr)
    helper = CTX_HELPERS
    if ctx == 'return':
        helper += 'fn h(a0: array<int>, i0: int) -> int {\n    let mut a: array<int> = a0\n    let i: int = i0\n    return %s\n}\n' % expr
    if interp:
        arr = ('    let mut a: array<int> = %s\n' % literal(n)) if op in ('at', 'array_get', 'array_set') else ('    let mut a: array<int> = []\n' + dyn(n))
        return (helper + 'fn f(i: int) -> int {\n' + arr + '    let mut w: int = 0\n' + body + '    return (+ 7 (* 0 w))\n}\n'
                'shadow f {\n    assert (!= (f (string_to_int (getenv "C08_IDX"))) 7)\n}\nfn main() -> int { return 0 }\n')
    return (helper + 'fn main() -> int {\n    let i: int = (string_to_int (getenv "C08_IDX"))\n    let mut a: array<int> = []\n' + pushes(n) +
            '    let mut w: int = 0\n    (println "B")\n' + body + '    (println "A")\n    return (* 0 w)\n}\n')


def ctx_cases():
    out = []
    for op, (kind, expr, ctxs) in CTX_OPS.items():
        for ctx in ctxs:
            if op == 'array_pop':
                out += [(op, ctx, 0, 0), (op, ctx, 2, 0)]
            else:
                out += [(op, ctx, 3, i) for i in (0, 2, 3, -1, 2**32 + 1)]
    return out


def run_ctx(ck, b, ba, ref, cfgbits, scratch):
    """the context stream: trap vs continue per (operation, syntactic context, length, index, engine)"""
    cases = ctx_cases()
    engines = ('vm', 'vmfile', 'native', 'interp')
    srcs = {}
    for op, ctx, n, _ in cases:
        if (op, ctx, n) in srcs: continue
        p = os.path.join(scratch, 'x_%s_%s_%d.nano' % (op, ctx, n)); open(p, 'w').write(ctx_program(op, ctx, n))
        q = os.path.join(scratch, 'xi_%s_%s_%d.nano' % (op, ctx, n)); open(q, 'w').write(ctx_program(op, ctx, n, interp=True))
        srcs[(op, ctx, n)] = (p, q)

    def prep(key):
        p, q = srcs[key]
        nat = p[:-5] + '.bin'; nvm = p[:-5] + '.nvm'
        r1 = vlib.sh([b.bin('nanoc'), p, '-o', nat], timeout=180, cwd=scratch)
        r2 = vlib.sh([b.bin('nano_virt'), p, '--emit-nvm', '-o', nvm], timeout=60, cwd=scratch)
        return key, (nat if r1[0] == 0 and os.path.exists(nat) else None), (nvm if r2[0] == 0 and os.path.exists(nvm) else None), (r1[1] + r1[2] + r2[2])[-300:]
    with ThreadPoolExecutor(16) as ex:
        built = {k: (nat, nvm, log) for k, nat, nvm, log in ex.map(prep, list(srcs))}
    for k, (nat, nvm, log) in built.items():
        if nat is None or nvm is None:
            ck.fail('c08:ctx:compile:%s:%s' % (k[0], k[1]), 'a generated context program no longer compiles (%s): %s' % ('native' if nat is None else 'emit-nvm', log),
                    dict(program=open(srcs[k][0]).read(), correspondence='machinery'), tie=True)
    # the compile-time interpreter has no builtin `array_get` at all ("Error: Undefined function 'array_get'", evaluation goes on with void,
    # in range or not): not a bounds question, left out of this stream for that engine (reported in the evidence)
    jobs = [(e, op, ctx, n, idx) for (op, ctx, n, idx) in cases for e in engines if not (e == 'interp' and op == 'array_get')]
    ck.extra['context_stream_excluded'] = ['interp x array_get: builtin not implemented by the interpreter (Undefined function, continues with void)']
    mlines = ['acc %s %s %s %x %s' % (cfgbits, 'vm' if e == 'vmfile' else e, CTX_OPS[op][0], n, zhex(idx)) for (e, op, ctx, n, idx) in jobs]
    model = [parse_model(a) for a in vlib.run_lines(ref, mlines)]

    def one(job):
        e, op, ctx, n, idx = job
        env = dict(ENVB, C08_IDX=str(idx))
        p, q = srcs[(op, ctx, n)]; nat, nvm, _ = built[(op, ctx, n)]
        if e == 'interp':
            ob = os.path.join(scratch, 'xb_%s' % hashlib.sha1(repr(job).encode()).hexdigest()[:10])
            rc, so, se = vlib.sh([b.bin('nanoc'), q, '-o', ob], timeout=180, env=env, cwd=scratch)
            if os.path.exists(ob): os.unlink(ob)
            txt = so + se
            if 'Runtime Error' in txt and rc != 0: return 'trap'
            if 'Shadow test' in txt and 'FAILED' in txt: return 'continue'
            return 'other rc=%s %s' % (rc, txt[-100:])
        if e == 'vm':
            rc, so, se = vlib.sh([ba.bin('nano_virt'), p, '--run'], timeout=60, env=env, cwd=scratch)
        elif e == 'vmfile':
            if nvm is None: return 'other no nvm'
            rc, so, se = vlib.sh([ba.bin('nano_vm'), nvm], timeout=60, env=env, cwd=scratch)
        else:
            if nat is None: return 'other no binary'
            rc, so, se = vlib.sh([nat], timeout=30, env=env, cwd=scratch)
        if 'AddressSanitizer' in se or re.search(r'\.[ch]:\d+:\d+: runtime error:', se): return 'other sanitizer ' + se[:120]
        lines = so.split('\n')
        if rc != 0 and 'B' in lines and 'A' not in lines: return 'trap'
        if rc == 0 and 'A' in lines: return 'continue'
        return 'other rc=%s out=%r' % (rc, so[:60])
    with ThreadPoolExecutor(16) as ex:
        obs = list(ex.map(one, jobs))
    dist = {}
    for (e, op, ctx, n, idx), (macc, legit), ob in zip(jobs, model, obs):
        key = 'ctx:%s:%s:%s:len=%d:idx=%d' % (e, op, ctx, n, idx)
        ck.count(key, nontrivial=not legit)
        d = dist.setdefault(e, {}); lab = ('legit-' if legit else 'oob-') + ob.split()[0]; d[lab] = d.get(lab, 0) + 1
        want = 'trap' if macc[0] == 'trap' else 'continue'
        prog = ctx_program(op, ctx, n, interp=(e == 'interp'))
        if ob != want:
            ck.fail('c08:diff:' + key, 'engine %s, %s in context "%s" on length %d at index %d: observed %s, model %s' % (e, op, ctx, n, idx, ob, want),
                    dict(engine=e, access=op, context=ctx, length=n, index=idx, expected_model=want, observed_impl=ob, cfg=cfgbits, program=prog,
                         env=dict(C08_IDX=str(idx)), correspondence='engine run vs nvref_c08 (context stream)'))
        if not legit and ob != 'trap':
            ck.fail('c08:ctx:%s:%s:%s' % (e, op, ctx), '%s: %s in context "%s" at index %d of a length-%d array does not stop the program (%s)' % (e, op, ctx, idx, n, ob),
                    dict(engine=e, access=op, context=ctx, length=n, index=idx, observed_impl=ob, expected='exit != 0 and no statement after the access',
                         program=prog, env=dict(C08_IDX=str(idx))))
    ck.extra['context_stream'] = dict(cases=len(jobs), contexts=sorted(set(INT_CTX) | set(ARR_CTX) | set(VOID_CTX)), operations=sorted(CTX_OPS), engines=list(engines), outcomes=dist)


def run(ck):
    b = ck.build('plain'); ba = ck.build('asan')
    ck.gen(['gen_isa', 'gen_c13cfg'])
    proved = ck.prove()
    cfgbits = c13.read_cfg()
    ck.extra['unrecognised_sites'] = c13.unrecognised_sites(ck)
    ck.extra['cfg_of_current_source'] = dict(zip(['fx_sec', 'fx_slen', 'fx_fnrange', 'fx_div', 'fx_substr', 'fx_print', 'fx_arr', 'fx_npop', 'fx_ipop', 'fx_strict'], cfgbits))
    ref = ck.nvref('c08')
    ns = list(range(0, 65)) if ck.thorough else [0, 1, 2, 3, 5, 8]
    kinds = ['get', 'set', 'pop', 'remove']
    scratch = tempfile.mkdtemp(prefix='c08_', dir=vlib.BUILD)
    t_start = time.time()
    try:
        cases = []     # (engine, kind, n, idx)
        for n in ns:
            for kind in kinds:
                idxs = [0] if kind == 'pop' else indices(n)
                if not ck.thorough and n in (5, 8) and kind != 'get':
                    idxs = idxs[:9]
                for idx in idxs:
                    for e in ('vm', 'native', 'interp'):
                        cases.append((e, kind, n, idx))
        mlines = ['acc %s %s %s %x %s' % (cfgbits, e, k, n, zhex(i)) for (e, k, n, i) in cases]
        model = [parse_model(a) for a in vlib.run_lines(ref, mlines)]
        # sources
        srcs = {}
        for n in ns:
            for kind in kinds:
                p = os.path.join(scratch, 'p_%s_%d.nano' % (kind, n)); open(p, 'w').write(program(kind, n)); srcs[('run', kind, n)] = p
                p = os.path.join(scratch, 'i_%s_%d.nano' % (kind, n)); open(p, 'w').write(interp_program(kind, n)); srcs[('interp', kind, n)] = p
        # native binaries, one per (kind, n)
        def compile_native(key):
            _, kind, n = key
            o = os.path.join(scratch, 'n_%s_%d' % (kind, n))
            rc, so, se = vlib.sh([b.bin('nanoc'), srcs[key], '-o', o], timeout=180, cwd=scratch)
            return key, (o if rc == 0 and os.path.exists(o) else None), (so + se)[-300:]
        with ThreadPoolExecutor(16) as ex:
            natives = {k: (o, log) for k, o, log in ex.map(compile_native, [k for k in srcs if k[0] == 'run'])}
        bad_native = [k for k, (o, log) in natives.items() if o is None]
        if bad_native:
            ck.fail('c08:native:compile', 'native compilation of a generated C08 program failed: %s' % natives[bad_native[0]][1],
                    dict(program=open(srcs[bad_native[0]]).read(), correspondence='machinery'))

        def one(case_model):
            (e, kind, n, idx), (macc, legit) = case_model
            env = dict(ENVB, C08_IDX=str(idx))
            if e == 'vm':
                rc, so, se = vlib.sh([ba.bin('nano_virt'), srcs[('run', kind, n)], '--run'], timeout=60, env=env, cwd=scratch)
                san = 'AddressSanitizer' in se or re.search(r'\.[ch]:\d+:\d+: runtime error:', se) is not None     # (nano_virt itself prints "runtime error: <vm message>")
                return observe(kind, n, rc, so) if not san else ('other', 'sanitizer: ' + se[:200])
            if e == 'native':
                o = natives.get(('run', kind, n), (None, ''))[0]
                if o is None: return ('other', 'no binary')
                rc, so, se = vlib.sh([o], timeout=30, env=env, cwd=scratch)
                return observe(kind, n, rc, so)
            # interpreter: expect value from the model's answer (continue cases), otherwise anything
            exp = interp_expect(kind, n, macc) if macc[0] != 'trap' else 123456789
            env['C08_EXPECT'] = str(exp)
            out_bin = os.path.join(scratch, 'ib_%s_%d_%s' % (kind, n, hashlib.sha1(str(idx).encode()).hexdigest()[:8]))
            rc, so, se = vlib.sh([b.bin('nanoc'), srcs[('interp', kind, n)], '-o', out_bin], timeout=180, env=env, cwd=scratch)
            if os.path.exists(out_bin): os.unlink(out_bin)
            txt = so + se
            if 'Runtime Error' in txt and rc != 0: return ('trap',)
            if 'Shadow test' in txt and 'FAILED' in txt: return macc if macc[0] != 'trap' else ('other', 'continued')   # continued and returned the expected value
            if rc == 0: return ('other', 'continued with a value other than the model expects (%d)' % exp)
            return ('other', 'rc=%s %s' % (rc, txt[-120:]))
        with ThreadPoolExecutor(16) as ex:
            obs = list(ex.map(one, zip(cases, model)))
        dist = {}
        for (e, kind, n, idx), (macc, legit), ob in zip(cases, model, obs):
            key = '%s:%s:len=%d:idx=%d' % (e, kind, n, idx)
            ck.count(key, nontrivial=not legit)
            d = dist.setdefault(e, {}); lab = ('legit-' if legit else 'oob-') + ob[0]; d[lab] = d.get(lab, 0) + 1
            agree = (ob == macc)
            if not agree:
                ck.fail('c08:diff:' + key, 'engine %s, %s on length %d at index %d: observed %s, model %s' % (e, kind, n, idx, ob, macc),
                        dict(engine=e, access=kind, length=n, index=idx, expected_model=list(macc), observed_impl=list(ob), cfg=cfgbits,
                             program=(interp_program if e == 'interp' else program)(kind, n), correspondence='engine run vs nvref_c08'))
            # the property itself, on the implementation's own behaviour: an illegitimate access must trap
            if not legit and ob[0] != 'trap':
                fk = 'c08:%s:%s:%s' % (e, kind, klass(ob, idx, n))
                ck.fail(fk, '%s %s at index %d of a length-%d array does not stop the program (%s)' % (e, kind, idx, n, ' '.join(map(str, ob))),
                        dict(engine=e, access=kind, length=n, index=idx, observed_impl=list(ob), expected='exit != 0 and no statement after the access',
                             program=(interp_program if e == 'interp' else program)(kind, n), env=dict(C08_IDX=str(idx))))
        ck.extra['input_distribution'] = dist
        ck.extra['lengths'] = ns
        ck.extra['engine_runs_s'] = round(time.time() - t_start, 1)
        for i in (0, len(cases) // 2, len(cases) - 1):
            ck.sample(dict(case='%s %s len=%d idx=%d' % cases[i], model=list(model[i][0]), observed=list(obs[i])))
        run_ctx(ck, b, ba, ref, cfgbits, scratch)
        # ---- field / tuple / union index and the repaired-VM witnesses at bytecode level (vm_probe vs the VM model of C13)
        asm = L.Asm(L.load_table()); a = asm
        bc = []
        def mod(code):
            m = L.Mod(); m.strings = [b'main']; m.code = code
            m.funs = [dict(name=0, arity=0, off=0, len=len(code), locals=0, upvals=0)]
            return m.serialise()[0]
        for cnt in (0, 1, 2, 3):
            pushes_ = b''.join(a.ins('PUSH_I64', 10 * (j + 1)) for j in range(cnt))
            for idx in sorted({0, max(cnt - 1, 0), cnt, cnt + 1, 65535}):
                marker = a.ins('PUSH_I64', 777) + a.ins('PRINTLN')
                bc.append(('tuple', cnt, idx, mod(pushes_ + a.ins('TUPLE_NEW', cnt) + a.ins('TUPLE_GET', idx) + a.ins('PRINTLN') + marker + a.ins('PUSH_I64', 0) + a.ins('RET'))))
                bc.append(('struct', cnt, idx, mod(pushes_ + a.ins('STRUCT_LITERAL', 0, cnt) + a.ins('STRUCT_GET', idx) + a.ins('PRINTLN') + marker + a.ins('PUSH_I64', 0) + a.ins('RET'))))
                bc.append(('structset', cnt, idx, mod(pushes_ + a.ins('STRUCT_LITERAL', 0, cnt) + a.ins('PUSH_I64', 5) + a.ins('STRUCT_SET', idx) + a.ins('PRINTLN') + marker + a.ins('PUSH_I64', 0) + a.ins('RET'))))
                bc.append(('union', cnt, idx, mod(pushes_ + a.ins('UNION_CONSTRUCT', 0, 1, cnt) + a.ins('UNION_FIELD', idx) + a.ins('PRINTLN') + marker + a.ins('PUSH_I64', 0) + a.ins('RET'))))
        impl, mdl = c13.run_cases(ck, cfgbits, [('%s:%d:%d' % (k, c_, i), d) for k, c_, i, d in bc])
        fd = {}
        for (k, cnt, idx, data), ia, ma in zip(bc, impl, mdl):
            i4 = c13.classify(ia); m4 = c13.classify(ma)
            ck.count('field:%s:%d:%d' % (k, cnt, idx), nontrivial=idx >= cnt)
            lab = ('oob-' if idx >= cnt else 'legit-') + i4[0]; fd[lab] = fd.get(lab, 0) + 1
            if not c13.same(i4, m4):
                ck.fail('c08:diff:field:%s:count=%d:idx=%d' % (k, cnt, idx), 'vm_probe and VM model disagree: impl=%s model=%s' % (ia, ma),
                        dict(input_hex=data.hex(), expected_model=ma, observed_impl=ia, correspondence='vm_probe vs nvref_c13'))
            if idx >= cnt and not (i4[0] == 'vmerror' and i4[3] in ('-', '')):
                ck.fail('c08:vm:field:%s' % k, '%s index %d of a %d-field object does not stop the VM with an error before any output: %s' % (k, idx, cnt, ia),
                        dict(input_hex=data.hex(), observed_impl=ia, engine='vm_probe(asan)'))
        ck.extra['field_index_cases'] = fd
    finally:
        shutil.rmtree(scratch, ignore_errors=True)
    ck.extra['exhaustive'] = False
    ck.cov['rule'] = ('lengths n in %s x indices {-1, n, n+1, -n, INT64_MIN, INT64_MAX, 2^31, 2^32-1, 2^32, 2^32+k (k<n), -2^32+k, 2^63-1; plus 0 and n-1 as legitimate '
                      'controls} x {get,set,pop,remove} x {VM (nano_virt --run, ASan build), native (nanoc binary), interpreter (shadow test inside nanoc)}; '
                      'the index is read at run time (getenv) so one program per (kind, n); tuple/struct/union field index {0..count+1, 65535} as bytecode '
                      'through vm_probe. non-trivial = index outside [0,n) (pop: n = 0; field: idx >= count); distinct = (engine, kind, n, idx).'
                      % ('0..64' if ck.thorough else '[0,1,2,3,5,8]'))
    ck.trusted += ['translator tools/gen/gen_c13cfg.py (which repairs the source contains; tested by this correspondence)', 'extraction: ExtrOcamlBasic only; extract/c08_driver.ml',
                   'program generators and the output classifier in tools/props/c08.py (markers B/A, element values 10,20,..; interpreter observed through the shadow-test verdict)',
                   'probes/vm_probe.c + nvref_c13 for the field-index bytecode cases']
    ck.assumptions += ['array lengths below 2^32 (uint32_t length field of VmArray)',
                       'the interpreter engine is the shadow-test evaluator of nanoc (static array literals for get/set, dynamic arrays for pop/remove: builtin_array_set refuses dynamic arrays altogether)']


def replay_ctx(ck, b, ba, d):
    e, op, ctx, n, idx = d['engine'], d['access'], d['context'], d['length'], d['index']
    cfgbits = c13.read_cfg(); ref = ck.nvref('c08')
    macc, legit = parse_model(vlib.run_lines(ref, ['acc %s %s %s %x %s' % (cfgbits, 'vm' if e == 'vmfile' else e, CTX_OPS[op][0], n, zhex(idx))])[0])
    want = 'trap' if macc[0] == 'trap' else 'continue'
    scratch = tempfile.mkdtemp(prefix='c08r_', dir=vlib.BUILD)
    try:
        env = dict(ENVB, C08_IDX=str(idx))
        p = os.path.join(scratch, 'p.nano'); open(p, 'w').write(ctx_program(op, ctx, n, interp=(e == 'interp')))
        if e == 'interp':
            rc, so, se = vlib.sh([b.bin('nanoc'), p, '-o', os.path.join(scratch, 'ib')], timeout=180, env=env, cwd=scratch)
            txt = so + se
            ob = 'trap' if ('Runtime Error' in txt and rc != 0) else ('continue' if 'FAILED' in txt else 'other rc=%s' % rc)
        else:
            if e == 'vm':
                rc, so, se = vlib.sh([ba.bin('nano_virt'), p, '--run'], timeout=60, env=env, cwd=scratch)
            elif e == 'vmfile':
                vlib.sh([b.bin('nano_virt'), p, '--emit-nvm', '-o', os.path.join(scratch, 'p.nvm')], timeout=60, cwd=scratch)
                rc, so, se = vlib.sh([ba.bin('nano_vm'), os.path.join(scratch, 'p.nvm')], timeout=60, env=env, cwd=scratch)
            else:
                vlib.sh([b.bin('nanoc'), p, '-o', os.path.join(scratch, 'n')], timeout=180, cwd=scratch)
                rc, so, se = vlib.sh([os.path.join(scratch, 'n')], timeout=30, env=env, cwd=scratch)
            print('rc=%s stdout=%r stderr=%r' % (rc, so, se[-300:]))
            lines = so.split('\n')
            ob = 'trap' if (rc != 0 and 'A' not in lines) else ('continue' if rc == 0 and 'A' in lines else 'other')
        print('engine %s, %s in context %s, len=%d idx=%d: observed %s, model %s (%s)' % (e, op, ctx, n, idx, ob, want, 'legit' if legit else 'out of range'))
        okay = ob == want and (legit or ob == 'trap')
        print('not reproduced' if okay else 'REPRODUCED')
        return 0 if okay else 1
    finally:
        shutil.rmtree(scratch, ignore_errors=True)


def replay(ck, d):
    b = ck.build('plain'); ba = ck.build('asan'); ck.gen(['gen_isa', 'gen_c13cfg'])
    if 'input_hex' in d:
        return c13.replay(ck, d)
    if 'context' in d:
        return replay_ctx(ck, b, ba, d)
    e, kind, n, idx = d['engine'], d['access'], d['length'], d['index']
    cfgbits = c13.read_cfg(); ref = ck.nvref('c08')
    macc, legit = parse_model(vlib.run_lines(ref, ['acc %s %s %s %x %s' % (cfgbits, e, kind, n, zhex(idx))])[0])
    scratch = tempfile.mkdtemp(prefix='c08r_', dir=vlib.BUILD)
    try:
        env = dict(ENVB, C08_IDX=str(idx))
        if e == 'interp':
            p = os.path.join(scratch, 'i.nano'); open(p, 'w').write(interp_program(kind, n))
            env['C08_EXPECT'] = str(interp_expect(kind, n, macc) if macc[0] != 'trap' else 123456789)
            rc, so, se = vlib.sh([b.bin('nanoc'), p, '-o', os.path.join(scratch, 'ib')], timeout=180, env=env, cwd=scratch)
            txt = so + se
            ob = ('trap',) if ('Runtime Error' in txt and rc != 0) else (macc if 'FAILED' in txt else ('other', 'rc=%s' % rc))
            print(txt[-400:])
        else:
            p = os.path.join(scratch, 'p.nano'); open(p, 'w').write(program(kind, n))
            if e == 'vm':
                rc, so, se = vlib.sh([ba.bin('nano_virt'), p, '--run'], timeout=60, env=env, cwd=scratch)
            else:
                o = os.path.join(scratch, 'n'); vlib.sh([b.bin('nanoc'), p, '-o', o], timeout=180, cwd=scratch)
                rc, so, se = vlib.sh([o], timeout=30, env=env, cwd=scratch)
            print('rc=%s stdout=%r stderr=%r' % (rc, so, se[-300:]))
            ob = observe(kind, n, rc, so)
        print('engine %s %s len=%d idx=%d: observed %s, model %s (%s)' % (e, kind, n, idx, ob, macc, 'legit' if legit else 'out of range'))
        okay = ob == macc and (legit or ob[0] == 'trap')
        print('not reproduced' if okay else 'REPRODUCED')
        return 0 if okay else 1
    finally:
        shutil.rmtree(scratch, ignore_errors=True)
