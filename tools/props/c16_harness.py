"""C16 harness: runs the real `nano_vm --isolate-ffi` against tools/fake_cop.py installed as nano_cop, one fault per run,
and classifies what happened (exit status / terminating signal / stderr class / program stdout preserved / surviving processes)."""
import os, sys, json, time, shutil, signal, re
import vlib

STEPS = ['before_ready', 'after_ready', 'req', 'reply', 'midreply']
PROC_FAULTS = ['exit0', 'exit1', 'kill9', 'close_stdin', 'close_stdout', 'close_both', 'hang_exit']
MSG_FAULTS = ['truncated', 'oversized', 'wrong_type', 'garbage', 'bad_version', 'str_wrap', 'arr_huge', 'deep_nest', 'err_long', 'err_20k', 'err_300k']
FAULTS = PROC_FAULTS + MSG_FAULTS
# the eleven kinds the property names: exit(0), exit(1), SIGKILL, close stdin, close stdout, (close both), short header/payload
# (truncated), wrong version, wrong type, payload length > max (oversized), undecodable value (str_wrap, arr_huge, deep_nest), garbage,
# hang then exit; err_long / err_20k / err_300k = protocol-legal error texts of 1000 / 20000 / 300000 bytes (beyond the client's
# message buffer, its 8 KiB request buffer and the pipe buffer)


def run_model(ref, lines, timeout=600):
    """line protocol with an unlimited stack (the extracted list functions are not tail recursive; the deep_nest reply is 2.4 MB)"""
    import subprocess, resource

    def big_stack():
        try:
            resource.setrlimit(resource.RLIMIT_STACK, (resource.RLIM_INFINITY, resource.RLIM_INFINITY))
        except (ValueError, OSError):
            soft, hard = resource.getrlimit(resource.RLIMIT_STACK)
            resource.setrlimit(resource.RLIMIT_STACK, (hard, hard))
    try:
        # a large minor heap: every minor collection scans the (deep) stack
        r = subprocess.run([ref], input=('\n'.join(lines) + '\n').encode(), capture_output=True, timeout=timeout, preexec_fn=big_stack,
                           env=dict(os.environ, OCAMLRUNPARAM='s=64M'))
    except subprocess.TimeoutExpired:
        raise RuntimeError('%s timed out' % ref)
    if r.returncode != 0:
        raise RuntimeError('%s exited %s: %s' % (ref, r.returncode, r.stderr.decode('utf-8', 'replace')[-2000:]))
    return r.stdout.decode('utf-8', 'replace').splitlines()


def root():
    d = os.path.join(vlib.BUILD, 'c16')
    os.makedirs(d, exist_ok=True)
    return d


def program(ncalls, delay=1000000):   # ~175 ms of computation between calls: a fault 'before request k' is over when call k starts
    body = ['    (println "p0")']
    for i in range(1, ncalls + 1):
        body.append('    (println (labs -%d))' % i)
        if i < ncalls:
            body.append('    let d%d: int = (delay %d)' % (i, delay))
    body.append('    (println "end")')
    return ('extern fn labs(x: int) -> int\n\nfn delay(n: int) -> int {\n    let mut i: int = 0\n    while (< i n) {\n        set i (+ i 1)\n    }\n'
            '    return i\n}\n\nfn main() -> int {\n' + '\n'.join(body) + '\n    return 0\n}\n')


def setup(b, ncalls):
    """scratch bin dir with the fake as nano_cop + a copy of the fresh nano_vm; compiles the driver program"""
    r = root()
    bind = os.path.join(r, 'bin')
    os.makedirs(bind, exist_ok=True)
    fake = os.path.join(bind, 'nano_cop')
    text = '#!%s\n' % sys.executable + open(os.path.join(vlib.VERIF, 'tools', 'fake_cop.py')).read()
    if not os.path.exists(fake) or open(fake).read() != text:
        open(fake, 'w').write(text)
    os.chmod(fake, 0o755)
    # private copies taken under the build lock: a concurrent check relinking build/plain/bin must not be able to pull a
    # binary away (or leave it half written) in the middle of the matrix
    vmcopy = os.path.join(bind, 'nano_vm')
    realcopy = os.path.join(bind, 'nano_cop.real')
    with vlib.Lock():
        for srcp, dst in ((b.bin('nano_vm'), vmcopy), (b.bin('nano_cop'), realcopy)):
            if not os.path.exists(dst) or open(dst, 'rb').read() != open(srcp, 'rb').read():
                tmp = dst + '.tmp'
                shutil.copy2(srcp, tmp); os.replace(tmp, dst)
    src = os.path.join(r, 'prog%d.nano' % ncalls)
    nvm = os.path.join(r, 'prog%d.nvm' % ncalls)
    open(src, 'w').write(program(ncalls))
    rc, o, e = vlib.sh([b.bin('nano_virt'), src, '--emit-nvm', '-o', nvm], timeout=60, cwd=b.root)
    if rc != 0 or not os.path.exists(nvm):
        raise RuntimeError('cannot compile the C16 driver program: ' + (o + e)[-1500:])
    return dict(bind=bind, vm=vmcopy, nvm=nvm, real=realcopy, ncalls=ncalls)


def _alive(pid):
    """process exists and is not a zombie and is one of ours (cmdline mentions nano_cop)"""
    try:
        st = open('/proc/%d/stat' % pid).read()
        cmd = open('/proc/%d/cmdline' % pid, 'rb').read()
    except OSError:
        return False
    state = st.rsplit(')', 1)[1].split()[0]
    return state != 'Z' and b'nano_cop' in cmd


def run_cell(env0, cell, tag=None, hang_s=8, timeout=25):
    """cell = dict(step, k, fault).  Returns the observation dict."""
    name = tag or '%s_%s_%s' % (cell['step'], cell.get('k', 1), cell['fault']) + ('_' + cell['content'] if cell.get('content') else '')
    if cell.get('content') is not None:
        cell = dict(cell, content_hex=CONTENTS[cell['content']].hex())
    d = os.path.join(root(), 'run', name)
    shutil.rmtree(d, ignore_errors=True)
    os.makedirs(d)
    json.dump(cell, open(os.path.join(d, 'script.json'), 'w'))
    env = dict(os.environ, PATH=env0['bind'] + ':' + os.environ.get('PATH', ''), FAKE_COP_DIR=d, FAKE_COP_REAL=env0['real'],
               FAKE_COP_HANG=str(hang_s))
    t0 = time.time()
    # stdout/stderr go to files, not pipes: a surviving co-process inherits the VM's stderr and would otherwise keep
    # the harness waiting for EOF instead of letting it look at the process table right after the VM is gone
    import subprocess
    fo = open(os.path.join(d, 'stdout'), 'wb'); fe = open(os.path.join(d, 'stderr'), 'wb')
    try:
        p = subprocess.Popen([env0['vm'], '--isolate-ffi', env0['nvm']], stdout=fo, stderr=fe, stdin=subprocess.DEVNULL, env=env, cwd=d)
        try:
            rc = p.wait(timeout=timeout)
            timed_out = False
        except subprocess.TimeoutExpired:
            p.kill(); p.wait(); rc = -9; timed_out = True
    finally:
        fo.close(); fe.close()
    out_b = open(os.path.join(d, 'stdout'), 'rb').read(); err_b = open(os.path.join(d, 'stderr'), 'rb').read()
    out = out_b.decode('utf-8', 'replace')
    err = open(os.path.join(d, 'stderr'), 'rb').read().decode('utf-8', 'replace') + ('\n[timeout]' if timed_out else '')
    wall = time.time() - t0
    pids = []
    pf = os.path.join(d, 'pids')
    if os.path.exists(pf):
        pids = [int(x) for x in open(pf).read().split()]
    # survivors: checked right after the VM is gone, and again after a grace period (a co-process that is merely slow to
    # notice EOF is not an orphan; one that is still there after the grace period is)
    time.sleep(0.05)
    first = [p for p in pids if _alive(p)]
    survivors = first
    if first:
        time.sleep(0.6)
        survivors = [p for p in first if _alive(p)]
    for p in first:
        if _alive(p):
            try:
                os.kill(p, signal.SIGKILL)
            except OSError:
                pass
    log = ''
    lp = os.path.join(d, 'log')
    if os.path.exists(lp):
        log = open(lp).read()
    return dict(cell=cell, rc=rc, stdout=out, stderr=err, stdout_b=out_b, stderr_b=err_b, wall=round(wall, 2), pids=pids, orphans=len(survivors),
                incarnations=int(open(os.path.join(d, 'count')).read()) if os.path.exists(os.path.join(d, 'count')) else 0, log=log)


ERR_CLASSES = [('serialize', 'COP: failed to serialize arg'), ('req_died', 'COP: co-process died during FFI request'),
               ('resp_died', 'COP: co-process died during FFI response'), ('payload', 'COP: failed to receive result payload'),
               ('deser', 'COP: failed to deserialize result'), ('badtype', 'COP: unexpected response type'),
               ('launch', 'COP: failed to launch co-process'), ('oom', 'COP: OOM for result')]


def classify(obs, ncalls):
    """-> (status, errclass, printed, orphans): status = exit0 | exit1 | sig<N> | timeout;
    printed = number of program output lines present (p0, 1..ncalls, end => ncalls + 2 when complete)"""
    rc = obs['rc']
    status = 'timeout' if rc == -9 and '[timeout]' in obs['stderr'] else ('sig%d' % -rc if rc < 0 else 'exit%d' % rc)
    ec = '-'
    if 'FFI call failed:' in obs['stderr']:
        ec = 'msg'
        for k, pat in ERR_CLASSES:
            if pat in obs['stderr']:
                ec = k
    elif 'Runtime error' in obs['stderr']:
        ec = 'runtime:' + obs['stderr'].split('Runtime error:')[1].strip().split('\n')[0][:40]
    # program output lines that arrived (a garbled-but-decodable reply makes the VM print a wrong number: that line counts,
    # the lines before the first faulted call must be exactly the expected ones -- checked by intact())
    printed = len([l for l in obs['stdout'].split('\n') if l != ''])
    return status, ec, printed, obs['orphans']


def intact(obs, upto):
    """the program's own output before call number [upto] is exactly what it printed: p0, 1, .., upto-1"""
    want = ['p0'] + [str(i) for i in range(1, upto)]
    got = obs['stdout'].split('\n')
    return got[:len(want)] == want


# CONTENT classes for every message whose text or bytes the peer chooses: the VM must treat them as data
CONTENTS = {
    'fmt_s': b'toupper: conversion %s%s%s%s%s%s%s%s%s%s%s%s%s%s%s%s failed',
    'fmt_n': b'%n%n%n%n written',
    'fmt_x': b'%x.%x.%x.%p.%lu.%c',
    'fmt_wide': b'pad %9999999d end',
    'fmt_pct': b'100%% done, 5% left %',
    'nul_inside': b'abc\x00def\x00ghi',
    'non_utf8': b'\xff\xfe\x80\xc0\xc1 bad utf8 \xf8\x88',
    'ansi': b'\x1b[31mred\x1b[0m\x1b]0;title\x07\x1b[2J',
    'empty': b'',
    'newline': b'\n',
    'newlines': b'line1\nRuntime error: fake\n  second\r\n',
    'kw_resp_died': b'COP: co-process died during FFI response (will relaunch on next call)',
    'kw_prefix': b'FFI call failed: FFI call failed: ',
    'kw_ready': b'READY',
    'len_255': bytes(65 + i % 26 for i in range(255)),
    'len_256_pct': bytes(65 + i % 26 for i in range(250)) + b'%s%s%s',
}
CONTENT_FAULTS = ['errtext', 'strres', 'ready_payload']


def content_cells(K):
    out = []
    for cn in CONTENTS:
        out.append(dict(step='before_ready', k=1, fault='ready_payload', content=cn))
        for k in range(1, K + 1):
            out.append(dict(step='reply', k=k, fault='errtext', content=cn))
            out.append(dict(step='req', k=k, fault='errtext', content=cn))
            out.append(dict(step='reply', k=k, fault='strres', content=cn))
    return out


def cell_name(c):
    return '%s/%d/%s' % (c['step'], c['k'], c['fault']) + (':' + c['content'] if c.get('content') else '')


def cells(K):
    out = []
    for f in FAULTS:
        out.append(dict(step='before_ready', k=1, fault=f))
        out.append(dict(step='after_ready', k=1, fault=f))
        for k in range(1, K + 1):
            for st in ('req', 'reply', 'midreply'):
                out.append(dict(step=st, k=k, fault=f))
    return out


if __name__ == '__main__':
    import build_repo
    b = build_repo.build('plain')
    K = int(sys.argv[1]) if len(sys.argv) > 1 else 2
    env0 = setup(b, K + 1)
    from concurrent.futures import ThreadPoolExecutor
    cs = cells(K)
    with ThreadPoolExecutor(8) as ex:
        for c, o in zip(cs, ex.map(lambda c: run_cell(env0, c), cs)):
            print('%-13s k=%d %-12s -> %s  inc=%d wall=%.2f' % (c['step'], c['k'], c['fault'], classify(o, K + 1), o['incarnations'], o['wall']))
