"""C19 (tie) -- configuration sweep: compiling the same source files under different working directories,
environments, TMPDIRs, memory layouts (ASLR on/off, MALLOC_PERTURB_, ASan build), invocation spellings, source
mtimes, pids and times must give byte-identical .nvm (nano_virt --emit-nvm), byte-identical generated C
(nanoc -S -> <input>.genC, NANO_CC = a fake compiler) and the same diagnostics (paths normalised).

Exports  sweep(ck, b) -> (rule_string, artifacts)   and   replay_sweep(ck, d) -> int.

Layout: the sources of a program are (re)written to <scratch>/p/<program>/<dir axis>/ before every run and all
configurations of one program run one after the other in one worker (programs run in parallel with each other, 16 workers),
so every configuration that does not vary the `dir` axis sees the very same absolute paths; the `parallel` group runs three
copies at the same moment in sibling directories.  The baseline configuration is BASE below; every other configuration
differs from it in exactly ONE axis (cfg['axis']), plus a few random multi-axis combinations.  A difference is reported
with the axis in the key: c19:<kind>:<program>:<axis>, kind in nvm | genc | diag_virt | diag_nanoc.  The `cwd` axis runs
the same absolute input path from two working directories and compares those two runs with each other.

Input-path spelling (file given as main.nano / ./main.nano / absolute path): the *bytes* are compared raw first; if
they differ they are compared again after deleting the spelling prefix in front of the program's own file names.
A difference that disappears under this normalisation is "the input path as spelled is embedded in the output";
it is reported through the fixed witness program w_mod (stable key) and only counted for generated programs.
A difference that survives the normalisation is reported per program.
"""
import os, re, sys, time, json, shutil, hashlib, platform
from concurrent.futures import ThreadPoolExecutor
import vlib

TOOL_TIMEOUT = 60
WORKERS = 16
FIXED_MTIME = 1000000000

# ------------------------------------------------------------------------------------------------ programs
LITS = ['dup', 'alpha', 'beta gamma', '', 'x', 'a,b;c', '0123456789', 'Hello, World', 'dup ', 'tab\\tsep',
        'line\\nbreak', 'zz', '%d %s', 'dup', 'UPPER', '{braces}', 'a much longer string literal that goes on and on 0123456789']
FLOATS = ['0.5', '1.0', '2.5', '0.125', '10.0', '3.14159', '100.25', '0.001', '7.0']


class PG:
    """Generator of one nanolang source file from feature blocks (every function gets a shadow block)."""

    def __init__(self, rng, prefix='', pub=False):
        self.rng = rng
        self.prefix = prefix
        self.pub = 'pub ' if pub else ''
        self.defs = []
        self.main = []
        self.int_fns = []       # (name, arity)
        self.str_fns = []
        self.exports = []       # (name, kind) usable from an importer: 'int2', 'str1', 'int1'
        self.n = 0

    def fresh(self, p):
        self.n += 1
        return '%s%s%d' % (self.prefix, p, self.n)

    def fresh_type(self, p):
        """type names must start with an upper-case letter (otherwise `name { ... }` is not read as a literal of that type)."""
        self.n += 1
        return '%s%sx%d' % (p, self.prefix.replace('_', '').upper(), self.n)

    def lit(self):
        return '"%s"' % self.rng.choice(LITS)

    def const(self):
        return str(self.rng.choice([0, 1, 2, 3, 4, 5, 7, 9, 10, 13, 100, 255, 1000]))

    def int_expr(self, vs, depth):
        r = self.rng
        if depth <= 0 or r.random() < 0.25:
            return r.choice(vs) if (vs and r.random() < 0.65) else self.const()
        k = r.randrange(9)
        a = self.int_expr(vs, depth - 1)
        b = self.int_expr(vs, depth - 1)
        if k == 0:
            return '(+ %s %s)' % (a, b)
        if k == 1:
            return '(- %s %s)' % (a, b)
        if k == 2:
            return '(* %s %s)' % (a, r.choice(['2', '3', '5']))
        if k == 3:
            return '(/ %s %s)' % (a, r.choice(['2', '3', '7']))
        if k == 4:
            return '(%% %s %s)' % (a, r.choice(['5', '7', '11']))
        if k == 5:
            return '(cond ((< %s %s) %s) (else %s))' % (a, b, self.int_expr(vs, depth - 1), self.int_expr(vs, depth - 1))
        if k == 6 and self.int_fns:
            f, ar = r.choice(self.int_fns)
            return '(%s %s)' % (f, ' '.join([a, b][:ar]))
        if k == 7:
            return '(+ %s (* %s %s))' % (a, b, r.choice(['2', '4']))
        return '(- %s %s)' % (b, a)

    def fn(self, name, params, ret, body, shadow):
        self.defs.append('%sfn %s(%s) -> %s {\n%s\n}\n\nshadow %s {\n%s\n}\n' % (
            self.pub, name, ', '.join('%s: %s' % p for p in params), ret, body, name, shadow))

    # ---- feature blocks
    def f_arith(self):
        n = self.fresh('ar')
        vs = ['p', 'q']
        body = '    let t: int = %s\n    let mut u: int = %s\n' % (self.int_expr(vs, 3), self.int_expr(vs + ['t'], 2))
        body += '    if (< t u) {\n        set u (+ u t)\n    } else {\n        set u (- u %s)\n    }\n' % self.const()
        body += '    return %s' % self.int_expr(vs + ['t', 'u'], 3)
        a, b = self.const(), self.const()
        self.fn(n, [('p', 'int'), ('q', 'int')], 'int', body, '    assert (== (%s %s %s) (%s %s %s))' % (n, a, b, n, a, b))
        self.int_fns.append((n, 2)); self.exports.append((n, 'int2'))
        self.main.append('(println (%s %s %s))' % (n, self.const(), self.const()))

    def f_string(self):
        n = self.fresh('st')
        l1, l2 = self.lit(), self.lit()
        self.fn(n, [('p', 'string')], 'string', '    let a: string = (+ %s p)\n    return (+ a %s)' % (l1, l2),
                '    assert (== (%s "x") (%s "x"))\n    assert (== (str_length (%s "")) (str_length (+ %s %s)))' % (n, n, n, l1, l2))
        self.str_fns.append(n); self.exports.append((n, 'str1'))
        self.main.append('(println (%s %s))' % (n, self.lit()))
        for _ in range(self.rng.randrange(1, 4)):
            self.main.append('(println %s)' % self.lit())

    def f_struct(self):
        r = self.rng
        t = self.fresh_type('Rec')
        nf = r.randrange(1, 6)
        fields = [('f%d' % i, r.choice(['int', 'int', 'float', 'string', 'bool'])) for i in range(nf)]
        fields.insert(r.randrange(nf + 1), ('k', 'int'))
        self.defs.append('%sstruct %s {\n%s\n}\n' % (self.pub, t, ',\n'.join('    %s: %s' % f for f in fields)))
        mk = self.fresh('mk')
        def init(ty):
            return dict(int=lambda: self.int_expr(['a'], 1), float=lambda: r.choice(FLOATS), string=self.lit,
                        bool=lambda: r.choice(['true', 'false']))[ty]()
        lit = '%s { %s }' % (t, ', '.join('%s: %s' % (f, 'a' if f == 'k' else init(ty)) for f, ty in fields))
        self.fn(mk, [('a', 'int')], t, '    return ' + lit, '    let o: %s = (%s 3)\n    assert (== o.k 3)' % (t, mk))
        g = self.fresh('get')
        ints = [f for f, ty in fields if ty == 'int']
        e = 'o.k'
        for f in ints:
            e = '(+ %s o.%s)' % (e, f)
        self.fn(g, [('a', 'int')], 'int', '    let o: %s = (%s a)\n    return %s' % (t, mk, e),
                '    assert (== (%s 2) (%s 2))' % (g, g))
        self.int_fns.append((g, 1)); self.exports.append((g, 'int1'))
        self.main.append('(println (%s %s))' % (g, self.const()))
        if not self.pub:
            v = self.fresh('v')
            self.main.append('let %s: %s = (%s %s)' % (v, t, mk, self.const()))
            f, ty = r.choice(fields)
            self.main.append('(println %s.%s)' % (v, f))

    def f_enum(self):
        r = self.rng
        t = self.fresh_type('En')
        k = r.randrange(2, 7)
        vs = ['V%d%s' % (i, r.choice(['', 'a', 'Xy'])) for i in range(k)]
        self.defs.append('%senum %s {\n%s\n}\n' % (self.pub, t, ',\n'.join('    ' + v for v in vs)))
        n = self.fresh('en')
        body = ''
        for i, v in enumerate(vs[:-1]):
            body += '    if (== c %s.%s) {\n        return %s\n    } else {\n        (print "")\n    }\n' % (t, v, self.const())
        body += '    return %s' % self.const()
        self.fn(n, [('c', t)], 'int', body, '    assert (== (%s %s.%s) (%s %s.%s))' % (n, t, vs[0], n, t, vs[0]))
        if not self.pub:
            self.main.append('(println (%s %s.%s))' % (n, t, r.choice(vs)))
        w = self.fresh('ew')
        self.fn(w, [('a', 'int')], 'int', '    if (< a 5) {\n        return (%s %s.%s)\n    } else {\n        return (%s %s.%s)\n    }' % (
            n, t, vs[0], n, t, vs[-1]), '    assert (== (%s 1) (%s 1))' % (w, w))
        self.int_fns.append((w, 1)); self.exports.append((w, 'int1'))
        self.main.append('(println (%s %s))' % (w, self.const()))

    def f_union(self):
        r = self.rng
        t = self.fresh_type('Un')
        k = r.randrange(2, 5)
        vs = []
        for i in range(k):
            nm = 'K%d%s' % (i, r.choice(['', 'b']))
            fs = ['x%d' % j for j in range(r.randrange(1, 3))]
            vs.append((nm, fs))
        self.defs.append('%sunion %s {\n%s\n}\n' % (self.pub, t, ',\n'.join(
            '    %s { %s }' % (nm, ', '.join('%s: int' % f for f in fs)) for nm, fs in vs)))
        n = self.fresh('un')
        arms = ''
        for nm, fs in vs:
            e = 'b.' + fs[0]
            for f in fs[1:]:
                e = '(%s %s b.%s)' % (r.choice(['+', '*', '-']), e, f)
            arms += '        %s(b) => {\n            return %s\n        }\n' % (nm, e)
        self.fn(n, [('s', t)], 'int', '    match s {\n%s    }' % arms,
                '    assert (== (%s %s.%s { %s }) (%s %s.%s { %s }))' % (
                    n, t, vs[0][0], ', '.join('%s: 2' % f for f in vs[0][1]), n, t, vs[0][0], ', '.join('%s: 2' % f for f in vs[0][1])))
        w = self.fresh('uw')
        nm, fs = r.choice(vs)
        self.fn(w, [('a', 'int')], 'int', '    return (%s %s.%s { %s })' % (n, t, nm, ', '.join('%s: %s' % (f, self.int_expr(['a'], 1)) for f in fs)),
                '    assert (== (%s 1) (%s 1))' % (w, w))
        self.int_fns.append((w, 1)); self.exports.append((w, 'int1'))
        self.main.append('(println (%s %s))' % (w, self.const()))

    def f_array(self):
        r = self.rng
        n = self.fresh('arr')
        op = r.choice(['+', '-', '+'])
        body = ('    let mut i: int = 0\n    let mut s: int = %s\n    while (< i (array_length xs)) {\n'
                '        set s (%s s (at xs i))\n        set i (+ i 1)\n    }\n    return s' % (self.const(), op))
        self.fn(n, [('xs', 'array<int>')], 'int', body, '    assert (== (%s [1, 2, 3]) (%s [1, 2, 3]))' % (n, n))
        items = ', '.join(self.const() for _ in range(r.randrange(1, 9)))
        self.main.append('(println (%s [%s]))' % (n, items))
        v = self.fresh('sa')
        self.main.append('let %s: array<string> = [%s]' % (v, ', '.join(self.lit() for _ in range(r.randrange(1, 6)))))
        self.main.append('(println (at %s 0))' % v)
        v2 = self.fresh('fa')
        self.main.append('let %s: array<float> = [%s]' % (v2, ', '.join(r.choice(FLOATS) for _ in range(r.randrange(1, 5)))))
        self.main.append('(println (at %s 0))' % v2)

    def flt_expr(self, vs, depth):
        r = self.rng
        if depth <= 0 or r.random() < 0.3:
            return r.choice(vs) if (vs and r.random() < 0.6) else r.choice(FLOATS)
        return '(%s %s %s)' % (r.choice(['+', '-', '*', '/']), self.flt_expr(vs, depth - 1),
                               self.flt_expr(vs, depth - 1) if r.random() < 0.7 else r.choice(FLOATS[1:]))

    def f_float(self):
        n = self.fresh('fl')
        body = '    let z: float = %s\n    return %s' % (self.flt_expr(['x', 'y'], 2), self.flt_expr(['x', 'y', 'z'], 2))
        self.fn(n, [('x', 'float'), ('y', 'float')], 'float', body, '    assert (>= (+ 1.0 0.5) 1.0)')
        self.main.append('(println (%s %s %s))' % (n, self.rng.choice(FLOATS), self.rng.choice(FLOATS)))

    def f_bool(self):
        r = self.rng
        n = self.fresh('bo')
        e = '(%s (%s a (not b)) (%s n %s))' % (r.choice(['or', 'and']), r.choice(['or', 'and']), r.choice(['<', '>=', '==', '!=']), self.const())
        self.fn(n, [('a', 'bool'), ('b', 'bool'), ('n', 'int')], 'bool', '    return ' + e,
                '    assert (== (%s true false 1) (%s true false 1))' % (n, n))
        self.main.append('(println (%s %s %s %s))' % (n, r.choice(['true', 'false']), r.choice(['true', 'false']), self.const()))

    def f_loop(self):
        r = self.rng
        n = self.fresh('lp')
        body = '    let mut s: int = 0\n    for i in (range 0 n) {\n        if (== (%% i %s) 0) {\n            set s %s\n        } else {\n            set s %s\n        }\n    }\n' % (
            r.choice(['2', '3']), self.int_expr(['s', 'i'], 2), self.int_expr(['s', 'i', 'n'], 2))
        body += '    let mut k: int = 0\n    while (< k %s) {\n        set s (+ s k)\n        set k (+ k 1)\n    }\n    return s' % r.choice(['2', '3', '5'])
        self.fn(n, [('n', 'int')], 'int', body, '    assert (== (%s 4) (%s 4))' % (n, n))
        self.exports.append((n, 'int1s'))       # small arguments only: the shadow tests run in the compile-time interpreter
        self.main.append('(println (%s %s))' % (n, r.choice(['0', '3', '6', '10'])))

    def f_rec(self):
        r = self.rng
        n = self.fresh('rc')
        body = '    if (<= n 1) {\n        return %s\n    } else {\n        return (%s n (%s (- n 1)))\n    }' % (self.const(), r.choice(['*', '+']), n)
        self.fn(n, [('n', 'int')], 'int', body, '    assert (== (%s 5) (%s 5))' % (n, n))
        self.exports.append((n, 'int1s'))
        self.main.append('(println (%s %s))' % (n, r.choice(['1', '4', '8'])))

    def f_nested(self):
        if not self.int_fns:
            return self.f_arith()
        self.main.append('(println %s)' % self.int_expr([], 4))
        if self.str_fns:
            a = self.rng.choice(self.str_fns); b = self.rng.choice(self.str_fns)
            self.main.append('(println (%s (%s (%s %s))))' % (a, b, a, self.lit()))

    FEATURES = dict(arith='f_arith', string='f_string', struct='f_struct', enum='f_enum', union='f_union', array='f_array',
                    float='f_float', bool='f_bool', loop='f_loop', rec='f_rec', nested='f_nested')

    def add(self, feat):
        getattr(self, self.FEATURES[feat])()

    def text(self, header='', with_main=True, extra_main=()):
        out = header + '\n'.join(self.defs)
        if with_main:
            body = '\n'.join('    ' + s for s in list(self.main) + list(extra_main))
            out += '\nfn main() -> int {\n%s\n    return 0\n}\n\nshadow main {\n    assert (== (main) 0)\n}\n' % body
        return out


FLAVORS = {
    'strings': ['string'] * 6 + ['nested', 'array', 'string', 'string'],
    'funcs': ['arith'] * 8 + ['rec', 'loop', 'bool', 'nested', 'arith', 'arith', 'nested'],
    'types': ['struct', 'enum', 'union', 'struct', 'union', 'enum', 'struct', 'nested'],
    'arrflt': ['array', 'float', 'array', 'float', 'float', 'bool', 'array'],
    'loops': ['loop', 'loop', 'rec', 'arith', 'loop', 'nested', 'rec'],
    'mixed': ['arith', 'string', 'struct', 'enum', 'union', 'array', 'float', 'bool', 'loop', 'rec', 'nested',
              'string', 'arith', 'union', 'struct', 'string', 'nested'],
}
MOD_FEATS = ['arith', 'string', 'struct', 'arith', 'loop', 'rec', 'enum', 'string']      # (a union declared in an imported module is refused by the type checker)


def gen_single(rng, name, flavor):
    g = PG(rng)
    feats = list(FLAVORS[flavor])
    if flavor == 'mixed':
        rng.shuffle(feats)
    k = rng.randrange(max(2, len(feats) // 2), len(feats) + 1)
    for f in feats[:k]:
        g.add(f)
    return dict(name=name, files={'main.nano': g.text()}, main='main.nano', kind='ok', flavor=flavor)


def gen_multi(rng, name, nmods):
    """main.nano importing nmods sibling modules (alias import and from-import); with two modules the second may import the first."""
    mods = []
    files = {}
    for mi in range(nmods):
        mname = ['mod_a', 'modb', 'mod_c_long_name'][mi]
        g = PG(rng, prefix='m%d_' % mi, pub=True)
        for _ in range(rng.randrange(2, 6)):
            g.add(rng.choice(MOD_FEATS))
        header = 'module %s\n\n' % mname
        if mi == 1 and rng.random() < 0.5:
            # nested import: module b uses a function of module a
            header = 'module %s\n\nimport "%s.nano" as Inner\n\n' % (mname, mods[0][0])
            fn0 = [e for e in mods[0][1].exports if e[1] in ('int1', 'int2')]
            if fn0:
                n = g.fresh('via')
                g.fn(n, [('a', 'int')], 'int', '    return (+ 1 (Inner.%s a%s))' % (fn0[0][0], ' 3' if fn0[0][1] == 'int2' else ''),
                     '    assert (== (%s 2) (%s 2))' % (n, n))
                g.exports.append((n, 'int1'))
        if rng.random() < 0.4:
            # the module declares a libc extern and wraps it (import-table entries of the .nvm, extern prototypes of the C)
            ext, arg, res = rng.choice([('labs', '-7', '7'), ('toupper', '97', '65'), ('tolower', '65', '97')])
            header += 'extern fn %s(x: int) -> int\n\n' % ext
            n = g.fresh('ffi')
            g.fn(n, [('a', 'int')], 'int', '    return (%s a)' % ext, '    assert (== (%s %s) %s)' % (n, arg, res))
            g.exports.append((n, 'int1'))
        files[mname + '.nano'] = g.text(header=header, with_main=False)
        mods.append((mname, g))
    m = PG(rng)
    header = ''
    extra = []
    for mi, (mname, g) in enumerate(mods):
        alias = 'M%d' % mi
        ex = list(g.exports)
        rng.shuffle(ex)
        froms = ex[:max(1, len(ex) // 2)] if rng.random() < 0.8 else []
        # alias import first: with the selective import first the tools only see the selected names through the alias
        header += 'import "%s.nano" as %s\n' % (mname, alias)
        if froms:
            header += 'from "%s.nano" import %s\n' % (mname, ', '.join(f for f, _ in froms))
        for f, kind in ex:
            q = f if (f, kind) in froms and rng.random() < 0.7 else '%s.%s' % (alias, f)
            if kind == 'int2':
                extra.append('(println (%s %s %s))' % (q, m.const(), m.const()))
            elif kind == 'int1':
                extra.append('(println (%s %s))' % (q, m.const()))
            elif kind == 'int1s':
                extra.append('(println (%s %s))' % (q, rng.choice(['0', '2', '5', '9'])))
            else:
                extra.append('(println (%s %s))' % (q, m.lit()))
    for f in rng.sample(['arith', 'string', 'struct', 'loop', 'nested'], 3):
        m.add(f)
    files['main.nano'] = m.text(header=header + '\n', extra_main=extra)
    return dict(name=name, files=files, main='main.nano', kind='ok', flavor='mod%d' % nmods)


# ---- fixed witnesses (always part of the sweep; known-finding keys are derived from these names)
W_MIN = dict(name='w_min', kind='ok', flavor='witness', main='main.nano', files={'main.nano':
    'fn main() -> int {\n    (println "hi")\n    return 0\n}\n\nshadow main {\n    assert (== (main) 0)\n}\n'})
W_STRINGS = dict(name='w_strings', kind='ok', flavor='witness', main='main.nano', files={'main.nano':
    'fn tag(s: string) -> string {\n    return (+ "dup" (+ s "dup"))\n}\n\nshadow tag {\n    assert (== (tag "-") "dup-dup")\n}\n\n'
    'fn twice(n: int) -> int {\n    return (* n 2)\n}\n\nshadow twice {\n    assert (== (twice 4) 8)\n}\n\n'
    'fn main() -> int {\n    (println "dup")\n    (println (tag "dup"))\n    (println "other")\n    (println "dup")\n    (println (twice 21))\n'
    '    (println 2.5)\n    return 0\n}\n\nshadow main {\n    assert (== (main) 0)\n}\n'})
W_MOD = dict(name='w_mod', kind='ok', flavor='witness-mod', main='main.nano', files={
    'm1.nano': 'module m1\n\npub fn add(a: int, b: int) -> int {\n    return (+ a b)\n}\n\nshadow add {\n    assert (== (add 2 3) 5)\n}\n',
    'main.nano': 'import "m1.nano" as M\n\nfn main() -> int {\n    (println (M.add 1 2))\n    return 0\n}\n\nshadow main {\n    assert (== (main) 0)\n}\n'})
W_MOD2 = dict(name='w_mod2', kind='ok', flavor='witness-mod', main='main.nano', files={
    'm1.nano': 'module m1\n\npub fn add(a: int, b: int) -> int {\n    return (+ a b)\n}\n\nshadow add {\n    assert (== (add 2 3) 5)\n}\n',
    'm2.nano': 'module m2\n\npub fn greet(n: string) -> string {\n    return (+ "hi " n)\n}\n\nshadow greet {\n    assert (== (greet "a") "hi a")\n}\n',
    'main.nano': 'from "m2.nano" import greet\nimport "m1.nano" as M\n\nfn main() -> int {\n    (println (greet "dup"))\n    (println "dup")\n'
                 '    (println (M.add 1 2))\n    return 0\n}\n\nshadow main {\n    assert (== (main) 0)\n}\n'})
W_EXT = dict(name='w_ext', kind='ok', flavor='witness-mod', main='main.nano', files={
    'clib.nano': '/* thin FFI module */\nextern fn labs(x: int) -> int\nextern fn toupper(c: int) -> int\n\npub fn magnitude(x: int) -> int {\n    return (labs x)\n}\n\n'
                 'shadow magnitude {\n    assert (== (magnitude -3) 3)\n}\n',
    'main.nano': 'import "clib.nano"\n\nfn main() -> int {\n    let a: int = (magnitude -41)\n    let b: int = (toupper 97)\n    (println a)\n    (println b)\n'
                 '    return 0\n}\n\nshadow main {\n    assert (== (main) 0)\n}\n'})
# ---- top-level constants initialised by environment-dependent builtins (reviewer's observation): the C backend replaces every use of an
# immutable top-level `let` by the value the compile-time evaluator computed for it, so the generated C depends on the COMPILER's environment
# / working directory.  Keyed on these two witnesses (c19:genc:<name>:env-inlined); generated programs of flavor 'envconst' are counted.
_ENVMAIN = 'shadow main {\n    assert (== 1 1)\n}\n'
W_ENV = dict(name='w_env_getenv', kind='ok', flavor='witness-env', main='main.nano', files={'main.nano':
    'let L: int = (str_length (getenv "FOO"))\nlet H: int = (str_length (getenv "HOME"))\nlet U: bool = (== (getenv "NANO_UNRELATED") "1")\n\n'
    'fn twice() -> int {\n    return (+ L L)\n}\n\nshadow twice {\n    assert (>= (twice) 0)\n}\n\n'
    'fn main() -> int {\n    (println L)\n    (println H)\n    (println U)\n    (println (twice))\n    return 0\n}\n\n' + _ENVMAIN})
W_CWD = dict(name='w_env_getcwd', kind='ok', flavor='witness-env', main='main.nano', files={'main.nano':
    'let C: int = (str_length (getcwd))\n\nfn main() -> int {\n    (println C)\n    (println (+ C 1))\n    return 0\n}\n\n' + _ENVMAIN})
# constants DERIVED by pure arithmetic from an environment-dependent one (no call in their own initialiser): must not be folded either
W_DERIVED = dict(name='w_env_derived', kind='ok', flavor='witness-env', main='main.nano', files={'main.nano':
    'let PATH_MAX_BYTES: int = 4096\nlet CWD_LEN: int = (str_length (getcwd))\nlet PREFIX_LEN: int = (str_length (getenv "FOO"))\n'
    'let HALF: int = (/ PATH_MAX_BYTES 2)\nlet NAME_ROOM: int = (- PATH_MAX_BYTES CWD_LEN)\nlet PREFIX_ROOM: int = (- (- PATH_MAX_BYTES PREFIX_LEN) 1)\n'
    'let TWICE: int = (* NAME_ROOM 2)\nlet DEEP: bool = (> CWD_LEN 40)\nlet SHALLOW: bool = (not DEEP)\n\n'
    'fn fits(name: string) -> bool {\n    return (< (str_length name) NAME_ROOM)\n}\n\nshadow fits {\n    assert (fits "report.txt")\n}\n\n'
    'fn under_prefix(name: string) -> bool {\n    return (< (str_length name) PREFIX_ROOM)\n}\n\nshadow under_prefix {\n    assert (under_prefix "report.txt")\n}\n\n'
    'fn main() -> int {\n    (println HALF)\n    (println NAME_ROOM)\n    (println TWICE)\n    (println SHALLOW)\n    (println (fits "a.out"))\n    (println (under_prefix "a.out"))\n    return 0\n}\n\n' + _ENVMAIN})
ENV_WITNESSES = ('w_env_getenv', 'w_env_getcwd', 'w_env_derived')
ENV_MENU = [('int', '(str_length (getenv "FOO"))'), ('int', '(str_length (getenv "HOME"))'), ('int', '(str_length (getenv "TZ"))'), ('int', '(str_length (getcwd))'),
            ('bool', '(== (getenv "NANO_UNRELATED") "1")'), ('bool', '(== (getenv "LANG") "C")'), ('float', '(cast_float (str_length (getenv "FOO")))'),
            ('int', '(+ (str_length (getenv "TERM")) (str_length (getcwd)))'), ('bool', '(> (str_length (getcwd)) 40)')]


def gen_envconst(rng, name):
    """program whose top-level immutable constants are initialised by getenv / getcwd expressions AND chains of constants derived from them
    (depth 1-3) by pure arithmetic, comparison, negation, `not`, `and`, `cond`, mixed with literal constants; a derived constant is also used as
    the size of a global array, only inside a helper function, and in a shadow assertion; every constant is printed by main."""
    consts = []                # (name, type, expr, depth)

    def add(ty, ex, depth):
        n = 'K%d' % len(consts); consts.append((n, ty, ex, depth)); return n
    for ty, ex in rng.sample(ENV_MENU, rng.randrange(1, 3)):
        add(ty, ex, 0)
    if not any(c[1] == 'int' for c in consts):
        add('int', rng.choice(['(str_length (getcwd))', '(str_length (getenv "FOO"))', '(str_length (getenv "HOME"))']), 0)
    lit_i = add('int', str(rng.choice([4096, 100, 7, 65536])), 0)
    lit_b = add('bool', rng.choice(['true', 'false']), 0)
    ints = lambda: [c for c in consts if c[1] == 'int']
    bools = lambda: [c for c in consts if c[1] == 'bool']
    envdep = set(c[0] for c in consts if 'get' in c[2])
    for depth in range(1, rng.randrange(2, 5)):
        for _ in range(rng.randrange(1, 4)):
            # at least one operand whose value comes (directly or not) from the environment
            src = rng.choice([c for c in ints() if c[0] in envdep])
            other = rng.choice(ints())
            form = rng.choice(['sub', 'mul', 'neg', 'mixlit', 'addneg', 'cmp', 'eq', 'not', 'and', 'cond', 'unary'])
            if form == 'sub': n = add('int', '(- %s %s)' % (other[0], src[0]), depth)
            elif form == 'mul': n = add('int', '(* %s %d)' % (src[0], rng.randrange(2, 9)), depth)
            elif form == 'neg': n = add('int', '(- 0 %s)' % src[0], depth)
            elif form == 'unary': n = add('int', '(- %s)' % src[0], depth)
            elif form == 'mixlit': n = add('int', '(+ (- %s %s) %d)' % (lit_i, src[0], rng.randrange(1, 50)), depth)
            elif form == 'addneg': n = add('int', '(+ (- 0 %s) %s)' % (src[0], other[0]), depth)
            elif form == 'cmp': n = add('bool', '(> %s %d)' % (src[0], rng.choice([3, 10, 40, 100])), depth)
            elif form == 'eq': n = add('bool', '(== %s %s)' % (src[0], other[0]), depth)
            elif form == 'cond': n = add('int', '(cond ((> %s %d) %d) (else %d))' % (src[0], rng.choice([5, 20, 40]), rng.randrange(1, 9), rng.randrange(10, 19)), depth)
            else:
                bsrc = [c for c in bools() if c[0] in envdep]
                if not bsrc:
                    n = add('bool', '(< %s %d)' % (src[0], rng.choice([8, 33])), depth)
                elif form == 'not': n = add('bool', '(not %s)' % rng.choice(bsrc)[0], depth)
                else: n = add('bool', '(and %s (> %s 2))' % (rng.choice(bsrc)[0], src[0]), depth)
            envdep.add(n)
    derived_i = [c for c in consts if c[3] > 0 and c[1] == 'int']
    lines = ['let %s: %s = %s' % (n, ty, ex) for n, ty, ex, _ in consts]
    uses = []
    for n, ty, ex, d in consts:
        uses.append('(println %s)' % n)
        if ty == 'int' and rng.random() < 0.4: uses.append('(println (* %s %d))' % (n, rng.randrange(2, 9)))
        if ty == 'bool' and rng.random() < 0.5:
            uses.append('if (== %s true) {\n        (println "yes_%s")\n    } else {\n        (println "no_%s")\n    }' % (n, n, n))
    fn = ''
    if derived_i:
        d0 = rng.choice(derived_i)[0]; d1 = rng.choice(derived_i)[0]
        # used only inside a helper, and in a shadow assertion
        fn += 'fn helper() -> int {\n    return (+ %s 1)\n}\n\nshadow helper {\n    assert (== (helper) (+ %s 1))\n    assert (== %s %s)\n}\n\n' % (d0, d0, d1, d1)
        uses.append('(println (helper))')
        # as the size of a global array (the size is small and non-negative whatever the environment)
        lines.append('let ARR: array<int> = (array_new (+ 2 (%% (* %s %s) 5)) 0)' % (d1, d1))
        uses.append('(println (array_length ARR))')
    rng.shuffle(uses)
    src = '\n'.join(lines) + '\n\n' + fn + 'fn main() -> int {\n' + '\n'.join('    ' + u for u in uses) + '\n    return 0\n}\n\n' + _ENVMAIN
    return dict(name=name, files={'main.nano': src}, main='main.nano', kind='ok', flavor='envconst',
                shape=dict(constants=len(consts), max_depth=max(c[3] for c in consts), derived=sum(1 for c in consts if c[3] > 0)))


def mask_literals(data):
    """generated C with every integer / float / boolean literal replaced: two texts that differ only by inlined compile-time values become equal"""
    s = data.decode('utf-8', 'replace') if isinstance(data, bytes) else (data or '')
    return re.sub(r'\b\d+LL\b|\btrue\b|\bfalse\b|(?<![\w.])-?\d+(?:\.\d+)?(?:e[+-]?\d+)?(?![\w.])', '#', s)


WITNESSES = [W_MIN, W_STRINGS, W_MOD, W_MOD2, W_EXT, W_ENV, W_CWD, W_DERIVED]
PATH_WITNESS = 'w_mod'        # the input-path-spelling finding is keyed on this program

_ILL_TAIL = '\nfn main() -> int {\n    (println (f 1 2))\n    return 0\n}\n\nshadow main {\n    assert (== (main) 0)\n}\n'
ILL = [
    dict(name='ill_argcount_few', kind='ill', flavor='ill', main='main.nano', files={'main.nano':
        'fn f(a: int, b: int) -> int {\n    return (+ a b)\n}\n\nshadow f {\n    assert (== (f 1 2) 3)\n}\n'
        '\nfn main() -> int {\n    (println (f 1))\n    return 0\n}\n\nshadow main {\n    assert (== (main) 0)\n}\n'}),
    dict(name='ill_ret_string', kind='ill', flavor='ill', main='main.nano', files={'main.nano':
        'fn f(a: int, b: int) -> int {\n    return "not an int"\n}\n\nshadow f {\n    assert (== (f 1 2) 3)\n}\n' + _ILL_TAIL}),
    dict(name='ill_unknown_ident', kind='ill', flavor='ill', main='main.nano', files={'main.nano':
        'fn f(a: int, b: int) -> int {\n    return (+ a undefined_thing)\n}\n\nshadow f {\n    assert (== (f 1 2) 3)\n}\n' + _ILL_TAIL}),
    dict(name='ill_argcount', kind='ill', flavor='ill', main='main.nano', files={'main.nano':
        'fn f(a: int, b: int) -> int {\n    return (+ a b)\n}\n\nshadow f {\n    assert (== (f 1 2) 3)\n}\n'
        '\nfn main() -> int {\n    (println (f 1 2 3))\n    return 0\n}\n\nshadow main {\n    assert (== (main) 0)\n}\n'}),
]


def gen_ill(rng, name):
    """an accepted generated program + one ill-typed function appended (in a two-module setting half of the time)."""
    base = gen_multi(rng, name, 1) if rng.random() < 0.5 else gen_single(rng, name, 'mixed')
    bad = rng.choice(['fn zz_bad(a: int) -> int {\n    return "%s"\n}\n' % rng.choice(['s', 'dup']),
                      'fn zz_bad(a: int) -> int {\n    return (+ a no_such_name_%d)\n}\n' % rng.randrange(100),
                      'fn zz_bad(a: int) -> int {\n    return (zz_bad a %d)\n}\n' % rng.randrange(10),
                      'fn zz_bad(a: int) -> string {\n    return (* a 2)\n}\n'])
    base['files']['main.nano'] += '\n' + bad + '\nshadow zz_bad {\n    assert (== 1 1)\n}\n'
    base['kind'] = 'ill'; base['flavor'] = 'ill-gen'
    return base


# ------------------------------------------------------------------------------------------------ configurations
BASE = dict(axis='baseline', dir='d0', file_arg='rel', cwd='progdir', tool='abs', tmpdir='tmpA', env='base', aslr='on',
            malloc_perturb=None, build='plain', mtime=FIXED_MTIME, deterministic=None, keep_c=False, delay=0.0, real_cc=False, rep=0)
DIRS = ['d0', 'a_considerably_longer_directory_name_that_shifts_every_path_length_0123456789_abcdefghijklmnopqrstuvwxyz',
        'n/e/s/t/e/d/deeper', 'Z']
TMPDIRS = ['tmpA', 'tmp_B_with_a_longer_name_0123456789', 't']
ENVS = ['base', 'foo', 'locale', 'locale_c', 'home', 'bigenv', 'emptyenv', 'tz']
AXES = ['dir', 'file_arg', 'cwd', 'tool', 'tmpdir', 'env', 'aslr', 'malloc_perturb', 'build', 'mtime', 'deterministic', 'keep_c',
        'repeat', 'parallel', 'late', 'real_cc', 'combo']


def make_configs(rng, thorough, setarch_ok, asan_ok):
    cfgs = []

    def add(axis, **kw):
        c = dict(BASE); c.update(kw); c['axis'] = axis
        c['id'] = 'c%02d_%s' % (len(cfgs), re.sub(r'[^a-z_]', '', axis))
        cfgs.append(c)
        return c
    add('baseline')
    for d in DIRS[1:]:
        add('dir', dir=d)
    add('file_arg', file_arg='dotrel')
    add('file_arg', file_arg='abs')
    add('file_arg', file_arg='abs', cwd='elsewhere')
    add('file_arg', file_arg='abs', cwd='elsewhere', dir=DIRS[1])
    add('cwd', file_arg='abs', cwd='progdir_then_elsewhere')     # same absolute path, two working directories (compared with each other, raw)
    add('tool', tool='rel')
    add('tool', tool='path')
    for t in TMPDIRS[1:]:
        add('tmpdir', tmpdir=t)
    for e in ENVS[1:]:
        add('env', env=e)
    if setarch_ok:
        add('aslr', aslr='off')
    for m in (0, 85, 170, 255):
        add('malloc_perturb', malloc_perturb=m)
    if asan_ok:
        add('build', build='asan')
        if setarch_ok:
            add('build', build='asan', aslr='off')
    add('mtime', mtime=1)
    add('mtime', mtime=None)
    add('deterministic', deterministic='1')
    add('keep_c', keep_c=True)
    for r in (1, 2, 3):
        add('repeat', rep=r)                     # same absolute path, same everything: only pid / time / address-space layout change
    for r in (0, 1, 2):
        add('parallel', rep=r, dir='par%d' % r)  # three compilations at the same moment (sibling directories)
    add('late', delay=1.15)
    # random multi-axis combinations (never the input-path spelling: that axis is classified on its own)
    for _ in range(12 if thorough else 4):
        kw = dict(dir=rng.choice(DIRS), tool=rng.choice(['abs', 'rel', 'path']), tmpdir=rng.choice(TMPDIRS), env=rng.choice(ENVS),
                  aslr=rng.choice(['on', 'off']) if setarch_ok else 'on', malloc_perturb=rng.choice([None, 0, 85, 170, 255]),
                  build=rng.choice(['plain', 'plain', 'asan']) if asan_ok else 'plain', mtime=rng.choice([FIXED_MTIME, 1, None]),
                  deterministic=rng.choice([None, '1']))
        add('combo', **kw)
    return cfgs


def differing_axes(cfg):
    return sorted(k for k in BASE if k not in ('axis',) and cfg.get(k, BASE[k]) != BASE[k])


# ------------------------------------------------------------------------------------------------ running one configuration
class Ctx:
    def __init__(self, ck, bins, scratch):
        self.ck = ck
        self.bins = bins            # {'plain': {'nanoc': path, 'nano_virt': path}, 'asan': {...}}
        self.scratch = scratch
        self.arch = platform.machine()
        os.makedirs(scratch, exist_ok=True)
        for t in TMPDIRS:
            os.makedirs(os.path.join(scratch, t), exist_ok=True)
        for d in ('elsewhere', 'home_alt', 'p'):
            os.makedirs(os.path.join(scratch, d), exist_ok=True)
        self.fakecc = os.path.join(scratch, 'fakecc')
        with open(self.fakecc, 'w') as f:
            f.write('#!/bin/sh\nexit 0\n')
        os.chmod(self.fakecc, 0o755)

    def env(self, cfg, build):
        if cfg['env'] == 'emptyenv':
            e = {'PATH': '/usr/bin:/bin'}
        else:
            e = dict(os.environ)
            for k in ('NANO_DETERMINISTIC', 'NANO_MODULE_PATH', 'NANO_VERBOSE_BUILD', 'MALLOC_PERTURB_', 'CC', 'NANO_CC', 'TMPDIR',
                      'NANO_VIRT_LIB', 'LC_ALL', 'LANG', 'LC_NUMERIC', 'TZ'):
                e.pop(k, None)
            e['LANG'] = 'C.UTF-8'
        e['TMPDIR'] = os.path.join(self.scratch, cfg['tmpdir'])
        if not cfg.get('real_cc'):
            e['NANO_CC'] = self.fakecc
        v = cfg['env']
        if v == 'foo':
            e.update(FOO='bar baz', NANO_UNRELATED='1', COLUMNS='10', TERM='dumb', NO_COLOR='1')
        elif v == 'locale':
            e.update(LANG='de_DE.UTF-8', LC_ALL='tr_TR.UTF-8', LC_NUMERIC='de_DE.UTF-8')
        elif v == 'locale_c':
            e.update(LANG='C', LC_ALL='C')
        elif v == 'home':
            e['HOME'] = os.path.join(self.scratch, 'home_alt')
        elif v == 'bigenv':
            e['C19_STACK_PAD'] = 'x' * 100003
        elif v == 'tz':
            e['TZ'] = 'Pacific/Kiritimati'
        if cfg['malloc_perturb'] is not None:
            e['MALLOC_PERTURB_'] = str(cfg['malloc_perturb'])
        if cfg['deterministic'] is not None:
            e['NANO_DETERMINISTIC'] = str(cfg['deterministic'])
        if build == 'asan':
            e['ASAN_OPTIONS'] = 'detect_leaks=0:abort_on_error=0'
            e['UBSAN_OPTIONS'] = 'print_stacktrace=0'
        if cfg['tool'] == 'path':
            e['PATH'] = ':'.join(sorted(set(os.path.dirname(t) for t in self.bins[build].values()))) + ':/usr/bin:/bin'
        return e


def _norm_spelling(data, prefix, relnames):
    """delete `prefix` in front of the program's own file names (bytes)."""
    if not prefix:
        return data
    for rn in sorted(relnames, key=len, reverse=True):
        data = data.replace(prefix + rn.encode(), rn.encode())
    return data


def _one_pass(cx, prog, cfg, rundir, cwd_kind):
    """both tools once, from the given kind of working directory; outputs are read and then deleted."""
    build = cfg['build']
    bins = cx.bins[build]
    res = dict(cfg_id=cfg['id'], nvm=None, genc=None, diag_virt=None, diag_nanoc=None, rc_virt=None, rc_nanoc=None,
               san=None, timeout=[], native=None, spelling_prefix=b'', rundir=rundir, cwd_kind=cwd_kind)
    cwd = rundir if cwd_kind == 'progdir' else os.path.join(cx.scratch, 'elsewhere')
    fa = cfg['file_arg']
    pre = {'rel': '', 'dotrel': './', 'abs': rundir + '/'}[fa]
    res['spelling_prefix'] = pre.encode()
    src = pre + prog['main']
    env = cx.env(cfg, build)
    wrap = ['setarch', cx.arch, '-R'] if cfg['aslr'] == 'off' else []
    outs = {}
    for name in ('nano_virt', 'nanoc'):
        t = bins[name]
        if cfg['tool'] == 'rel':
            t = os.path.relpath(t, cwd)
        elif cfg['tool'] == 'path':
            t = name
        if name == 'nano_virt':
            cmd = wrap + [t, src, '--emit-nvm', '-o', pre + 'out.nvm']
        else:
            cmd = wrap + [t, src, '-o', pre + 'out_bin'] + (['--keep-c'] if cfg['keep_c'] else ['-S'])
        rc, o, e = vlib.sh(cmd, timeout=TOOL_TIMEOUT, cwd=cwd, env=env)
        if rc == -9:
            res['timeout'].append(name)
        if build == 'asan' and re.search(r'AddressSanitizer|LeakSanitizer|runtime error:|UndefinedBehaviorSanitizer', e):
            res['san'] = (res['san'] or '') + '[%s] %s\n' % (name, e[-2500:])
        txt = 'rc=%s\n--stdout--\n%s\n--stderr--\n%s' % (rc, o, e)
        subs = [(rundir + '/', '@DIR@/'), (rundir, '@DIR@'), (os.path.join(cx.scratch, 'elsewhere'), '@CWD@'),
                (env['TMPDIR'], '@TMP@'), (bins[name], '@TOOL@'), (cx.scratch, '@SCRATCH@')]
        if t != bins[name] and '/' in t:
            subs.insert(4, (t, '@TOOL@'))
        for x, y in subs:
            txt = txt.replace(x, y)
        if cfg['tool'] == 'path':
            txt = re.sub(r'(?m)^(Usage: |usage: )%s\b' % name, r'\1@TOOL@', txt)
        if fa == 'dotrel':
            txt = _norm_spelling(txt.encode(), b'./', prog['files'].keys()).decode('utf-8', 'replace')
        elif fa == 'abs':
            txt = _norm_spelling(txt.encode(), b'@DIR@/', list(prog['files'].keys()) + ['out.nvm', 'out_bin']).decode('utf-8', 'replace')
        txt = re.sub(r'nanoc_\d+_', 'nanoc_@PID@_', txt)
        res['diag_virt' if name == 'nano_virt' else 'diag_nanoc'] = txt
        res['rc_virt' if name == 'nano_virt' else 'rc_nanoc'] = rc
        outs[name] = os.path.join(rundir, 'out.nvm' if name == 'nano_virt' else 'out_bin')
    p = outs['nano_virt']
    if os.path.isfile(p):
        res['nvm'] = open(p, 'rb').read()
    p = (outs['nanoc'] + '.c') if cfg['keep_c'] else os.path.join(rundir, prog['main'] + '.genC')
    if os.path.isfile(p):
        res['genc'] = open(p, 'rb').read()
    if cfg.get('real_cc') and os.path.isfile(outs['nanoc']):
        res['native'] = hashlib.sha256(open(outs['nanoc'], 'rb').read()).hexdigest()
    # anything else the tools left in the source directory or the working directory (names only; e.g. obj/)
    left = []
    for root, ds, fs in os.walk(rundir):
        for f in fs:
            left.append(os.path.relpath(os.path.join(root, f), rundir))
            if os.path.relpath(os.path.join(root, f), rundir) not in prog['files']:
                os.unlink(os.path.join(root, f))
    res['files_left'] = sorted(left)
    return res


def run_config(cx, prog, cfg, t_base=None):
    """Compile prog under cfg with both tools.  Returns a dict of artifacts (bytes/None) and normalised diagnostics.
    The sources live in <scratch>/p/<program>/<cfg['dir']>: every configuration that does not vary the `dir` axis uses the
    very same absolute path (so the caller must run the configurations of one program one after the other).
    cfg['cwd'] = 'progdir' | 'elsewhere' | 'progdir_then_elsewhere' (two passes, second one in res['second'])."""
    rundir = os.path.join(cx.scratch, 'p', prog['name'], cfg['dir'])
    res = dict(cfg_id=cfg['id'], nvm=None, genc=None, diag_virt=None, diag_nanoc=None, rc_virt=None, rc_nanoc=None,
               san=None, timeout=[], native=None, spelling_prefix=b'', rundir=rundir)
    try:
        if os.path.exists(rundir):
            shutil.rmtree(rundir, ignore_errors=True)
        os.makedirs(rundir)
        for rn, text in prog['files'].items():
            p = os.path.join(rundir, rn)
            with open(p, 'w') as f:
                f.write(text)
            if cfg['mtime'] is not None:
                os.utime(p, (cfg['mtime'], cfg['mtime']))
        if cfg.get('delay'):
            # "a later time": at least cfg['delay'] seconds after the baseline run of this program (crosses a time(NULL) tick)
            wait = cfg['delay'] - (time.time() - t_base) if t_base else cfg['delay']
            if wait > 0:
                time.sleep(wait)
        two = cfg['cwd'] == 'progdir_then_elsewhere'
        res = _one_pass(cx, prog, cfg, rundir, 'progdir' if two else cfg['cwd'])
        if two:
            res['second'] = _one_pass(cx, prog, cfg, rundir, 'elsewhere')
            res['timeout'] += res['second']['timeout']
            if res['second']['san']:
                res['san'] = (res['san'] or '') + res['second']['san']
    except Exception as ex:          # never raise out of a worker
        res['exception'] = '%s: %s' % (type(ex).__name__, ex)
    finally:
        shutil.rmtree(rundir, ignore_errors=True)
    return res


def run_program(cx, prog, cfgs, t_base):
    """all configurations of one program: serially in one directory, except the `parallel` group (simultaneously, sibling directories)."""
    out = {}
    try:
        par = [c for c in cfgs if c['axis'] == 'parallel']
        if par:
            with ThreadPoolExecutor(max_workers=len(par)) as tp:
                for c, r in zip(par, tp.map(lambda c: run_config(cx, prog, c, t_base), par)):
                    out[c['id']] = r
        for c in sorted((c for c in cfgs if c['axis'] != 'parallel'), key=lambda c: bool(c.get('delay'))):
            out[c['id']] = run_config(cx, prog, c, t_base)
    except Exception as ex:
        for c in cfgs:
            out.setdefault(c['id'], dict(exception='%s: %s' % (type(ex).__name__, ex), timeout=[], san=None))
    finally:
        shutil.rmtree(os.path.join(cx.scratch, 'p', prog['name']), ignore_errors=True)
    return out


def first_diff(a, b):
    a = a or b''; b = b or b''
    n = min(len(a), len(b))
    k = next((i for i in range(n) if a[i] != b[i]), n)
    lo = max(0, k - 16)
    return k, a[lo:k + 32].hex(), b[lo:k + 32].hex()


def _as_bytes(kind, r):
    v = r.get(kind)
    if v is None:
        return None
    return v if isinstance(v, bytes) else v.encode('utf-8', 'replace')


def compare(prog, kind, base, res):
    """-> ('same'|'path_embedding'|'differs'|'missing', detail dict or None)"""
    a = _as_bytes(kind, base); b = _as_bytes(kind, res)
    if a == b:
        return 'same', None
    if a is None or b is None:
        return 'missing', dict(a_present=a is not None, b_present=b is not None, first_diff_offset=0, a_hex_window=(a or b'')[:48].hex(),
                               b_hex_window=(b or b'')[:48].hex())
    k, ha, hb = first_diff(a, b)
    det = dict(first_diff_offset=k, a_hex_window=ha, b_hex_window=hb, a_len=len(a), b_len=len(b),
               a_text_window=a[max(0, k - 60):k + 60].decode('utf-8', 'replace') if kind != 'nvm' else None,
               b_text_window=b[max(0, k - 60):k + 60].decode('utf-8', 'replace') if kind != 'nvm' else None)
    if kind == 'genc':
        # (.nvm gets no such tolerance: the recorded finding is about generated C only, "the .nvm is unaffected")
        na = _norm_spelling(a, base.get('spelling_prefix', b''), prog['files'].keys())
        nb = _norm_spelling(b, res.get('spelling_prefix', b''), prog['files'].keys())
        if na == nb:
            return 'path_embedding', det
    elif base.get('spelling_prefix', b'') != res.get('spelling_prefix', b''):
        # diagnostics headers are `-- TITLE ------...--- <path as spelled>` padded to a fixed column: the number of dashes is a
        # function of the length of the path text, i.e. part of the path; normalise it together with the path
        if _HDR.sub(rb'\1 --- ', a) == _HDR.sub(rb'\1 --- ', b):
            return 'header_padding', det
    return 'differs', det


_HDR = re.compile(rb'(?m)^(-- [A-Z][A-Z0-9 ]*?) -{3,} ')


KINDS = ('nvm', 'genc', 'diag_virt', 'diag_nanoc')


def public_cfg(cfg):
    return {k: v for k, v in cfg.items()}


# ------------------------------------------------------------------------------------------------ the sweep
def _setarch_ok():
    rc, o, e = vlib.sh(['setarch', platform.machine(), '-R', 'true'], timeout=20)
    return rc == 0


def _bins_of(b):
    return dict(nanoc=b.bin('nanoc'), nano_virt=b.bin('nano_virt'))


def sweep(ck, b, _bins_override=None):
    """Run the configuration sweep.  Returns (rule_string, artifacts).  Never raises on tool failures."""
    t0 = time.time()
    rng = ck.rng
    scratch = os.path.join(vlib.BUILD, 'c19_sweep', 'run_%d_%d' % (os.getpid(), ck.seed))
    shutil.rmtree(scratch, ignore_errors=True)
    info = dict(programs=0, dropped_programs=0, dropped_names=[], setarch_available=False, asan_available=False)
    artifacts = []
    pool_ref = [None]
    try:
        bins = {'plain': _bins_of(b)}
        if _bins_override:
            bins['plain'].update(_bins_override)
        try:
            ba = ck.build('asan')
            bins['asan'] = _bins_of(ba)
            info['asan_available'] = all(os.path.exists(p) for p in bins['asan'].values())
        except Exception as ex:
            info['asan_build_error'] = str(ex)[-500:]
            ck.assumptions.append('C19 sweep: asan build of the tools not available (%s); that memory layout was skipped' % str(ex)[-200:])
        info['setarch_available'] = _setarch_ok()
        rc_l, o_l, _e = vlib.sh(['locale', '-a'], timeout=20)
        info['locales_installed'] = o_l.split()[:12] if rc_l == 0 else None      # the locale axis only changes the variables when none is installed
        if not info['setarch_available']:
            ck.assumptions.append('C19 sweep: `setarch -R` does not work in this sandbox; ASLR-off configurations were skipped')
        cx = Ctx(ck, bins, scratch)
        cfgs = make_configs(rng, ck.thorough, info['setarch_available'], info['asan_available'])
        base_cfg = cfgs[0]

        # ---- programs
        n_random = 56 if ck.thorough else 11
        order = ['strings', 'funcs', 'types', 'mod1', 'arrflt', 'mod2', 'loops', 'mixed', 'mod2', 'mixed', 'mod1']
        cands = [dict(p) for p in WITNESSES]
        for i in range(n_random):
            fl = order[i % len(order)]
            name = 'r%d_%02d_%s' % (ck.seed, i, fl)
            cands.append(gen_multi(rng, name, int(fl[3])) if fl.startswith('mod') else gen_single(rng, name, fl))
        for i in range(12 if ck.thorough else 4):
            cands.append(gen_envconst(rng, 'r%d_e%02d_envconst' % (ck.seed, i)))
        ills = [dict(p) for p in ILL] + [gen_ill(rng, 'ill_r%d_%02d' % (ck.seed, i)) for i in range(6 if ck.thorough else 1)]

        pool = pool_ref[0] = ThreadPoolExecutor(max_workers=WORKERS)
        # phase 1: baseline of every candidate (this is also the acceptance check); regenerate refused random programs
        progs = []
        base_res = {}
        base_time = {}
        attempt = 0
        pending = cands + ills
        while pending and attempt < 4:
            results = list(pool.map(lambda p: run_config(cx, p, base_cfg), pending))
            for p in pending:
                base_time[p['name']] = time.time()
            nxt = []
            for p, r in zip(pending, results):
                okc = (r['rc_virt'] == 0 and r['rc_nanoc'] == 0 and r['nvm'] and r['genc'])
                if p['kind'] == 'ok' and not okc:
                    if p['flavor'].startswith('witness'):
                        ck.fail('c19:refused:%s' % p['name'], 'fixed witness program is refused by a tool: rc_virt=%s rc_nanoc=%s' % (r['rc_virt'], r['rc_nanoc']),
                                dict(program=p['files'], main=p['main'], config_a=public_cfg(base_cfg), config_b=None, kind='refused',
                                     diag_virt=(r['diag_virt'] or '')[-1500:], diag_nanoc=(r['diag_nanoc'] or '')[-1500:]))
                        continue
                    info['dropped_programs'] += 1
                    info['dropped_names'].append(dict(name=p['name'], rc_virt=r['rc_virt'], rc_nanoc=r['rc_nanoc'],
                                                      why=((r['diag_nanoc'] or '') + (r['diag_virt'] or ''))[-300:]))
                    fl = p['flavor']
                    name = '%s_x%d' % (p['name'].split('_x')[0], attempt + 1)
                    nxt.append(gen_envconst(rng, name) if fl == 'envconst' else gen_multi(rng, name, int(fl[3])) if fl.startswith('mod') else gen_single(rng, name, fl))
                    continue
                if p['kind'] == 'ill' and (r['rc_virt'] == 0 or r['rc_nanoc'] == 0):
                    info.setdefault('ill_accepted_by', []).append(dict(name=p['name'], rc_virt=r['rc_virt'], rc_nanoc=r['rc_nanoc']))
                progs.append(p); base_res[p['name']] = r
            pending = nxt
            attempt += 1
        info['dropped_names'] = info['dropped_names'][:10]
        okprogs = [p for p in progs if p['kind'] == 'ok']
        for p in okprogs:
            r = base_res[p['name']]
            artifacts.append(dict(name=p['name'], source_files=dict(p['files']), nvm=r['nvm'], genc=r['genc']))

        # phase 2: one worker per program runs all its configurations (same directory, one after the other; the `parallel`
        # group simultaneously); programs run in parallel with each other.  Plus two real-cc runs of one program.
        rc_cfgs = []
        per_prog = {p['name']: list(cfgs[1:]) for p in progs}
        if okprogs:
            wp = next((p for p in okprogs if p['name'] == 'w_strings'), okprogs[0])
            for det in (None, '1'):
                c = dict(BASE); c.update(axis='real_cc', real_cc=True, deterministic=det, id='c9%d_realcc' % len(rc_cfgs))
                rc_cfgs.append(c); per_prog[wp['name']].append(c)
            progs.sort(key=lambda p: p['name'] != wp['name'])       # the slow one first
        outs = list(pool.map(lambda p: run_program(cx, p, per_prog[p['name']], base_time[p['name']]), progs))
        pool.shutdown()
        jobs, results = [], []
        for p, o in zip(progs, outs):
            for c in per_prog[p['name']]:
                jobs.append((p, c)); results.append(o[c['id']])

        # ---- evaluate (single thread)
        per_kind = {k: dict(compared=0, nontrivial=0, differing=0) for k in KINDS}
        per_axis = {}
        path_embed = {}
        env_inlined = {}
        header_pad = set()
        witness_fails = []
        diffs_by_prog_kind = {}
        for (p, c), r in zip(jobs, results):
            base = base_res[p['name']]
            axes = differing_axes(c)
            axis = c['axis'] if c['axis'] != 'combo' else 'combo(' + '+'.join(axes) + ')'
            if r.get('exception'):
                ck.fail('c19:harness:%s:%s' % (p['name'], c['axis']), 'sweep worker raised: ' + r['exception'],
                        dict(program=p['files'], main=p['main'], config_a=public_cfg(base_cfg), config_b=public_cfg(c), kind='harness'))
                continue
            for tl in r['timeout']:
                ck.fail('c19:timeout:%s:%s:%s' % (p['name'], tl, axis), '%s timed out (%ds) under configuration axis %s although the baseline finished' % (tl, TOOL_TIMEOUT, axis),
                        dict(program=p['files'], main=p['main'], config_a=public_cfg(base_cfg), config_b=public_cfg(c), kind='timeout', tool=tl))
            if r['san']:
                ck.fail('c19:asan:%s' % p['name'], 'sanitizer report from the asan build of the tools while compiling %s' % p['name'],
                        dict(program=p['files'], main=p['main'], config_a=public_cfg(c), config_b=None, kind='asan', stderr=r['san'][-3000:]))
            pairs = [(base, r, axis, c['axis'], None)]
            if r.get('second'):
                # same absolute input path, working directory = source directory vs an unrelated directory: compared with each other
                pairs = [(base, r, 'file_arg', 'file_arg', None), (r, r['second'], 'cwd', 'cwd', 'passes')]
            for ref, got, axis, axis0, pairing in pairs:
              for kind in KINDS:
                if c.get('real_cc') and kind != 'genc':
                    continue            # the real compiler's own chatter is not a nanolang output
                nontrivial = bool(ref.get(kind))          # the reference run produced this artifact (diagnostics: always some text)
                ck.count((p['name'], kind, c['id'], axis), nontrivial)
                per_kind[kind]['compared'] += 1
                per_kind[kind]['nontrivial'] += 1 if nontrivial else 0
                pa = per_axis.setdefault(axis0, dict(compared=0, differing=0)); pa['compared'] += 1
                verdict, det = compare(p, kind, ref, got)
                if verdict == 'same':
                    continue
                if verdict == 'differs' and kind == 'genc' and p.get('flavor') in ('witness-env', 'envconst') and \
                        mask_literals(_as_bytes(kind, ref)) == mask_literals(_as_bytes(kind, got)):
                    env_inlined.setdefault(p['name'], set()).add(axis0)
                    pa['differing'] += 1
                    per_kind[kind]['differing'] += 1
                    if p['name'] not in ENV_WITNESSES:
                        # the env-inlining finding is fixed (b9b0697): no difference of a getenv/getcwd program is tolerated any more
                        ck.fail('c19:genc:%s:%s:env-inlined' % (p['name'], axis0),
                                'generated C of %s (top-level constants initialised from / derived from getenv, getcwd) differs on configuration axis %s only by literals: a compile-time value was pasted at a use site' % (p['name'], axis0),
                                dict(program=p['files'], main=p['main'], program_name=p['name'], config_a=public_cfg(c if pairing else base_cfg), config_b=public_cfg(c),
                                     kind=kind, verdict='env_inlined', pair=pairing, axis=axis0, **det))
                        continue
                    key = 'c19:genc:%s:env-inlined' % p['name']
                    what = ('generated C of %s depends on the compiler\'s %s: an immutable top-level `let` initialised by a non-literal expression (getenv / getcwd ...) is evaluated '
                            'at compile time and its VALUE is emitted as a literal at every use (e.g. nl_println_int(3LL)); the texts are equal once literals are masked; the .nvm '
                            'is unaffected and the NanoVM evaluates at run time' % (p['name'], 'environment' if 'getenv' in p['name'] else 'working directory'))
                    d = dict(program=p['files'], main=p['main'], program_name=p['name'], config_a=public_cfg(c if pairing else base_cfg), config_b=public_cfg(c),
                             kind=kind, verdict='env_inlined', pair=pairing, axis=axis0)
                    d.update(det)
                    ck.fail(key, what, d)
                    continue
                if verdict == 'header_padding':
                    header_pad.add(p['name'])
                    continue
                pa['differing'] += 1
                per_kind[kind]['differing'] += 1
                if verdict == 'path_embedding':
                    path_embed.setdefault(kind, set()).add(p['name'])
                    if p['name'] != PATH_WITNESS:
                        continue        # reported once, through the fixed minimal witness (stable key); counted in ck.extra
                    key = 'c19:%s:%s:input_path' % (kind, p['name'])
                    what = ('%s of %s depends on how the input path is spelled (main.nano vs ./main.nano vs /abs/dir/main.nano, i.e. also on the '
                            'directory the sources live in): the resolved path of each imported module is embedded '
                            '(___module_path_<m>() and a comment); equal again once the spelling prefix is removed' % (kind, p['name']))
                else:
                    key = 'c19:%s:%s:%s' % (kind, p['name'], axis)
                    what = '%s of %s differs between %s and configuration axis %s%s at offset %s' % (
                        kind, p['name'], 'the two passes' if pairing else 'baseline', axis,
                        ' (artifact missing on one side)' if verdict == 'missing' else '', det['first_diff_offset'])
                d = dict(program=p['files'], main=p['main'], program_name=p['name'], config_a=public_cfg(c if pairing else base_cfg),
                         config_b=public_cfg(c), kind=kind, verdict=verdict, pair=pairing)
                d.update(det)
                if kind.startswith('diag'):
                    d['a_text'] = (ref.get(kind) or '')[-1200:]; d['b_text'] = (got.get(kind) or '')[-1200:]
                diffs_by_prog_kind.setdefault((p['name'], kind), []).append(axis)
                if verdict == 'path_embedding':
                    witness_fails.append((c['file_arg'] != 'abs', len(witness_fails), key, what, d))     # prefer the absolute-path pair
                    continue
                ck.fail(key, what, d)
        for _, _, key, what, d in sorted(witness_fails, key=lambda t: t[:2]):
            ck.fail(key, what, d)          # (ck.fail keeps the first entry per key)
        # native binaries of the two real-cc runs (informational: the property quantifies over .nvm and generated C)
        natives = [r['native'] for (p, c), r in zip(jobs, results) if c.get('real_cc')]
        info['real_cc'] = dict(runs=len(natives), produced_binary=sum(1 for n in natives if n), native_sha256=natives,
                               native_equal_between_NANO_DETERMINISTIC_unset_and_1=(len(set(natives)) == 1 and all(natives)) if natives else None,
                               note='informational, outside the property (which quantifies over .nvm and generated C): on Linux the native binary '
                                    'embeds the temporary C file name $TMPDIR/nanoc_<pid>_<out>.c (and a build-id over it), so two native builds differ '
                                    'in the pid digits with or without NANO_DETERMINISTIC=1')
        for (p, c), r in zip(jobs, results):
            if c.get('real_cc') and not r['native'] and not r.get('exception'):
                ck.fail('c19:realcc:%s' % p['name'], 'real C compile of %s produced no binary (rc=%s)' % (p['name'], r['rc_nanoc']),
                        dict(program=p['files'], main=p['main'], config_a=public_cfg(c), config_b=None, kind='realcc', diag=(r['diag_nanoc'] or '')[-2000:]))
        left = set()
        for r in results:
            left.update(f.split('/')[0] for f in r.get('files_left', []))
        info['files_left_in_cwd_by_tools'] = sorted(left)[:20]

        nconf = len(cfgs) + len(rc_cfgs)
        for p in (okprogs[:2] + [q for q in okprogs if q['flavor'].startswith('mod')][:1]):
            r = base_res[p['name']]
            ck.sample(dict(program=p['name'], files=sorted(p['files']), nvm_sha256=hashlib.sha256(r['nvm']).hexdigest(), nvm_bytes=len(r['nvm']),
                           genc_sha256=hashlib.sha256(r['genc']).hexdigest(), genc_bytes=len(r['genc']), configurations=len(cfgs),
                           differing=sorted('%s:%s' % (k, a) for (n, k), ax in diffs_by_prog_kind.items() if n == p['name'] for a in ax)))
        ill_s = next((p for p in progs if p['kind'] == 'ill'), None)
        if ill_s:
            r = base_res[ill_s['name']]
            ck.sample(dict(program=ill_s['name'], rc_nanoc=r['rc_nanoc'], rc_virt=r['rc_virt'],
                           diag_nanoc_sha256=hashlib.sha256((r['diag_nanoc'] or '').encode()).hexdigest(),
                           diag_nanoc_tail=(r['diag_nanoc'] or '')[-200:], configurations=len(cfgs)))
        sizes_n = [len(base_res[p['name']]['nvm']) for p in okprogs]
        sizes_c = [len(base_res[p['name']]['genc']) for p in okprogs]
        info.update(programs=len(progs), accepted_programs=len(okprogs), ill_typed_programs=len(progs) - len(okprogs),
                    multi_module_programs=sum(1 for p in okprogs if len(p['files']) > 1),
                    program_flavors=sorted(set(p['flavor'] for p in progs)),
                    configs=nconf, config_ids=[c['id'] for c in cfgs], axes=sorted(set(c['axis'] for c in cfgs + rc_cfgs)),
                    tool_runs=2 * (len(jobs) + len(progs) + info['dropped_programs'] + sum(1 for r in results if r.get('second'))), per_kind=per_kind, per_axis=per_axis,
                    path_embedding_programs={k: sorted(v) for k, v in path_embed.items()},
                    env_inlined_programs={k: sorted(v) for k, v in env_inlined.items()},
                    envconst_shapes={p['name']: p.get('shape') for p in progs if p.get('flavor') == 'envconst'},
                    diag_header_padding_follows_path_length=sorted(header_pad),
                    nvm_bytes=dict(min=min(sizes_n), max=max(sizes_n), total=sum(sizes_n)) if sizes_n else None,
                    genc_bytes=dict(min=min(sizes_c), max=max(sizes_c), total=sum(sizes_c)) if sizes_c else None,
                    source_lines=dict(total=sum(t.count('\n') for p in okprogs for t in p['files'].values())),
                    baseline_config=public_cfg(base_cfg))
    except Exception as ex:
        import traceback
        ck.fail('c19:harness:sweep', 'configuration sweep aborted: %s: %s' % (type(ex).__name__, ex), dict(kind='harness', traceback=traceback.format_exc()[-3000:]))
    finally:
        if pool_ref[0] is not None:
            pool_ref[0].shutdown(wait=True)
        shutil.rmtree(scratch, ignore_errors=True)
        try:
            os.rmdir(os.path.dirname(scratch))
        except OSError:
            pass
    info['wall_s'] = round(time.time() - t0, 2)
    ck.extra['c19_sweep'] = info
    rule = ('configuration sweep: %s generated + fixed witness programs (string-pool duplicates, many functions, struct/enum/union+match, arrays, '
            'floats, loops, recursion, nested calls, 1-2 imported sibling modules incl. nested import; plus ill-typed programs for diagnostics) x %s '
            'configurations, each one axis away from a baseline (source directory name/depth, input path spelling rel/./abs and foreign cwd, tool via '
            'abs/rel/PATH, TMPDIR, unrelated env/locale/HOME/100kB env/empty env/TZ, ASLR off via setarch -R, MALLOC_PERTURB_ 0/85/170/255, ASan build of '
            'the tools, source mtime, NANO_DETERMINISTIC, --keep-c vs -S, 3 repeats in the very same directory, 3 simultaneous runs, a run >1 s later, same abs path from two cwds, real cc of one program) plus random multi-axis combinations; '
            'compared per configuration against the baseline: raw bytes of out.nvm, raw bytes of the generated C, and exit status+stdout+stderr of both '
            'tools with scratch paths normalised; non-trivial = accepted program with a non-empty artifact (diagnostics: any text); '
            'distinct = (program, artifact kind, configuration)' % (info.get('programs'), info.get('configs')))
    return rule, artifacts


# ------------------------------------------------------------------------------------------------ replay
def replay_sweep(ck, d):
    """Re-run exactly the program/configuration pair of a replay dict.  1 = the difference reproduces, 0 = not."""
    files = d.get('program')
    if isinstance(files, str):
        files = {'main.nano': files}
    if not files:
        print('replay_sweep: no program in the replay dict (kind=%s)' % d.get('kind'))
        return 0
    prog = dict(name=d.get('program_name') or 'replay', files=files, main=d.get('main', 'main.nano'), kind='ok', flavor='replay')
    ca, cb = d.get('config_a'), d.get('config_b')
    kind = d.get('kind')
    bins = {'plain': _bins_of(ck.build('plain'))}
    if any(c and c.get('build') == 'asan' for c in (ca, cb)):
        bins['asan'] = _bins_of(ck.build('asan'))
    scratch = os.path.join(vlib.BUILD, 'c19_sweep', 'replay_%d' % os.getpid())
    shutil.rmtree(scratch, ignore_errors=True)
    try:
        cx = Ctx(ck, bins, scratch)
        def norm(c, i):
            c2 = dict(BASE); c2.update(c); c2['id'] = 'rp%d_%s' % (i, re.sub(r'[^A-Za-z0-9_]', '', str(c.get('id', ''))))
            return c2
        if d.get('pair') == 'passes' and cb:
            ra = run_config(cx, prog, norm(cb, 1))          # one directory, two working directories
            rb = ra.get('second')
        else:
            ra = run_config(cx, prog, norm(ca, 0)) if ca else None
            rb = run_config(cx, prog, norm(cb, 1)) if cb else None
        print('program %s: files %s' % (prog['name'], sorted(files)))
        for tag, c, r in (('a', ca, ra), ('b', cb, rb)):
            if r:
                print('config_%s: %s' % (tag, {k: v for k, v in c.items() if k in ('axis', 'id') or BASE.get(k) != v}))
                print('  rc_virt=%s rc_nanoc=%s nvm=%s genc=%s timeout=%s%s' % (
                    r['rc_virt'], r['rc_nanoc'], r['nvm'] and hashlib.sha256(r['nvm']).hexdigest()[:16], r['genc'] and hashlib.sha256(r['genc']).hexdigest()[:16],
                    r['timeout'], ' exception=' + r['exception'] if r.get('exception') else ''))
        if kind == 'asan':
            bad = bool(ra and ra['san'])
            print(ra['san'] if bad else 'no sanitizer report')
            print('REPRODUCED' if bad else 'not reproduced'); return 1 if bad else 0
        if kind == 'timeout':
            bad = bool(rb and d.get('tool') in rb['timeout'])
            print('REPRODUCED' if bad else 'not reproduced'); return 1 if bad else 0
        if kind == 'refused':
            bad = bool(ra and not (ra['rc_virt'] == 0 and ra['rc_nanoc'] == 0))
            print((ra['diag_nanoc'] or '')[-600:]); print('REPRODUCED' if bad else 'not reproduced'); return 1 if bad else 0
        if kind == 'realcc':
            bad = bool(ra and not ra['native'])
            print('REPRODUCED' if bad else 'not reproduced'); return 1 if bad else 0
        if kind not in KINDS or not (ra and rb):
            print('replay_sweep: nothing to compare for kind=%s' % kind)
            return 0
        verdict, det = compare(prog, kind, ra, rb)
        print('kind=%s verdict=%s' % (kind, verdict))
        if det:
            print('  first difference at offset %s\n  a: %s\n  b: %s' % (det['first_diff_offset'], det['a_hex_window'], det['b_hex_window']))
            if det.get('a_text_window') is not None:
                print('  a text: %r\n  b text: %r' % (det['a_text_window'], det['b_text_window']))
        print('REPRODUCED' if verdict != 'same' else 'not reproduced')
        return 0 if verdict == 'same' else 1
    finally:
        shutil.rmtree(scratch, ignore_errors=True)
        try:
            os.rmdir(os.path.dirname(scratch))
        except OSError:
            pass
