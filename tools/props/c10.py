"""C10 -- stored and embedded bytecode modules run exactly like the in-memory module.
Proof: NV/Props/Properties_C10.v (deserialize(serialize m) = stamp m for every well-formed module, serialize idempotent,
the API keeps the string pool duplicate free, exit-status model of the four runners with the refutation witnesses).
Correspondence:
 (A) probes/nvm_probe.c builds generated modules through the real nvm_* API, serialises, loads, serialises again; every
     answer (built module, bytes, loaded module, bytes again) must equal the extracted model's, byte for byte;
 (B) compiler-produced .nvm files: real loader == model loader; re-serialising the loaded module gives the file back;
 (C) end to end: `nano_virt p.nano --run`, `nano_vm p.nvm`, wrapper executable from `nano_virt p.nano -o w`: stdout and
     exit status compared with each other and with the exit-status model (Driver/ExitStatus.v)."""
import os, json
from concurrent.futures import ThreadPoolExecutor
import vlib, nvmlib
import c10_limits

K_EXIT = 'c10:exit:nano_vm:main-result-dropped'
K_INIT2 = 'c10:wrapper:init-runs-twice'


def parse_rt(line):
    p = line.split(' # ')
    return p if len(p) == 4 else None


def body_of_dump(dump):
    """the part of a module dump that must survive the round trip: flags, entry, strings, code, functions, debug, imports"""
    parts = [x.strip() for x in dump.split('|')]
    h = parts[0].split()
    return (h[1], h[2]) + tuple(parts[2:])


def desc_of_dump(dump):
    """module description (for `rt`) that rebuilds the dumped module through the API"""
    parts = [x.strip() for x in dump.split('|')]
    h = parts[0].split()
    ops = []
    for s in parts[2].split()[1:]:
        ops.append('s ' + s)
    c = parts[3].split()
    if len(c) > 1 and c[1] != '-':
        ops.append('c ' + c[1])
    for f in parts[4].split()[1:]:
        ops.append('f ' + ' '.join(f.split(':')))
    for x in parts[5].split()[1:]:
        ops.append('d ' + ' '.join(x.split(':')))
    for x in parts[6].split()[1:]:
        a = x.split(':')
        ops.append('i %s %s %s %s %s' % (a[0], a[1], a[2], a[3], a[4] if a[4] else '-'))
    return '%s %s' % (h[1], h[2]) + ''.join(' ; ' + o for o in ops)


def e2e_one(args):
    b, name, src, d, env = args
    nvm = os.path.join(d, name + '.nvm'); w = os.path.join(d, name + '.wrap')
    r = dict(name=name)
    r['run'] = nvmlib.run_tool([b.bin('nano_virt'), src, '--run'], cwd=b.root, timeout=30)
    ok, err = nvmlib.compile_nvm(b, src, nvm)
    r['vm'] = nvmlib.run_tool([b.bin('nano_vm'), nvm], cwd=b.root, timeout=30) if ok else None
    if os.path.exists(w):
        os.unlink(w)
    rc, o, e = vlib.sh([b.bin('nano_virt'), src, '-o', w], timeout=120, cwd=b.root, env=env)
    r['wrap_build'] = (rc, (o + e)[-600:])
    r['wrap'] = nvmlib.run_tool([w], cwd=b.root, timeout=30) if rc == 0 and os.path.exists(w) else None
    r['nvm'] = open(nvm, 'rb').read() if ok else None
    return r


CAP = 12


def capped(ck, cat, key, what, replay):
    n = ck.extra.setdefault('failures_by_category', {})
    n[cat] = n.get(cat, 0) + 1
    if n[cat] <= CAP:
        ck.fail(key, what, replay)


def run(ck):
    b = ck.build('plain')
    ck.gen(['gen_nvmconsts', 'gen_runnerflags', 'gen_limits'])
    ck.prove()
    nvmlib.coqchk(ck)
    ref = ck.nvref('c10')
    probe = ck.probe('nvm_probe.c', 'asan')
    rng = ck.rng
    d = nvmlib.scratch('c10')
    dist = dict(generated_modules=0, wf_modules=0, with_dup_strings=0, with_null_params=0, sections_hist={}, compiled_files=0,
                e2e_programs=0, e2e_wrapper_built=0, bytes_serialised=0)

    # ---------------- (A) generated modules through the real API
    descs = []
    corpus = sorted(os.listdir(os.path.join(vlib.VERIF, 'corpus', 'C10'))) if os.path.isdir(os.path.join(vlib.VERIF, 'corpus', 'C10')) else []
    for fn in corpus:
        descs.append(open(os.path.join(vlib.VERIF, 'corpus', 'C10', fn)).read().strip())
    # hand-picked shapes first: empty module, only strings, only code, each section alone, duplicates, embedded NUL, NULL params
    descs += ['0 0', 'ffffffff ffffffff', '1 0 ; s -', '1 0 ; s - ; s -', '0 0 ; c 00', '0 0 ; f 0 0 0 0 0 0', '0 0 ; d 0 0',
              '0 0 ; i 0 0 0 0 -', '0 0 ; i 0 0 3 1 null', '0 0 ; i ffffffff ffffffff ffff ff ' + 'ab' * 0xffff,
              '3 1 ; s 6d61696e ; s 6d61696e ; s 6d61696e00 ; s 00 ; c 01 ; c 02 ; f ffffffff ffff ffffffff ffffffff ffff ffff']
    n = 25000 if ck.thorough else 1500
    descs += [nvmlib.gen_desc(rng, big=(i % 50 == 0)) for i in range(n)]
    lines = ['rt ' + x for x in descs]
    impl, prc, perr = nvmlib.probe_lines(probe, lines)
    if prc != 0:
        k = len(impl)
        ck.fail('c10:crash:' + nvmlib.fhash(lines[k].encode() if k < len(lines) else b'?'), 'nvm_probe crashed / sanitizer or leak report (rc=%s)' % prc,
                dict(input=lines[k][:4000] if k < len(lines) else None, stderr=perr[-3000:], engine='nvm_probe(asan)'))
    model = vlib.run_lines(ref, lines, timeout=1500)
    wf = vlib.run_lines(ref, ['wf ' + x for x in descs], timeout=1500)
    nbad = 0
    for dsc, a, m, w in zip(descs, impl, model, wf):
        dist['generated_modules'] += 1
        pa = parse_rt(a)
        ck.count(dsc, nontrivial=(';' in dsc))
        if a != m:
            nbad += 1
            if nbad <= 10:
                pm = parse_rt(m) or ['?'] * 4
                which = [nm for nm, x, y in zip(('built', 'bytes', 'loaded', 'bytes2'), pa or ['?'] * 4, pm) if x != y]
                ck.fail('c10:corr:rt:' + nvmlib.fhash(dsc.encode()), 'nvm_probe and model differ on a generated module (%s)' % ','.join(which),
                        dict(correspondence='nvm_probe vs nvref_c10', input='rt ' + dsc[:6000], differs=which, observed_impl=a[:3000], expected_model=m[:3000]))
        if not pa:
            continue
        built, hx, loaded, hx2 = pa
        dist['bytes_serialised'] += len(hx) // 2
        if loaded == 'NULL':
            dist['refused_after_serialize'] = dist.get('refused_after_serialize', 0) + 1
        else:
            ns = loaded.split('|')[1].split()
            dist['sections_hist'][len(ns) - 1] = dist['sections_hist'].get(len(ns) - 1, 0) + 1
        ss = [t[2:] for t in dsc.split(' ; ') if t.startswith('s ')]
        if len(set(ss)) != len(ss): dist['with_dup_strings'] += 1
        if ' null' in dsc: dist['with_null_params'] += 1
        # property on the implementation's own answers (independent of the model): what was built comes back, bytes are stable
        if w == '1':
            dist['wf_modules'] += 1
            if loaded == 'NULL' or body_of_dump(loaded) != body_of_dump(built):
                capped(ck, 'roundtrip', 'c10:roundtrip:' + nvmlib.fhash(dsc.encode()), 'deserialize(serialize(m)) differs from m on the implementation',
                        dict(engine='nvm_probe(asan)', input='rt ' + dsc[:6000], built=built[:2000], loaded=loaded[:2000]))
            if hx2 != hx:
                capped(ck, 'idempotent', 'c10:idempotent:' + nvmlib.fhash(dsc.encode()), 'serialize(deserialize(serialize(m))) differs from serialize(m) on the implementation',
                        dict(engine='nvm_probe(asan)', input='rt ' + dsc[:6000], first=hx[:2000], second=hx2[:2000]))
    if len(impl) != len(lines):
        ck.fail('c10:linecount', 'probe answered %d of %d lines' % (len(impl), len(lines)), dict(correspondence='nvm_probe vs nvref_c10'))

    # ---------------- (A') declared limits through the real API: modules AT limit-1, limit, limit+1 (deterministic)
    axes = c10_limits.load_axes()
    ldescs = c10_limits.limit_descs(axes)
    llines = ['rt ' + x[3] for x in ldescs]
    li, prc, perr = nvmlib.probe_lines(probe, llines)
    lm = vlib.run_lines(ref, llines, timeout=1500)
    lw = vlib.run_lines(ref, ['wf ' + x[3] for x in ldescs], timeout=1500)
    dist['limit_modules'] = {}
    if prc != 0 or len(li) != len(llines):
        k = len(li)
        ck.fail('c10:limit:crash:%s:%s' % (ldescs[k][0], ldescs[k][1]) if k < len(ldescs) else 'c10:limit:crash',
                'nvm_probe crashed / sanitizer or leak report on a module at a declared limit (rc=%s)' % prc,
                dict(engine='nvm_probe(asan)', axis=ldescs[k][0] if k < len(ldescs) else None, count=ldescs[k][1] if k < len(ldescs) else None, stderr=perr[-2000:]))
    for (axis, cnt, declared, dsc), a, m, w in zip(ldescs, li, lm, lw):
        ck.count(('limit', axis, cnt), True)
        dist['limit_modules'].setdefault(axis, []).append(cnt)
        pa = parse_rt(a)
        rep = dict(engine='nvm_probe(asan)', axis=axis, count=cnt, declared_limit=declared, macros=axes.get(axis, {}).get('macros'),
                   input='rt ' + (dsc if len(dsc) < 3000 else dsc[:3000] + '...'), rebuild='c10_limits.limit_descs')
        if pa and w == '1' and (pa[2] == 'NULL' or body_of_dump(pa[2]) != body_of_dump(pa[0]) or pa[3] != pa[1]):
            ck.fail('c10:limit:roundtrip:%s:%d' % (axis, cnt),
                    'a module with %d %s (declared limits on this axis: %s) does not survive serialize -> deserialize on the implementation: %s'
                    % (cnt, axis, axes.get(axis, {}).get('macros'), 'refused' if pa[2] == 'NULL' else 'differs'), rep)
        if a != m:
            pm = parse_rt(m) or ['?'] * 4
            which = [nm for nm, x, y in zip(('built', 'bytes', 'loaded', 'bytes2'), pa or ['?'] * 4, pm) if x != y]
            ck.fail('c10:limit:corr:%s:%d' % (axis, cnt), 'nvm_probe and model differ on a module with %d %s (%s)' % (cnt, axis, ','.join(which)),
                    dict(rep, correspondence='nvm_probe vs nvref_c10', differs=which))
    sfiles = c10_limits.section_files(axes)
    si, _, _ = nvmlib.probe_lines(probe, ['load ' + f.hex() for _, f in sfiles])
    sm = vlib.run_lines(ref, ['load ' + f.hex() for _, f in sfiles])
    for (n, f), a, m in zip(sfiles, si, sm):
        ck.count(('limit', 'sections', n), True)
        dist['limit_modules'].setdefault('sections', []).append(n)
        if a != m:
            ck.fail('c10:limit:corr:sections:%d' % n, 'real loader and model differ on a file with %d sections' % n,
                    dict(correspondence='nvm_probe vs nvref_c10', input='load ' + f.hex(), observed_impl=a[:300], expected_model=m[:300]))

    # ---------------- (C) end to end (also yields the compiler-produced files for (B))
    progs = nvmlib.write_programs()
    for src in nvmlib.example_programs(rng, 45 if ck.thorough else 10):
        progs.append((os.path.basename(src)[:-5], src, None))
    lprogs = c10_limits.write_programs(axes)          # programs AT the compiler's / format's declared limits
    progs += lprogs
    dist['limit_programs'] = len(lprogs); dist['limit_programs_rejected_by_compiler'] = []
    env = dict(os.environ, NANO_VIRT_LIB=nvmlib.wrapper_objdir(b))
    with ThreadPoolExecutor(8) as ex:
        results = list(ex.map(e2e_one, [(b, name, src, d, env) for name, src, ret in progs]))
    exit_lines, exit_meta = [], []
    for (name, src, ret), r in zip(progs, results):
        dist['e2e_programs'] += 1
        run_, vm, wr = r['run'], r['vm'], r['wrap']
        ck.count(('e2e', name), True)
        if vm is None:
            if run_[0] not in (0, -9) and run_[1] == '' and r['wrap'] is None:
                dist['limit_programs_rejected_by_compiler'].append(name)      # refused by the compiler on every path: consistent
                continue
            ck.fail('c10:e2e:emit-failed:' + name, 'nano_virt --emit-nvm failed although --run ran the program', dict(program=name, source=src, run=run_[:2]))
            continue
        if run_[0] == -9 or vm[0] == -9:
            ck.note('timeout in %s (run=%s vm=%s): skipped' % (name, run_[0], vm[0]))
            continue
        # stdout
        if vm[1] != run_[1]:
            ck.fail('c10:e2e:stdout:nano_vm:' + name, 'stdout of nano_vm file differs from --run',
                    dict(engine='nano_vm vs nano_virt --run', program=name, source=src, run_stdout=run_[1][:1500], vm_stdout=vm[1][:1500]))
        # exit status: --run vs nano_vm
        if vm[0] != run_[0]:
            if vm[0] == 0 and run_[0] != 0 and vm[1] == run_[1] and 'untime error' not in run_[2]:
                ck.fail(K_EXIT, 'nano_vm file.nvm exits 0 whatever main returns; --run propagates it',
                        dict(engine='nano_vm vs nano_virt --run', program=name, source=src, run_exit=run_[0], vm_exit=vm[0]))
            else:
                ck.fail('c10:e2e:exit:nano_vm:' + name, 'exit status of nano_vm file differs from --run (not the known pattern)',
                        dict(engine='nano_vm vs nano_virt --run', program=name, source=src, run_exit=run_[0], vm_exit=vm[0],
                             run_stderr=run_[2][-500:], vm_stderr=vm[2][-500:]))
        # wrapper
        if wr is None:
            ck.fail('c10:e2e:wrapper-build:' + name, 'native wrapper could not be built', dict(program=name, source=src, log=r['wrap_build'][1]))
        else:
            dist['e2e_wrapper_built'] += 1
            if wr[0] != run_[0]:
                ck.fail('c10:e2e:exit:wrapper:' + name, 'exit status of the wrapper executable differs from --run',
                        dict(engine='wrapper vs nano_virt --run', program=name, source=src, run_exit=run_[0], wrapper_exit=wr[0]))
            if wr[1] != run_[1]:
                extra = wr[1][:len(wr[1]) - len(run_[1])] if wr[1].endswith(run_[1]) else None
                if extra and run_[1].startswith(extra):
                    # output of the global initialisers appears once more in front: __init__ ran twice
                    ck.fail(K_INIT2, 'wrapper executable runs the global initialisers (__init__) twice; --run and nano_vm run them once',
                            dict(engine='wrapper vs nano_virt --run', program=name, source=src, run_stdout=run_[1][:600], wrapper_stdout=wr[1][:600]))
                else:
                    ck.fail('c10:e2e:stdout:wrapper:' + name, 'stdout of the wrapper executable differs from --run',
                            dict(engine='wrapper vs nano_virt --run', program=name, source=src, run_stdout=run_[1][:1500], wrapper_stdout=wr[1][:1500]))
        # exit-status model vs the three observed statuses (programs whose main result is known)
        if ret is not None:
            for rn, obs in (('virt', run_[0]), ('vm', vm[0]), ('wrapper', wr[0] if wr else None)):
                if obs is None:
                    continue
                exit_lines.append('exit %s %s' % (rn, 'err' if ret == 'err' else 'int %d' % ret))
                exit_meta.append((name, rn, obs, ret))
    # the fourth runner: `nano_vm --daemon` against ONE private nano_vmd (written + limit programs)
    try:
        from vmd_common import Daemon, via_daemon
        with Daemon(b) as dm:
            for (name, src, ret), r in zip(progs, results):
                if ret is None or r['vm'] is None or r['run'][0] == -9:
                    continue
                rc, o, e = via_daemon(b, dm, os.path.join(d, name + '.nvm'), timeout=30)
                dist['e2e_daemon_runs'] = dist.get('e2e_daemon_runs', 0) + 1
                ck.count(('e2e-daemon', name), True)
                o = o.decode('utf-8', 'replace')
                if o != r['run'][1] or rc != r['run'][0]:
                    ck.fail('c10:e2e:daemon:' + name, '`nano_vm --daemon` differs from --run (stdout equal: %s, exit %s vs %s)' % (o == r['run'][1], rc, r['run'][0]),
                            dict(engine='nano_vm --daemon vs nano_virt --run', program=name, source=src, run_exit=r['run'][0], daemon_exit=rc,
                                 run_stdout=r['run'][1][:600], daemon_stdout=o[:600], daemon_stderr=e[-300:].decode('utf-8', 'replace')))
                exit_lines.append('exit daemon %s' % ('err' if ret == 'err' else 'int %d' % ret))
                exit_meta.append((name, 'daemon', rc, ret))
    except RuntimeError as ex:
        ck.fail('c10:e2e:daemon-start', 'nano_vmd could not be started: %s' % str(ex)[:200], dict(engine='nano_vmd'))
    if exit_lines:
        pred = vlib.run_lines(ref, exit_lines)
        for (name, rn, obs, ret), p in zip(exit_meta, pred):
            ck.count(('exit', name, rn), True)
            if str(obs) != p:
                ck.fail('c10:corr:exit:%s:%s' % (rn, name), 'exit-status model and %s disagree (main result %s): model %s, observed %s' % (rn, ret, p, obs),
                        dict(correspondence='Driver/ExitStatus.v vs real runner', runner=rn, program=name, main_result=ret, expected_model=p, observed=obs))

    # ---------------- (B) compiler-produced files: loader agreement and serialize(load(f)) = f
    blines, bmeta = [], []
    for (name, src, ret), r in zip(progs, results):
        if r['nvm']:
            if name.startswith('limit_str') and not any(name == 'limit_str%d' % L for L in axes.get('strings', {}).get('limits', [])):
                continue          # the model's string pool is quadratic: one of the five string-limit files is enough here
            dist['compiled_files'] += 1
            blines.append('load ' + nvmlib.hexs(r['nvm'])); bmeta.append((name, r['nvm']))
    bi, prc, perr = nvmlib.probe_lines(probe, blines)
    bm = vlib.run_lines(ref, blines)
    rt2 = []
    for (name, f), a, m in zip(bmeta, bi, bm):
        ck.count(('load', name), True)
        if a != m:
            ck.fail('c10:corr:load:' + name, 'real loader and model differ on a compiler-produced file',
                    dict(correspondence='nvm_probe vs nvref_c10', program=name, input='load ' + f.hex()[:6000], observed_impl=a[:2000], expected_model=m[:2000]))
        if a == 'NULL':
            ck.fail('c10:load-refused:' + name, 'compiler-produced file refused by the loader', dict(program=name))
        else:
            rt2.append((name, f, 'rt ' + desc_of_dump(a)))
    if rt2:
        ri, prc, perr = nvmlib.probe_lines(probe, [x[2] for x in rt2])
        rm = vlib.run_lines(ref, [x[2] for x in rt2])
        for (name, f, l), a, m in zip(rt2, ri, rm):
            ck.count(('reser', name), True)
            pa = parse_rt(a)
            if a != m:
                ck.fail('c10:corr:reser:' + name, 'probe and model differ when the loaded compiler module is rebuilt and serialised',
                        dict(correspondence='nvm_probe vs nvref_c10', program=name, input=l[:6000]))
            if pa and pa[1] != f.hex():
                ck.fail('c10:reser:' + name, 'serialize(load(file)) != file for a compiler-produced file',
                        dict(engine='nvm_probe(asan)', program=name, file=f.hex()[:4000], again=pa[1][:4000]))

    ck.cov['rule'] = ('(A) module descriptions: hand-picked shapes + random (0-40 strings incl. empty/NUL/UTF-8/requested duplicates, 0-3 code appends, '
                      '0-40 functions, 0-300 debug entries, 0-40 imports with 0-39 or NULL parameters, field values at width boundaries), '
                      'built through the real nvm_* API; non-trivial = at least one API call; distinct = description text. '
                      '(B) every compiled file loaded by both + rebuilt + serialised. (C) written programs (main results 0,1,3,7,9,42,45,256,257,-1,2^32, '
                      'runtime error, side-effecting global initialiser) + sampled repo examples under the three runners')
    fl = nvmlib.gen_flags()
    ck.extra['generated_flags'] = fl
    ck.extra['live_theorems'] = [('C10_runners_agree' if fl.get('nano_vm_propagates_result') else 'C10_runners_agree_refuted'),
                                 ('C10_init_once_refuted' if fl.get('wrapper_calls_init') else 'C10_init_once')]
    ck.extra['exhaustive'] = False
    dist['sections_hist'] = {str(k): v for k, v in sorted(dist['sections_hist'].items())}
    ck.extra['input_distribution'] = dist
    if impl:
        ck.sample(dict(q=lines[-1][:200], impl=impl[-1][:300], model=model[-1][:300]))
    for (name, src, ret), r in list(zip(progs, results))[:3]:
        ck.sample(dict(program=name, run=(r['run'][0], r['run'][1][:60]), nano_vm=(r['vm'][0], r['vm'][1][:60]) if r['vm'] else None,
                       wrapper=(r['wrap'][0], r['wrap'][1][:60]) if r['wrap'] else None))
    ck.trusted += ['translator tools/gen/dump_nvmconsts.c + gen_nvmconsts.py (wire constants compared with the model literals by C10_wire_constants)',
                   'extraction: ExtrOcamlBasic only; extract/nvio.ml + c10_driver.ml',
                   'probes/nvm_probe.c; Nvm/Format.v as a transcription of nvm_serialize/nvm_deserialize/nvm_add_string (tied by (A),(B))',
                   'Driver/ExitStatus.v as a transcription of the four mains (tied by (C) for virt/vm/wrapper; the daemon client is not run here)',
                   'wrapper executables are linked against this build\'s objects through NANO_VIRT_LIB (symlink tree build/plain/wrap/obj)']
    ck.assumptions += ['round-trip theorem: modules within the C field widths, duplicate-free pool (guaranteed by the API: C10_build_nodup), total size < 2^32',
                       'only stdout and the exit status are compared end to end; stderr wording differs between the mains ("runtime error" / "Runtime error")',
                       'wrapper embedding (hex array + cc) is covered end to end only; the daemon runner only in the exit-status model']


def replay(ck, d):
    b = ck.build('plain'); ck.gen(['gen_nvmconsts', 'gen_runnerflags', 'gen_limits'])
    ref = ck.nvref('c10'); probe = ck.probe('nvm_probe.c', 'asan')
    if d.get('rebuild') == 'c10_limits.limit_descs':
        ck.gen(['gen_limits'])
        ds = [x for x in c10_limits.limit_descs(c10_limits.load_axes()) if x[0] == d.get('axis') and x[1] == d.get('count')]
        if ds:
            d = dict(d, input='rt ' + ds[0][3])
    if d.get('input'):
        l = d['input']
        a, rc, e = nvmlib.probe_lines(probe, [l]); m = vlib.run_lines(ref, [l])
        print('input:', l[:300]); print('impl :', (a[0][:600] if a else None), '(rc=%s)' % rc); print('model:', m[0][:600] if m else None)
        bad = rc != 0 or not a or a[0] != m[0]
        pa = parse_rt(a[0]) if a else None
        if pa and (pa[2] == 'NULL' or pa[3] != pa[1]):
            bad = True; print('round trip on the implementation: loaded =', pa[2][:60], '; bytes stable:', pa[3] == pa[1])
        print('REPRODUCED' if bad else 'not reproduced')
        return 1 if bad else 0
    src = d.get('source')
    if src:
        env = dict(os.environ, NANO_VIRT_LIB=nvmlib.wrapper_objdir(b))
        r = e2e_one((b, 'replay', src, nvmlib.scratch('c10'), env))
        for k in ('run', 'vm', 'wrap'):
            print(k, ':', None if r[k] is None else (r[k][0], r[k][1][:300]))
        same = r['vm'] and r['wrap'] and r['run'][:2] == r['vm'][:2] == r['wrap'][:2]
        print('REPRODUCED' if not same else 'not reproduced')
        return 0 if same else 1
    print('nothing to replay'); return 1
