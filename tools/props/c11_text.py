"""C11, text half: disasm_module / asm_assemble of the real tools (probes/asm_probe.c, ASan build) against the extracted
model NV.Isa.Asm (byte-exact text, identical assembly result) and, independently of the model, the property itself on the
real tools:  asm(disasm(m)) has the same strings, function table and code as m.

The model describes the tools after the fix: commits of 2026-09-30 (quote-aware comment stripping, comment newline escape,
NUL escape, patch fix-up, per-function label table, patch-table overflow as error, denormal floats, labels only on
instruction boundaries).  A failing round trip on the real tools is attributed to the conjunct(s) of the theorem's hypothesis wf_moduleb that the
module violates (evaluated by the extracted Coq function, command `wfm`): key  c11:text:not-wf:<conjunct>.  A module
that satisfies the hypothesis and still fails, or any disagreement between model and tools, is a violation."""
import os, re, json, hashlib, struct, collections, shutil, time
from concurrent.futures import ThreadPoolExecutor
import vlib

SZ = dict(KU8=1, KU16=2, KU32=4, KI32=4, KI64=8, KF64=8)
M32 = 1 << 32
F64_PATTERNS = [0x0, 0x8000000000000000, 0x3ff0000000000000, 0xbff0000000000000, 0x3fb999999999999a, 0x400921fb54442d18,
                0x7fefffffffffffff, 0xffefffffffffffff, 0x0010000000000000, 0x8010000000000000,          # normal extremes
                0x7ff0000000000000, 0xfff0000000000000,                                                      # +-inf
                0x7ff8000000000000, 0xfff8000000000000,                                                      # default quiet NaNs
                0x7ff8000000000001, 0x7ff0000000000001, 0xfff8dead0000beef, 0x7ff4000000000000, 0x7fffffffffffffff,  # NaN payloads / sNaN
                0x0000000000000001, 0x8000000000000001, 0x000fffffffffffff, 0x0008000000000000, 0x0000000000000400,  # denormals
                0x4340000000000000, 0x433fffffffffffff, 0x3ca0000000000000, 0x7e37e43c8800759c, 0x01a56e1fc2f8f359]


# ------------------------------------------------------------------------------------------------ table + module helpers
def table_kinds():
    rows = {}
    p = os.path.join(vlib.COQ, 'NV', 'gen', 'IsaTable.v')
    for m in re.finditer(r'^\s*\((\d+), \("([A-Z0-9_]+)", \[([^\]]*)\]\)\)', open(p).read(), re.M):
        rows[int(m.group(1))] = (m.group(2), [k.strip() for k in m.group(3).split(';') if k.strip()])
    return rows


def consts():
    p = os.path.join(vlib.COQ, 'NV', 'gen', 'AsmConsts.v')
    return {m.group(1): int(m.group(2)) for m in re.finditer(r'Definition (\w+) : N := (\d+)\.', open(p).read())}


class Mod:
    def __init__(self, flags=0, entry=0, strings=(), funcs=(), code=b''):
        self.flags, self.entry, self.strings, self.funcs, self.code = flags, entry, list(strings), list(funcs), bytes(code)

    def desc(self):
        return '%d/%d;%s;%s;%s' % (self.flags, self.entry,
                                   ','.join('s' + s.hex() for s in self.strings) or '-',
                                   ','.join('/'.join(str(x) for x in f) for f in self.funcs) or '-',
                                   self.code.hex() or '-')

    @staticmethod
    def parse(d):
        h, s, f, c = d.split(';')
        fl, en = h.split('/')
        return Mod(int(fl), int(en), [] if s == '-' else [bytes.fromhex(x[1:]) for x in s.split(',')],
                   [] if f == '-' else [tuple(int(y) for y in x.split('/')) for x in f.split(',')],
                   b'' if c == '-' else bytes.fromhex(c))

    def norm(self):
        """layout-insensitive view: strings, and per function (name, arity, locals, upvalues, code bytes)"""
        return (self.strings, [(f[0], f[1], f[4], f[5], self.code[f[2]:f[2] + f[3]]) for f in self.funcs])


def enc(rows, op, args):
    out = bytes([op])
    for k, v in zip(rows[op][1], args):
        out += (v % (1 << (8 * SZ[k]))).to_bytes(SZ[k], 'little')
    return out


def build_code(rows, items):
    """items: list of (op, [arg...]); an arg may be ('to', k) = jump to the start of item k (k == len(items): the end),
    ('mid', k) = one byte into item k, or an int (raw operand bits)."""
    pos = [0]
    for op, a in items:
        pos.append(pos[-1] + 1 + sum(SZ[k] for k in rows[op][1]))
    out = b''
    for i, (op, a) in enumerate(items):
        vals = []
        for x in a:
            if isinstance(x, tuple):
                t = pos[x[1]] + (1 if x[0] == 'mid' else 0)
                vals.append((t - pos[i]) % M32)
            else:
                vals.append(x)
        out += enc(rows, op, vals)
    return out


def one_fn(code, strings=(), name=b'f', extra_fns=(), flags=1, entry=0):
    ss = [name] + [s for s in strings]
    return Mod(flags, entry, ss, [(0, 0, 0, len(code), 1, 0)] + list(extra_fns), code)


# ------------------------------------------------------------------------------------------------ synthetic modules
def synthetic(ck, rows, C):
    rng = ck.rng
    out = []
    OP = {v[0]: k for k, v in rows.items()}
    JMP, JT, JF, NOP, RET, HALT, PI64, PF64, PSTR, CALL, MT = (OP['JMP'], OP['JMP_TRUE'], OP['JMP_FALSE'], OP['NOP'], OP['RET'], OP['HALT'],
                                                               OP['PUSH_I64'], OP['PUSH_F64'], OP['PUSH_STR'], OP['CALL'], OP['MATCH_TAG'])
    add = lambda tag, m: out.append((tag, m.desc()))
    U = {1: [0, 1, 0x7f, 0x80, 0xff], 2: [0, 1, 0xff, 0x100, 0x7fff, 0x8000, 0xffff], 4: [0, 1, 9, 10, 0xffff, 0x7fffffff, 0x80000000, 0xffffffff],
         8: [0, 1, 9, 10, 0xffffffff, 0x7fffffffffffffff, 0x8000000000000000, 0xffffffffffffffff, 0x8ac7230489e80000]}
    # every opcode with boundary operands (I32: offsets that hit a boundary, the end, and ones that do not)
    for op, (nm, ks) in sorted(rows.items()):
        n = 1 + sum(SZ[k] for k in ks)
        combos = [[]]
        for k in ks:
            if k == 'KI32':
                pats = [0, n, n + 1, 1, (-1) % M32, (-n) % M32, 0x7fffffff, 0x80000000, 2 * n + 1]
            elif k == 'KF64':
                pats = F64_PATTERNS
            else:
                pats = U[SZ[k]]
            combos = [c + [p] for c in combos for p in pats]
        if len(combos) > 60:
            rng.shuffle(combos); combos = combos[:60]
        for c in combos:
            code = enc(rows, NOP, []) * 0 + enc(rows, op, c) + enc(rows, RET, [])
            add('op:%s:%s' % (nm, ','.join('%x' % v for v in c)), one_fn(code, [b'hello', b'w']))
    # jump shapes
    def jm(tag, items, **kw):
        add('jump:' + tag, one_fn(build_code(rows, items), **kw))
    jm('backward', [(NOP, []), (PI64, [1]), (JMP, [('to', 0)]), (RET, [])])
    jm('forward', [(JF, [('to', 3)]), (PI64, [1]), (NOP, []), (RET, [])])
    jm('to-end', [(JT, [('to', 3)]), (PI64, [1]), (RET, [])])
    jm('self', [(NOP, []), (JMP, [('to', 1)]), (RET, [])])
    jm('to-zero-and-end', [(JMP, [('to', 3)]), (JMP, [('to', 0)]), (MT, [7, ('to', 1)])])
    jm('match-tag', [(MT, [0xffff, ('to', 2)]), (NOP, []), (MT, [0, ('to', 0)]), (RET, [])])
    jm('mid-instruction', [(PI64, [5]), (JMP, [('mid', 0)]), (RET, [])])
    jm('past-end', [(NOP, []), (JMP, [100]), (RET, [])])
    jm('before-start', [(NOP, []), (JMP, [(-50) % M32]), (RET, [])])
    jm('numeric-then-label', [(JMP, [100]), (JMP, [('to', 0)]), (RET, [])])
    jm('label-then-numeric', [(JMP, [('to', 2)]), (JMP, [100]), (RET, [])])           # the patch fix-up overwrites the label patch
    jm('label-then-numeric-match', [(MT, [1, ('to', 0)]), (MT, [2, 77]), (RET, [])])
    for n in (1, 2, 100, C['max_disasm_labels'] - 1, C['max_disasm_labels'], C['max_disasm_labels'] + 1, C['max_disasm_labels'] + 40):
        # n distinct targets: item i jumps to NOP number i
        items = [(JMP, [('to', n + i)]) for i in range(n)] + [(NOP, [])] * n + [(RET, [])]
        jm('targets=%d' % n, items)
    for n in (C['max_patches'] - 1, C['max_patches'], C['max_patches'] + 1, C['max_patches'] + 3):
        jm('patches=%d' % n, [(JF, [('to', n)])] * n + [(RET, [])])
    for per, nf in ((C['max_disasm_labels'], 2), (C['max_disasm_labels'], 3), (342, 3), (341, 3), (256, 4), (205, 5)):
        # label table is global in the assembler: per*nf labels in total
        one = build_code(rows, [(JMP, [('to', per + i)]) for i in range(per)] + [(NOP, [])] * per + [(RET, [])])
        add('jump:labels-total=%dx%d' % (per, nf),
            Mod(1, 0, [b'f%d' % i for i in range(nf)], [(i, 0, i * len(one), len(one), 0, 0) for i in range(nf)], one * nf))
    # strings: every special byte, referenced by PUSH_STR or not; lengths around the assembler's former 4096-byte buffer (now sized from the directive)
    specials = [b'', b'plain', b'a b', b'x\ny', b'x\ty', b'x\\y', b'x"y', b'x;y', b'x#y', b'x\x00y', b'x\ry', b'x\r', b' lead', b'trail ',
                b'\xc3\xa9\xff\x80', b'\\', b'"', b'\\n', b'\n', b';', b'#', b'a\nRET', b'a\n  RET', b'a\nL0:', b'\\;', b'a\\', b'%s%d', b"'",
                b'\x01\x7f', b'\x0b\x0c', b'x' * 4094, b'x' * 4095, b'x' * 4096, b'y' * 5000, b'"' * 2047, b'"' * 2048, b'\n' * 4095]
    for s in specials:
        code = build_code(rows, [(PSTR, [1]), (RET, [])])
        add('str:ref:%s' % s[:12].hex(), one_fn(code, [s]))
        add('str:unref:%s' % s[:12].hex(), one_fn(enc(rows, RET, []), [s]))
    add('str:dup', one_fn(enc(rows, RET, []), [b'a', b'a', b'b', b'f']))
    add('str:index-out-of-range', one_fn(build_code(rows, [(PSTR, [7]), (PSTR, [0xffffffff]), (RET, [])]), [b'a']))
    # function names, CALL comments
    for nm in (b'f', b'main', b'_x9', b'9x', b'a.b', b'a::b', b'a b', b'', b'???', b'x' * 255, b'x' * 256, b'x' * 300, b'L0', b'RET', b'caf\xc3\xa9', b'a;b', b'a\nb'):
        code = build_code(rows, [(CALL, [0]), (CALL, [1]), (OP['CALL_EXTERN'], [0]), (RET, [])])
        add('fname:%s' % nm[:10].hex(), one_fn(code, [], name=nm))
    add('fname:index-out-of-range', Mod(1, 0, [b'f'], [(5, 0, 0, 1, 0, 0)], enc(rows, RET, [])))
    add('fname:shared', Mod(1, 0, [b'f'], [(0, 0, 0, 1, 0, 0), (0, 1, 1, 1, 2, 3)], enc(rows, RET, []) * 2))
    # layout and header
    r1, r2 = build_code(rows, [(PI64, [1]), (RET, [])]), build_code(rows, [(NOP, []), (HALT, [])])
    add('layout:canonical', Mod(1, 1, [b'a', b'b'], [(0, 0, 0, len(r1), 0, 0), (1, 2, len(r1), len(r2), 3, 0)], r1 + r2))
    add('layout:swapped', Mod(1, 1, [b'a', b'b'], [(0, 0, len(r2), len(r1), 0, 0), (1, 2, 0, len(r2), 3, 0)], r2 + r1))
    add('layout:overlap', Mod(1, 0, [b'a', b'b'], [(0, 0, 0, len(r1), 0, 0), (1, 0, 0, len(r1), 0, 0)], r1))
    add('layout:gap', Mod(1, 0, [b'a', b'b'], [(0, 0, 0, len(r1), 0, 0), (1, 0, len(r1) + 1, len(r2), 0, 0)], r1 + b'\x00' + r2))
    add('layout:tail', Mod(1, 0, [b'a'], [(0, 0, 0, len(r1), 0, 0)], r1 + r2))
    add('layout:empty-fn', Mod(1, 0, [b'a', b'b'], [(0, 0, 0, 0, 0, 0), (1, 0, 0, len(r1), 0, 0)], r1))
    add('layout:range-outside', Mod(1, 0, [b'a'], [(0, 0, 1, len(r1), 0, 0)], r1))
    add('layout:no-functions', Mod(0, 0, [b'a'], [], r1))
    add('layout:nothing', Mod(0, 0, [], [], b''))
    for fl, en in ((0, 0), (0, 5), (1, 0), (1, 0xffffffff), (2, 0), (4, 1), (7, 3), (0xffffffff, 1)):
        add('header:%x:%x' % (fl, en), Mod(fl, en, [b'a'], [(0, 0xffff, 0, len(r1), 0xffff, 0xffff)], r1))
    # code the disassembler cannot decode: undefined opcode bytes, truncated last instruction
    add('code:undefined-byte', one_fn(b'\x00' + b'\x0b' + enc(rows, RET, [])))
    add('code:undefined-ff', one_fn(b'\xff\xfe' + enc(rows, RET, [])))
    add('code:truncated', one_fn(enc(rows, RET, []) + enc(rows, PI64, [5])[:4]))
    add('code:jump-then-garbage', one_fn(build_code(rows, [(JMP, [('to', 1)]), (RET, [])]) + b'\xee'))
    # random modules inside the theorem's domain (and a few just outside)
    ident = 'abcdefghijklmnopqrstuvwxyzABCDEFGHIJKLMNOPQRSTUVWXYZ0123456789_'
    nice = ''.join(chr(c) for c in range(32, 127) if chr(c) not in ';#')
    ops = sorted(rows)
    for t in range(1500 if ck.thorough else 60):
        nf = rng.randrange(1, 5)
        wild = rng.random() < 0.15
        strings = []
        while len(strings) < nf:
            s = ''.join(rng.choice(ident) for _ in range(rng.randrange(1, 12))).encode()
            if s not in strings:
                strings.append(s)
        for _ in range(rng.randrange(0, 6)):
            s = (bytes(rng.randrange(256) for _ in range(rng.randrange(0, 20))) if wild else
                 ''.join(rng.choice(nice) for _ in range(rng.randrange(0, 30))).encode())
            if s not in strings:
                strings.append(s)
        code = b''
        funcs = []
        for fi in range(nf):
            n = rng.randrange(0, 40)
            items = []
            for i in range(n):
                op = rng.choice(ops)
                a = []
                for k in rows[op][1]:
                    if k == 'KI32':
                        a.append(('to', rng.randrange(0, n + 1)) if not (wild and rng.random() < 0.2) else rng.getrandbits(32))
                    elif k == 'KF64':
                        a.append(rng.choice(F64_PATTERNS[:10]) if not wild else rng.getrandbits(64))
                    elif op == PSTR:
                        a.append(rng.randrange(0, len(strings) + 2))
                    elif op == CALL:
                        a.append(rng.randrange(0, nf + 2))
                    else:
                        a.append(rng.choice(U[SZ[k]]) if rng.random() < 0.5 else rng.getrandbits(8 * SZ[k]))
                items.append((op, a))
            c = build_code(rows, items)
            funcs.append((fi, rng.randrange(0, 5), len(code), len(c), rng.randrange(0, 70000) % 65536, rng.randrange(0, 3)))
            code += c
        add('random:%d%s' % (t, ':wild' if wild else ''), Mod(rng.choice([0, 1, 1, 3]), rng.randrange(0, nf), strings, funcs, code))
    return out


# ------------------------------------------------------------------------------------------------ hand-written / malformed text
def asm_texts(ck, C):
    T = []
    add = lambda tag, t: T.append((tag, t if isinstance(t, bytes) else t.encode()))
    fn = lambda body, name='f': '.function %s 0 0 0\n%s.end\n' % (name, body)
    add('empty', '')
    add('only-comments', '; x\n# y\n\n   \n\t\n')
    add('minimal', fn('  RET\n'))
    add('no-final-newline', '.function f 0 0 0\n  RET\n.end')
    add('crlf', '.function f 0 0 0\r\n  RET\r\n.end\r\n')
    add('tabs', '\t.function\tf\t1\t2\t3\n\tPUSH_I64\t5\n\tRET\n\t.end\n')
    add('nul-in-text', b'.function f 0 0 0\n  RET\n.end\n\x00.function g 0 0 0\n')
    for lit in ('0', '7', '+7', '-7', '0x10', '0X1f', '010', '08', '0x', '0xg', '9223372036854775807', '9223372036854775808', '-9223372036854775808',
                '-9223372036854775809', '99999999999999999999', '- 5', '--5', '', 'x', '1x', '1;2', ' \t 5', '\x0b5', '\x0c 5', '5 6 7'):
        add('i64:%s' % lit, fn('  PUSH_I64 %s\n  RET\n' % lit))
    for lit in ('0', '255', '256', '-1', '-0', '0xff', '0400', '1e2'):
        add('u8:%s' % lit, fn('  PUSH_BOOL %s\n' % lit))
    for lit in ('65535', '65536', '-1'):
        add('u16:%s' % lit, fn('  LOAD_LOCAL %s\n' % lit))
    for lit in ('4294967295', '4294967296', '-1', '0x100000000'):
        add('u32:%s' % lit, fn('  PUSH_STR %s\n' % lit))
    for lit in ('5', '-5', '0', '2147483647', '2147483648', '-2147483648', '-2147483649', '0x7fffffff', '+3'):
        add('i32:%s' % lit, fn('  JMP %s\n' % lit))
    for lit in ('1.5', '-0', '-0.0', '1e5', '1E5', '1e400', '-1e400', '1e-320', '4.9406564584124654e-324', '2.2250738585072014e-308', '1e-400',
                '0x1p3', 'nan', '-nan', 'NaN', 'nan(123)', 'inf', '-inf', 'infinity', 'Infinity', '.5', '5.', '.', 'e5', '1e', '1.5 7', '', '0.0', '00.10',
                '0.10000000000000001', '1.7976931348623157e+308', '1.7976931348623159e+308'):
        add('f64:%s' % lit, fn('  PUSH_F64 %s\n' % lit))
    add('missing-operand', fn('  LOAD_UPVALUE 1\n'))
    add('extra-operands', fn('  ADD 1 2 3 garbage "x\n'))
    add('unknown-mnemonic', fn('  FROB 1\n'))
    add('lowercase-mnemonic', fn('  add\n'))
    add('mnemonic-prefix', fn('  ADDX\n'))
    add('mnemonic-63', fn('  %s\n' % ('A' * 63)))
    add('mnemonic-64', fn('  %s\n' % ('A' * 64)))
    add('mnemonic-127', fn('  %s\n' % ('A' * 127)))
    add('mnemonic-128', fn('  %s\n' % ('A' * 128)))
    add('undefined-label', fn('  JMP nowhere\n  RET\n'))
    add('undefined-label-other-function', fn('here:\n  RET\n', 'f') + fn('  JMP here\n', 'g'))
    add('duplicate-label', fn('a:\na:\n  RET\n'))
    add('same-label-two-functions', fn('a:\n  JMP a\n', 'f') + fn('a:\n  JMP a\n', 'g'))
    add('forward-and-backward', fn('top:\n  JMP_FALSE out\n  JMP top\nout:\n  RET\n'))
    add('label-same-line', fn('top: NOP\n  JMP top\nend: ; c\n'))
    add('label-same-line-bad', fn('top: +\n'))
    add('label-space-colon', fn('top :\n  JMP top\n'))
    add('label-127', fn('%s:\n  JMP %s\n' % ('l' * 127, 'l' * 127)))
    add('label-128', fn('%s:\n' % ('l' * 128)))
    add('labelref-128', fn('  JMP %s\n' % ('l' * 128)))
    add('label-digit-start', fn('1a:\n  JMP 1a\n'))
    add('label-underscore', fn('_:\n  MATCH_TAG 3 _\n'))
    add('label-outside', 'x:\n')
    add('instr-outside', '  RET\n')
    add('numeric-after-label', fn('  JMP a\n  JMP 9\na:\n'))
    add('numeric-before-label', fn('  JMP 9\n  JMP a\na:\n'))
    add('nested-function', '.function f 0 0 0\n.function g 0 0 0\n')
    add('end-without-function', '.end\n')
    add('unterminated', '.function f 0 0 0\n  RET\n')
    add('unknown-directive', '.frob\n')
    add('dot-alone', '.\n')
    add('dot-space', '. string "a"\n')
    add('function-missing-field', '.function f 0 0\n')
    add('function-bad-name', '.function ??? 0 0 0\n.end\n')
    add('function-dotted-name', '.function a.b 0 0 0\n.end\n')
    add('function-name-255', '.function %s 0 0 0\n.end\n' % ('n' * 255))
    add('function-name-256', '.function %s 0 0 0\n.end\n' % ('n' * 256))
    add('function-big-fields', '.function f 65536 65537 4294967295\n.end\n')
    add('function-field-overflow', '.function f 4294967296 0 0\n.end\n')
    add('function-twice', fn('  RET\n') + fn('  NOP\n'))
    add('entry', '.entry 3\n' + fn(''))
    add('entry-bad', '.entry x\n')
    add('entry-big', '.entry 4294967296\n')
    add('flags', '.flag has_main\n.flag needs_extern\n.flag debug_info\n.flag other\n')
    add('flag-missing', '.flag\n')
    add('string-basic', '.string "a"\n.string "b"\n.string "a"\n')
    add('string-escapes', '.string "a\\n\\t\\\\\\"\\0\\q\\x"\n')
    add('string-unterminated', '.string "abc\n')
    add('string-unquoted', '.string abc\n')
    add('string-semicolon', '.string "a;b"\n')
    add('string-hash', '.string "a#b"\n')
    add('string-trailing-junk', '.string "a" junk\n')
    add('string-4095', '.string "%s"\n' % ('s' * 4095))
    add('string-4096', '.string "%s"\n' % ('s' * 4096))
    add('string-escaped-4095', '.string "%s"\n' % ('\\n' * 4095))
    add('string-in-function', fn('.string "z"\n  PUSH_STR 0\n'))
    add('function-name-reuses-string', '.string "g"\n.string "f"\n' + fn('  RET\n'))
    return T


def mutate_texts(ck, texts, n):
    """single-line mutations of real disassembly (lines of .string directives are left alone: a line cut after a lone
    backslash makes the C walk past the end of its line buffer, which the model only reports as err 99)"""
    rng = ck.rng
    out = []
    pool = [t for t in texts if 0 < len(t) < 20000]
    for i in range(n):
        if not pool:
            break
        ls = rng.choice(pool).split(b'\n')
        idx = [k for k, l in enumerate(ls) if l and not l.startswith(b'.string')]
        if not idx:
            continue
        k = rng.choice(idx)
        how = rng.randrange(6)
        l = ls[k]
        if how == 0:
            del ls[k]
        elif how == 1:
            ls.insert(k, l)
        elif how == 2 and len(l) > 1:
            p = rng.randrange(len(l)); l2 = l[:p] + l[p + 1:]
            ls[k] = l2 if b'\\' not in l2 else l
        elif how == 3:
            p = rng.randrange(len(l) + 1); ls[k] = l[:p] + bytes([rng.choice(b'0123456789 -LxX_:.aZ')]) + l[p:]
        elif how == 4:
            j = rng.choice(idx); ls[k], ls[j] = ls[j], ls[k]
        else:
            ls[k] = l.replace(b'L', b'M', 1) if b'L' in l else l + b' 1'
        out.append(('mut:%d:%d' % (i, how), b'\n'.join(ls)))
    return out


# ------------------------------------------------------------------------------------------------ nano programs
def gen_nano(rng, k):
    strs = ['hello', 'a b c', 'x=', 'tab\\there', 'q\\"uote', 'semi;colon', 'hash#tag', 'done', 'Z' * 40, 'caf\u00e9']
    floats = ['0.5', '2.25', '3.14159', '100.0', '0.1', '123456789.125', '0.' + '0' * 309 + '1', '0.000001']
    lines = []
    nfun = rng.randrange(1, 5)

    def cond(vs):
        return '(%s %s %d)' % (rng.choice(['<', '>', '==', '!=', '<=', '>=']), rng.choice(vs), rng.randrange(0, 20))

    def stmts(depth, vs, ind, fi):
        out = []
        for _ in range(rng.randrange(1, 5)):
            r = rng.random()
            v = rng.choice(vs)
            if r < 0.2 and depth < 3:
                out.append('%sif %s {' % (ind, cond(vs))); out += stmts(depth + 1, vs, ind + '    ', fi)
                if rng.random() < 0.6:
                    out.append('%s} else {' % ind); out += stmts(depth + 1, vs, ind + '    ', fi)
                out.append('%s}' % ind)
            elif r < 0.35 and depth < 3:
                c = 'c%d_%d' % (depth, len(out))
                out.append('%slet mut %s: int = 0' % (ind, c))
                out.append('%swhile (< %s %d) {' % (ind, c, rng.randrange(1, 4)))
                out += stmts(depth + 1, vs, ind + '    ', fi)
                out.append('%s    set %s (+ %s 1)' % (ind, c, c))
                out.append('%s}' % ind)
            elif r < 0.5:
                out.append('%s(println "%s")' % (ind, rng.choice(strs)))
            elif r < 0.6:
                out.append('%s(println %s)' % (ind, rng.choice(floats)))
            elif r < 0.7 and fi > 0:
                out.append('%sset %s (f%d %s %d)' % (ind, v, rng.randrange(0, fi), v, rng.randrange(0, 9)))
            elif r < 0.85:
                out.append('%sset %s (%s %s %d)' % (ind, v, rng.choice(['+', '-', '*']), rng.choice(vs), rng.randrange(-5, 50)))
            else:
                out.append('%s(println %s)' % (ind, v))
        return out
    for fi in range(nfun):
        lines.append('fn f%d(a: int, b: int) -> int {' % fi)
        lines.append('    let mut x: int = a'); lines.append('    let mut y: int = b')
        lines += stmts(0, ['x', 'y'], '    ', fi)
        lines.append('    return (+ x y)'); lines.append('}')
        lines.append('shadow f%d { assert (== 0 0) }' % fi)
    lines.append('fn main() -> int {')
    lines.append('    (println (f%d %d %d))' % (nfun - 1, rng.randrange(0, 10), rng.randrange(0, 10)))
    lines.append('    return 0'); lines.append('}'); lines.append('shadow main { assert (== 0 0) }')
    return '\n'.join(lines) + '\n'


def compile_corpus(ck, b):
    """every .nano under /repo/tests and /repo/examples plus generated programs -> .nvm with the run's nano_virt
    (cache keyed by the compiler binary and the source text).  Returns [(origin, path)] and counts."""
    virt = b.bin('nano_virt')
    vkey = hashlib.sha256(open(virt, 'rb').read()).hexdigest()[:16]
    cache = os.path.join(vlib.BUILD, 'c11', 'nvm-' + vkey)
    os.makedirs(cache, exist_ok=True)
    for d in os.listdir(os.path.join(vlib.BUILD, 'c11')):
        if d.startswith('nvm-') and d != 'nvm-' + vkey:
            shutil.rmtree(os.path.join(vlib.BUILD, 'c11', d), ignore_errors=True)
    srcs = []
    for top in ('tests', 'examples'):
        for root, _, files in sorted(os.walk(os.path.join(vlib.REPO, top))):
            for f in sorted(files):
                if f.endswith('.nano'):
                    srcs.append(os.path.join(root, f))
    gdir = os.path.join(vlib.BUILD, 'c11', 'gen'); os.makedirs(gdir, exist_ok=True)
    for i in range(300 if ck.thorough else 40):
        p = os.path.join(gdir, 'g%d_%d.nano' % (ck.seed, i))
        open(p, 'w').write(gen_nano(ck.rng, i))
        srcs.append(p)

    def comp(s):
        key = hashlib.sha256(open(s, 'rb').read() + s.encode()).hexdigest()[:24]
        out = os.path.join(cache, key + '.nvm'); bad = out + '.fail'
        if os.path.exists(out):
            return s, out
        if os.path.exists(bad):
            return s, None
        rc, o, e = vlib.sh([virt, s, '--emit-nvm', '-o', out], timeout=30, cwd=os.path.dirname(s))
        if rc == 0 and os.path.exists(out):
            return s, out
        if os.path.exists(out):
            os.unlink(out)
        open(bad, 'w').write('rc=%s' % rc)
        return s, None
    with ThreadPoolExecutor(16) as ex:
        res = list(ex.map(comp, srcs))
    return [(s, o) for s, o in res if o], len(srcs)


# ------------------------------------------------------------------------------------------------ running
def run_parallel(cmd, lines, env=None, n=14, timeout=900):
    """line protocol over n processes; answers in question order.  A chunk whose process dies yields what it printed."""
    if not lines:
        return [], []
    n = max(1, min(n, len(lines) // 4 or 1))
    # interleave so that the big modules spread over the chunks
    chunks = [lines[i::n] for i in range(n)]

    def one(ch):
        rc, o, e = vlib.sh(cmd, input=('\n'.join(ch) + '\n').encode(), timeout=timeout, env=env)
        return rc, o.splitlines(), e
    with ThreadPoolExecutor(n) as ex:
        rs = list(ex.map(one, chunks))
    out = [None] * len(lines)
    died = []
    for ci, (rc, ol, e) in enumerate(rs):
        for k, a in enumerate(ol[:len(chunks[ci])]):
            out[ci + k * n] = a
        if rc != 0 or len(ol) < len(chunks[ci]):
            k = len(ol)
            died.append((ci + k * n if k < len(chunks[ci]) else None, rc, e[-2000:]))
    return out, died


def model_cmd(ref):
    return ['bash', '-c', 'ulimit -s unlimited 2>/dev/null || ulimit -s 1000000; exec "$0"', ref]


CAUSES = ['str_bytes', 'distinct', 'fn_fields', 'fn_names', 'layout', 'code_bytes', 'code_decodes', 'code_patches', 'code_f64', 'entry']


def tiles(m):
    """the functions' code ranges cover the code section exactly once (in any order)"""
    r = sorted((f[2], f[2] + f[3]) for f in m.funcs)
    return bool(r) and r[0][0] == 0 and all(a[1] == b[0] for a, b in zip(r, r[1:])) and r[-1][1] == len(m.code)


def judge_rt(ans):
    """property on one 'rt' answer of the real tools: (holds, outcome-class)"""
    f = ans.split()
    if len(f) < 4 or f[0] != 'ok':
        return False, 'probe-error'
    if f[3] == 'E':
        return False, 'refused:%s' % f[4]
    a, b = Mod.parse(f[1]), Mod.parse(f[4])
    if (a.strings, a.funcs, a.code) == (b.strings, b.funcs, b.code):
        return True, 'identical'
    if a.norm() == b.norm():
        return False, 'layout-only'
    return False, 'different'


def text_half(ck, b, ref, probe):
    rows = table_kinds()
    C = consts()
    env = dict(os.environ, ASAN_OPTIONS='detect_leaks=0:abort_on_error=0', UBSAN_OPTIONS='halt_on_error=1')
    mcmd = model_cmd(ref)
    dist = collections.Counter()

    T0 = time.time(); phase = {}
    # ---- 1. the modules
    compiled, nsrc = compile_corpus(ck, b)
    loads, died = run_parallel([probe], ['load ' + o for _, o in compiled], env=env)
    cases = []                                    # (tag, desc)
    for (s, o), a in zip(compiled, loads):
        if a and a.startswith('ok '):
            origin = 'generated' if '/build/c11/gen/' in s else 'repo'
            cases.append(('%s:%s' % (origin, os.path.relpath(s, vlib.REPO) if origin == 'repo' else os.path.basename(s)), a.split()[1]))
        else:
            ck.fail('c11:text:load:' + os.path.basename(s), 'nvm_deserialize refused a module the compiler just wrote: %s' % a, dict(rkind='load', source=s))
    ncompiled = len(cases)
    for c in sorted(os.listdir(os.path.join(vlib.VERIF, 'corpus', 'C11'))) if os.path.isdir(os.path.join(vlib.VERIF, 'corpus', 'C11')) else []:
        d = json.load(open(os.path.join(vlib.VERIF, 'corpus', 'C11', c)))
        if d.get('rkind') == 'rt':
            cases.insert(0, ('corpus:' + c, d['mod']))
    cases += synthetic(ck, rows, C)
    dist['sources_tried'] = nsrc; dist['modules_compiled'] = ncompiled
    phase['compile+load+generate'] = round(time.time() - T0, 1); T0 = time.time()

    # ---- 2. real tools and model on the same questions
    q = ['rt ' + d for _, d in cases]
    impl, died = run_parallel([probe], q, env=env)
    for idx, rc, e in died:
        tag = cases[idx][0] if idx is not None else '?'
        ck.fail('c11:text:crash:' + tag, 'asm_probe died (rc=%s) on rt of %s' % (rc, tag),
                dict(rkind='rt', mod=cases[idx][1] if idx is not None else None, stderr=e, engine='asm_probe(asan)'))
    phase['real rt'] = round(time.time() - T0, 1); T0 = time.time()
    model, mdied = run_parallel(mcmd, q)
    phase['model rt'] = round(time.time() - T0, 1); T0 = time.time()
    wf, wdied = run_parallel(mcmd, ['wfm ' + d for _, d in cases])
    phase['model wfm'] = round(time.time() - T0, 1); T0 = time.time()
    if mdied or wdied:
        raise RuntimeError('model process died: %s' % (mdied + wdied)[:1])
    texts = []
    shapes = collections.Counter()
    mnems = set()
    mism = 0
    for (tag, d), a, m, w in zip(cases, impl, model, wf):
        if a is None:
            continue
        origin = tag.split(':')[0]
        f = a.split()
        text = bytes.fromhex(f[2]) if len(f) > 2 and f[2] != '-' else b''
        if origin in ('repo', 'generated'):
            texts.append(text)
        nlab = text.count(b':\n')
        for l in text.split(b'\n'):
            if l.startswith(b'  ') and not l.startswith(b'  ;'):
                mnems.add(l.split()[0])
        mnems &= {v[0].encode() for v in rows.values()}
        shapes['labels=0' if nlab == 0 else 'labels<=8' if nlab <= 8 else 'labels<=64' if nlab <= 64 else 'labels>64'] += 1
        holds, cls = judge_rt(a)
        ck.count(('rt', d), nontrivial=(b'\n  ' in text))
        dist['%s:%s' % (origin if origin in ('repo', 'generated', 'corpus') else 'synthetic', cls)] += 1
        if a != m:
            mism += 1
            fm = (m or '').split()
            what = ('built module' if f[1:2] != fm[1:2] else 'disassembly text' if f[2:3] != fm[2:3] else 'assembly result')
            if mism <= 15:
                ck.fail('c11:text:model-mismatch:' + tag, 'real tools and model differ in the %s of %s' % (what, tag),
                        dict(rkind='rt', mod=d, differs=what, observed_impl=a[-400:], expected_model=(m or '')[-400:],
                             correspondence='asm_probe(asan) vs nvref_c11 (NV.Isa.Asm)'))
        bad = [] if w == 'wf' else (w.split()[1].split(',') if w and w.startswith('notwf ') else ['?'])
        dist['wf' if not bad else 'not-wf'] += 1
        if holds:
            continue
        if not bad:
            ck.fail('c11:text:wf-but-fails:' + tag, 'module satisfies wf_moduleb but the real round trip is %s' % cls,
                    dict(rkind='rt', mod=d, outcome=cls, observed_impl=a[-400:], theorem='C11_asm_disasm_module'))
            continue
        if bad == ['layout'] and cls != 'layout-only' and tiles(Mod.parse(d)):
            ck.fail('c11:text:layout-but-more:' + tag, 'only the layout conjunct fails but the result differs in more than layout (%s)' % cls,
                    dict(rkind='rt', mod=d, outcome=cls))
            continue
        for c in bad:
            dist['cause:' + c] += 1
            ck.fail('c11:text:not-wf:' + c, 'round trip through the real disassembler+assembler fails (%s) on %s; violated hypothesis: %s' % (cls, tag, c),
                    dict(rkind='rt', mod=d if len(d) < 20000 else d[:20000] + '...', tag=tag, outcome=cls, conjuncts=bad))
    if cases:
        k = next((i for i, (t, _) in enumerate(cases) if t.startswith('repo:')), 0)
        f = impl[k].split() if impl[k] else []
        ck.sample(dict(module=cases[k][0], text_head=bytes.fromhex(f[2])[:160].decode('latin1') if len(f) > 2 else None,
                       impl_equals_model=impl[k] == model[k], wf=wf[k], outcome=judge_rt(impl[k])[1] if impl[k] else None))
        k = next((i for i, (t, _) in enumerate(cases) if t.startswith('jump:targets=513')), 0)
        ck.sample(dict(module=cases[k][0], impl_equals_model=impl[k] == model[k], wf=wf[k], outcome=judge_rt(impl[k])[1] if impl[k] else None))

    phase['compare'] = round(time.time() - T0, 1); T0 = time.time()
    # ---- 3. assembler alone on hand-written / malformed / mutated text
    T = asm_texts(ck, C) + mutate_texts(ck, texts, 6000 if ck.thorough else 300)
    q = ['asm ' + (t.hex() or '-') for _, t in T]
    ai, died = run_parallel([probe], q, env=env)
    for idx, rc, e in died:
        tag = T[idx][0] if idx is not None else '?'
        ck.fail('c11:asm:crash:' + tag, 'asm_probe died (rc=%s) assembling %s' % (rc, tag),
                dict(rkind='asm', text=T[idx][1].hex() if idx is not None else None, stderr=e, engine='asm_probe(asan)'))
    am, mdied = run_parallel(mcmd, q)
    if mdied:
        raise RuntimeError('model process died: %s' % mdied[:1])
    skipped = 0
    for (tag, t), a, m in zip(T, ai, am):
        if a is None:
            continue
        if (m or '').startswith('err 99 '):
            skipped += 1; continue
        ck.count(('asm', t), nontrivial=True)
        dist['asm:' + ('ok' if a.startswith('ok') else 'err%s' % a.split()[1])] += 1
        if a != m:
            ck.fail('c11:asm:model-mismatch:' + tag, 'asm_assemble and the model differ on text %s' % tag,
                    dict(rkind='asm', text=t.hex(), observed_impl=a[-300:], expected_model=(m or '')[-300:]))
    dist['asm:skipped-oob'] = skipped
    want = {'unknown-mnemonic': 'err %d' % C['asm_err_unknown_opcode'], 'lowercase-mnemonic': 'err %d' % C['asm_err_unknown_opcode'],
            'mnemonic-prefix': 'err %d' % C['asm_err_unknown_opcode'], 'undefined-label': 'err %d' % C['asm_err_undefined_label'],
            'undefined-label-other-function': 'err %d' % C['asm_err_undefined_label'], 'duplicate-label': 'err %d' % C['asm_err_duplicate_label']}
    for (tag, t), a in zip(T, ai):
        if tag in want and not (a or '').startswith(want[tag]):
            ck.fail('c11:asm:not-refused:' + tag, 'asm_assemble answered "%s" to %s, expected %s' % (a, tag, want[tag]), dict(rkind='asm', text=t.hex()))

    phase['asm texts'] = round(time.time() - T0, 1); T0 = time.time()
    # ---- 4. the float oracle against the libc both tools use
    pats = list(F64_PATTERNS) + [ck.rng.getrandbits(64) for _ in range(2000 if ck.thorough else 300)] + \
        [ck.rng.getrandbits(52) for _ in range(40)] + [0x7ff0000000000000 | ck.rng.getrandbits(52) for _ in range(40)]
    q = ['f64 %x' % p for p in pats]
    fi, _ = run_parallel([probe], q, env=env, n=2)
    fm, _ = run_parallel(mcmd, q, n=2)
    fdist = collections.Counter()
    for p, a, m in zip(pats, fi, fm):
        fa = a.split()
        # parse_double: refused when nothing was consumed or on overflow (errno set and result infinite)
        isinf = (int(fa[2], 16) & 0x7fffffffffffffff) == 0x7ff0000000000000
        got = fa[2] if (int(fa[4]) == len(fa[1]) // 2 and not (fa[3] != '0' and isinf)) else 'rej'
        ck.count(('f64', p), nontrivial=True)
        if [fa[1], got] != m.split()[1:3]:
            ck.fail('c11:text:f64-oracle:%x' % p, 'libc printf/strtod and the OCaml instance of the oracle differ on %x: %s vs %s' % (p, a, m),
                    dict(rkind='f64', bits='%x' % p))
        e = (p >> 52) & 0x7ff
        cl = 'nan' if e == 0x7ff and p & ((1 << 52) - 1) else 'inf' if e == 0x7ff else 'denormal' if e == 0 and p & ((1 << 52) - 1) else 'zero' if e == 0 else 'normal'
        fdist['%s:%s' % (cl, 'exact' if got == '%x' % p else 'rejected' if got == 'rej' else 'changed')] += 1
    ck.extra['float_oracle_on_libc'] = dict(fdist)

    phase['float oracle'] = round(time.time() - T0, 1)
    ck.extra['text_phase_seconds'] = phase
    ck.extra['text_distribution'] = dict(dist)
    ck.extra['text_label_shapes'] = dict(shapes)
    ck.extra['text_mnemonics_seen'] = len(mnems)
    ck.extra['text_mnemonics_defined'] = len(rows)
    return cases


def replay_known(ck, probe):
    """step 4 of the verdict logic: every open text finding is replayed on the real tools"""
    env = dict(os.environ, ASAN_OPTIONS='detect_leaks=0')
    for k in ck.known:
        inp = k.get('input') or {}
        if not k['key'].startswith('c11:text:') or 'mod' not in inp:
            continue
        rc, o, e = vlib.sh([probe], input=('rt %s\n' % inp['mod']).encode(), timeout=60, env=env)
        holds, cls = judge_rt(o.strip()) if rc == 0 else (False, 'probe-died rc=%s' % rc)
        if not holds:
            ck.fail(k['key'], '%s (witness replayed on the real tools: %s)' % (k.get('what'), cls), dict(rkind='rt', mod=inp['mod'], outcome=cls))


def replay(ck, d, ref, probe):
    env = dict(os.environ, ASAN_OPTIONS='detect_leaks=0')
    if d.get('rkind') == 'rt':
        q = 'rt %s\n' % d['mod']
    elif d.get('rkind') == 'asm':
        q = 'asm %s\n' % (d['text'] or '-')
    elif d.get('rkind') == 'f64':
        q = 'f64 %s\n' % d['bits']
    else:
        print('nothing to replay for', d.get('rkind')); return 1
    rc, o, e = vlib.sh([probe], input=q.encode(), timeout=120, env=env)
    rc2, m, e2 = vlib.sh(model_cmd(ref), input=q.encode(), timeout=300)
    print('question:', q[:300].strip())
    print('impl :', o.strip()[-600:], '(rc=%s)' % rc)
    print('model:', m.strip()[-600:])
    if d.get('rkind') == 'rt' and rc == 0:
        holds, cls = judge_rt(o.strip())
        rc3, w, _ = vlib.sh(model_cmd(ref), input=('wfm %s\n' % d['mod']).encode(), timeout=300)
        print('property on the real tools:', 'holds' if holds else 'FAILS (%s)' % cls, '| hypothesis:', w.strip())
        bad = (not holds) or o.strip() != m.strip()
    elif d.get('rkind') == 'f64':
        bad = True
    else:
        bad = rc != 0 or o.strip() != m.strip()
    print('REPRODUCED' if bad else 'not reproduced')
    return 1 if bad else 0
