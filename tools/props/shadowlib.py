"""Shared machinery of C03 (compile-time shadow evaluation == compiled program) and C06 (shadow tests gate compilation).

A *case* is a progen program p plus one shadow block per function.  Three renderings:
  S(p)  p with its shadow blocks                     -> real `nanoc S.nano -o out --verbose`   (the evaluator + the gate)
  A(p)  p with main replaced by the concatenation of the shadow bodies, every `assert e` replaced by
        (print "#A ") (println e), every test preceded by (println "#T"); trivial shadows
                                                     -> real native binary built by nanoc, and Lang/Ref.run_ref
  sprog (sprog <p> (shadows ...))                    -> extracted models (nvref_c03: InterpSem/ShadowGate, NamesApart, Ref per test)
Oracles that do not involve the evaluator model:
  C03: per test, text printed at compile time == text the native binary prints for the same statements; number of
       failed assertions == number of "#A false" the binary prints; both also against the reference semantics.
  C06: nanoc exits 0 and leaves a file at -o  <=>  the reference run of A(p) prints no "#A false"; every failing test is named.
"""
import os, sys, json, glob, random, re, collections, hashlib
import vlib, progen, langlib

INT64_MAX = progen.INT64_MAX
FUEL = 5000
MARK_T, MARK_A, MARK_R = b'#T', b'#A ', b'#R'


def all_open_keys():
    kf = os.path.join(vlib.VERIF, 'known_findings.json')
    allk = json.load(open(kf)) if os.path.exists(kf) else []
    for extra in sorted(glob.glob(os.path.join(vlib.VERIF, 'known_findings.d', '*.json'))):
        try:
            allk += json.load(open(extra))
        except Exception:
            pass
    return {k['key'] for k in allk if k.get('status') == 'open'}


def stream_cfg(open_keys, clash=False):
    """main stream: nothing whose divergence is an OPEN finding (of any property) -- block-local shadowing is back in since
    c03:block-exit is fixed (9481a65); clash stream: aims at the evaluator's remaining scoping defect (locals named like
    globals: dynamic scoping) and at escapes in strings; its block-shadowing shapes are regression inputs for the fix."""
    cfg = progen.Cfg()
    cfg.multi_effect_args = 'lang:arg-order' not in open_keys          # native evaluates arguments right to left
    cfg.self_ref_shadow = False
    cfg.same_scope_redeclare = False
    cfg.shortcircuit_effect = not ({'lang:shortcircuit-and', 'lang:shortcircuit-or'} & open_keys)
    cfg.continue_in_for = 'lang:continue-in-for' not in open_keys
    cfg.question_marks = False
    if clash:
        cfg.block_shadow = True
        cfg.shadow_global = True
        cfg.escapes = True
    else:
        cfg.block_shadow = 'c03:block-exit' not in open_keys
        cfg.shadow_global = 'c03:dynamic-scope' not in open_keys
        cfg.escapes = 'c03:string-escapes' not in open_keys
    # arrays: literals, at, array_length, array parameters / results / globals.  No deliberately out-of-range index (the probe
    # run that yields the expected values must end normally; the corpus has the out-of-range case), no loop body that assigns
    # the array its range bound reads (lang:for-bound-reevaluated), at only on variables and literals (lang:at-of-call-untyped)
    cfg.arrays = True
    cfg.oob = False
    cfg.at_on_call = 'lang:at-of-call-untyped' not in open_keys
    cfg.for_bound_mutated = False
    # the evaluator evaluates the first element of a literal twice: a printing call there is an open finding (clash stream: always)
    cfg.literal_first_effect = True if clash else ('c03:array-literal-first-element-twice' not in open_keys)
    # strings as computed values; str_substring only with 0 <= start < length while the evaluator yields void at / past the end
    cfg.strops = True
    cfg.str_self_assign = 'c03:string-self-assign-crash' not in open_keys     # nanoc aborts (free(): invalid pointer): no stream can use it
    cfg.substr_past_end = True if clash else ('c03:builtin:str_substring:start-at-or-past-the-end-is-void-in-the-evaluator' not in open_keys)
    return cfg


# ------------------------------------------------------------------------------------------ AST helpers
def seq(ss):
    ss = [s for s in ss if s[0] != 'skip']
    if not ss:
        return ('skip',)
    out = ss[-1]
    for s in reversed(ss[:-1]):
        out = ('seq', s, out)
    return out


def flat(s):
    if s[0] == 'seq':
        return flat(s[1]) + flat(s[2])
    if s[0] == 'skip':
        return []
    return [s]


def map_asserts(s, f):
    t = s[0]
    if t == 'seq':
        return ('seq', map_asserts(s[1], f), map_asserts(s[2], f))
    if t == 'if':
        return ('if', s[1], map_asserts(s[2], f), map_asserts(s[3], f))
    if t == 'while':
        return ('while', s[1], map_asserts(s[2], f))
    if t == 'for':
        return ('for', s[1], s[2], s[3], map_asserts(s[4], f))
    if t == 'assert':
        return f(s)
    return s


def assert_sites(s):
    out = []
    map_asserts(s, lambda a: (out.append(a), a)[1])
    return out


def lit_of(v):
    if isinstance(v, list):
        return ('arr', [('num', z) for z in v])
    if isinstance(v, (bytes, bytearray)):
        return ('str', bytes(v))
    return ('bool', v) if isinstance(v, bool) else ('num', v)


def wrong(v):
    if isinstance(v, (bytes, bytearray)):
        return bytes(v) + b'x'
    if isinstance(v, bool):
        return not v
    return v - 1 if v >= INT64_MAX - 1 else v + 1


def arg_for(rng, ty, cfg):
    if ty == 'bool':
        return ('bool', rng.random() < 0.5)
    if ty == 'str':
        return ('str', rng.choice([b'', b'a', b'xy z', b'Q-1']))
    if ty == 'arr':
        return ('arr', [('num', rng.randrange(-9, 30)) for _ in range(rng.choice([0, 1, 2, 3, 3, 4]))])
    if cfg.boundary_ints and rng.random() < 0.15:
        return ('num', rng.choice(progen.BOUNDARY))
    return ('num', rng.randrange(-6, 15))


# ------------------------------------------------------------------------------------------ case generation
class Case:
    pass


def gen_program(seed, cfg, extra_fns=True):
    g = progen.Gen(random.Random(seed), cfg)
    p = g.gen_program()
    return g, p


def choose_calls(rng, g, p, cfg, many=False):
    """per non-main function: list of argument tuples"""
    calls = {}
    for f in p['fns']:
        if f['name'] == 0:
            continue
        n = 3 if many else rng.choice([1, 1, 2, 2, 3])
        calls[f['name']] = [[arg_for(rng, t, cfg) for (_, t) in f['params']] for _ in range(n)]
    return calls


def probe_program(g, p, calls):
    """program whose main evaluates every chosen call and prints '#R' + the result: the reference run yields the
    expected values the shadow assertions are built from"""
    body = []
    for f in p['fns']:
        if f['name'] == 0:
            continue
        for args in calls[f['name']]:
            c = ('call', f['name'], args)
            if f['ret'] == 'void':
                body += [('expr', c), ('print', True, ('str', MARK_R)), ('print', True, ('num', 0))]
            else:
                r = 900000 + len(body)
                body += [('let', False, r, f['ret'], c), ('print', True, ('str', MARK_R)), ('print', True, ('var', r))]
    body.append(('ret', ('num', 0)))
    fns = [f for f in p['fns'] if f['name'] != 0] + [dict(name=0, params=[], ret='int', body=seq(body), effect=True)]
    return dict(globals=p['globals'], fns=fns, main=0)


def parse_probe(out):
    """values following each '#R' line"""
    lines = out.split(b'\n')
    vals = []
    for i, l in enumerate(lines):
        if l.endswith(MARK_R) and i + 1 < len(lines):
            vals.append(lines[i + 1])
    return vals


def typed_value(raw, ty):
    if ty == 'str':
        # the value becomes a string LITERAL of an assertion: a value that needs an escape sequence (or a quote) has no spelling
        # that reads the same before and after unescaping (the evaluator compares literals verbatim: c03:string-escapes), so no
        # assertion is planted on it
        if any(c in raw for c in b'\\"\'') or any(c < 32 or c > 126 for c in raw):
            return None
        return bytes(raw)
    if ty == 'arr':
        m = re.fullmatch(rb'\[(-?\d+(?:, -?\d+)*)?\]', raw)
        if not m:
            return None
        return [int(x) for x in m.group(1).split(b', ')] if m.group(1) else []
    if ty == 'bool':
        return True if raw == b'true' else False if raw == b'false' else None
    try:
        return int(raw)
    except ValueError:
        return None


def string_function(rng, g):
    """a function over strings (parameters, a string let, == / != on strings, string results); no escapes, no '#'"""
    lits = [b'', b'a', b'xy', b'xy z', b'Q-1', b'same']
    k = rng.randrange(3)
    name = g.fresh()
    a, b_, t = g.fresh(), g.fresh(), g.fresh()
    S_ = lambda x: ('str', x)
    if k == 0:
        body = seq([('print', True, ('var', a)), ('if', ('bin', 'eq', ('var', a), S_(rng.choice(lits))), ('ret', S_(rng.choice(lits))), ('skip',)), ('ret', ('var', a))])
        fd = dict(name=name, params=[(a, 'str'), (b_, 'int')], ret='str', body=body, effect=True)
    elif k == 1:
        body = seq([('print', False, ('var', a)), ('print', True, ('var', b_)), ('ret', ('bin', rng.choice(['eq', 'ne']), ('var', a), ('var', b_)))])
        fd = dict(name=name, params=[(a, 'str'), (b_, 'str')], ret='bool', body=body, effect=True)
    else:
        body = seq([('let', False, t, 'str', ('var', a)), ('if', ('bin', 'eq', ('var', t), S_(b'')), ('ret', ('num', 0)), ('skip',)),
                    ('print', True, ('var', t)), ('ret', ('num', rng.randrange(1, 9)))])
        fd = dict(name=name, params=[(a, 'str')], ret='int', body=body, effect=True)
    g.f('string_fn')
    return fd


SHAPES = ['plain', 'plain', 'direct', 'for', 'while', 'nested']


def shadow_body(rng, g, f, arglists, expected, shape=None):
    """statements of f's shadow tests, one GROUP (list of statements) per call; every assertion is true under the reference
    semantics.  Groups are self-contained, so they can be spread over several shadow blocks of the same function."""
    groups = []
    for args, exp in zip(arglists, expected):
        ss = []
        groups.append(ss)
        c = ('call', f['name'], args)
        sh = shape or rng.choice(SHAPES)
        if f['ret'] == 'void':
            ss.append(('expr', c))
            ss.append(('assert', ('bin', 'eq', ('num', 1), ('num', 1))))
            continue
        if f['ret'] == 'arr':
            # arrays have no ==: the result is printed and its length / an element compared
            r = g.fresh()
            if sh in ('direct', 'for'):
                ss.append(('assert', ('bin', 'eq', ('len', c), ('num', len(exp)))))
            else:
                ss += [('let', False, r, 'arr', c), ('print', True, ('var', r)), ('assert', ('bin', 'eq', ('len', ('var', r)), ('num', len(exp))))]
                if exp:
                    k = rng.randrange(len(exp))
                    ss.append(('assert', ('bin', 'eq', ('at', ('var', r), ('num', k)), ('num', exp[k]))))
            continue
        cmp_ = ('bin', 'eq', None, lit_of(exp))
        if sh == 'plain':
            r = g.fresh()
            ss += [('let', False, r, f['ret'], c), ('print', True, ('var', r)), ('assert', ('bin', 'eq', ('var', r), lit_of(exp)))]
        elif sh == 'direct':
            ss.append(('assert', ('bin', 'eq', c, lit_of(exp))))
        elif sh == 'for':
            i = g.fresh()
            lo = rng.randrange(-1, 2)
            ss.append(('for', i, ('num', lo), ('num', lo + rng.randrange(1, 4)), ('assert', ('bin', 'eq', c, lit_of(exp)))))
        elif sh == 'while':
            cv, r = g.fresh(), g.fresh()
            K = rng.randrange(1, 4)
            ss += [('let', True, cv, 'int', ('num', 0)),
                   ('while', ('bin', 'lt', ('var', cv), ('num', K)),
                    seq([('set', cv, ('bin', 'add', ('var', cv), ('num', 1))), ('let', False, r, f['ret'], c),
                         ('assert', ('bin', 'eq', ('var', r), lit_of(exp)))]))]
        else:
            r = g.fresh()
            ss += [('let', False, r, f['ret'], c),
                   ('if', ('bool', True), ('if', ('bin', 'eq', ('var', r), ('var', r)), ('assert', ('bin', 'eq', ('var', r), lit_of(exp))), ('print', True, ('num', -1))), ('skip',))]
    return groups


MUTATIONS = ['none', 'first', 'last', 'loop', 'after-passing', 'last-block', 'many', 'main-block', 'all']
# a function with SEVERAL shadow blocks: the false assertion sits in the first / a middle / the last of them and nowhere else;
# a shadow block (in the compiled file) for a function IMPORTED from another module holds the only false assertion
LAYOUT_MUTATIONS = ['multi-first', 'multi-middle', 'multi-last', 'imported-block']


def bname(b):
    """function a shadow block belongs to; block ids: n (the first block of function n) or (n, k) (further blocks)"""
    return b if isinstance(b, int) else b[0]



def falsify(a):
    """assert (== x lit) -> assert (== x other-lit)"""
    e = a[1]
    lit = e[3]
    if lit[0] == 'bool':
        return ('assert', ('bin', e[1], e[2], ('bool', not lit[1])))
    if lit[0] == 'str':
        return ('assert', ('bin', e[1], e[2], ('str', wrong(lit[1]))))
    return ('assert', ('bin', e[1], e[2], ('num', wrong(lit[1]))))


def mutate(rng, order, shadows, mode, imported=()):
    """order: block ids in source order; shadows: block id -> stmt list.  Returns (new shadows, list of (block, site-index) falsified)"""
    sites = []      # (name, k-th assertion site in that test, in_loop)
    for n in order:
        k = [0]
        def visit(s, inloop):
            t = s[0]
            if t == 'seq':
                visit(s[1], inloop); visit(s[2], inloop)
            elif t == 'if':
                visit(s[2], inloop); visit(s[3], inloop)
            elif t in ('while',):
                visit(s[2], True)
            elif t == 'for':
                visit(s[4], True)
            elif t == 'assert':
                sites.append((n, k[0], inloop)); k[0] += 1
        visit(seq(shadows[n]), False)
    if not sites or mode == 'none':
        return shadows, []
    nonmain = [s for s in sites if bname(s[0]) != 0]
    pick = []
    if mode.startswith('multi-'):
        per = collections.OrderedDict()
        for b in order:
            per.setdefault(bname(b), []).append(b)
        multi = [bs for n, bs in per.items() if len(bs) >= 2 and n != 0]
        if mode == 'multi-middle':
            multi = [bs for bs in multi if len(bs) >= 3] or multi
        if multi:
            bs = rng.choice(multi)
            b = bs[0] if mode == 'multi-first' else bs[-1] if mode == 'multi-last' else bs[len(bs) // 2] if len(bs) >= 3 else bs[0]
            c = [s for s in sites if s[0] == b]
            pick = [rng.choice(c)] if c else []
    elif mode == 'imported-block':
        c = [s for s in sites if bname(s[0]) in imported]
        pick = [rng.choice(c)] if c else []
    if mode == 'first':
        pick = [sites[0]]
    elif mode == 'last':
        pick = [(nonmain or sites)[-1]]
    elif mode == 'loop':
        c = [s for s in sites if s[2]]
        pick = [rng.choice(c)] if c else []
    elif mode == 'after-passing':
        c = [s for s in sites if s[1] >= 1]
        pick = [rng.choice(c)] if c else []
    elif mode == 'last-block':
        last = (nonmain or sites)[-1][0]
        pick = [rng.choice([s for s in sites if s[0] == last])]
    elif mode == 'many':
        pick = [s for s in sites if rng.random() < 0.4] or [rng.choice(sites)]
    elif mode == 'main-block':
        pick = [s for s in sites if bname(s[0]) == 0][:1]
    elif mode == 'all':
        pick = list(sites)
    pickset = {(n, k) for (n, k, _) in pick}
    out = {}
    for n in order:
        k = [0]
        def f(a):
            i = k[0]; k[0] += 1
            return falsify(a) if (n, i) in pickset else a
        out[n] = flat(map_asserts(seq(shadows[n]), f))
    return out, sorted(pickset, key=repr)


def a_program(p, order, shadows):
    """A(p): main runs the shadow bodies, printing instead of asserting"""
    body = []
    ctr = [0]
    for n in order:
        body.append(('print', True, ('str', MARK_T)))
        def pr(a):
            # evaluate first (the condition may print), then report its truth value
            ctr[0] += 1
            t = 800000 + ctr[0]
            return seq([('let', False, t, 'bool', a[1]), ('print', False, ('str', MARK_A)), ('print', True, ('var', t))])
        b = map_asserts(seq(shadows[n]), pr)
        body += flat(b)
    body.append(('ret', ('num', 0)))
    fns = [f for f in p['fns'] if f['name'] != 0] + [dict(name=0, params=[], ret='int', body=seq(body), effect=True)]
    return dict(globals=p['globals'], fns=fns, main=0)


def sprog_sexp(p, order, shadows, skip=(), imported=()):
    shs = ' '.join('(sh %x %d %s)' % (bname(n), 1 if n in skip else 0, progen.stmt_sexp(seq(shadows[n]))) for n in order)
    imp = (' (imported %s)' % ' '.join('%x' % n for n in imported)) if imported else ''
    return '(sprog %s (shadows %s)%s)' % (progen.to_sexp(p), shs, imp)


# ------------------------------------------------------------------------------------------ source layout
MODULE_FILE = 'mod.nano'


def render_fn(f, st, pub=False):
    out = ['%sfn %s(%s) -> %s {' % ('pub ' if pub else '', progen.fname(f['name']),
                                    ', '.join('%s: %s' % (progen.vname(x), progen.tyname(t)) for (x, t) in f['params']), progen.tyname(f['ret']))]
    out += progen.stmt_nano(f['body'], st, 1)
    out.append('}')
    return out


def render_block(name, stmts, st):
    out = ['shadow %s {' % progen.fname(name)]
    for s_ in stmts:
        out += progen.stmt_nano(s_, st, 1)
    if not stmts:
        out.append('    assert true')
    out.append('}')
    return out


def render_main(p, items, shadows, st, imported=()):
    """the compiled file: import line, constants, then functions and shadow blocks in the order of [items]"""
    byname = {f['name']: f for f in p['fns']}
    out = []
    if imported:
        out.append('from "%s" import %s' % (MODULE_FILE, ', '.join(progen.fname(n) for n in imported)))
    for (g, t, e) in p['globals']:
        out.append('let %s: %s = %s' % (progen.vname(g), progen.tyname(t), progen.expr_nano(e, st)))
    for kind, x in items:
        out += render_fn(byname[x], st) if kind == 'fn' else render_block(bname(x), shadows[x], st)
    return '\n'.join(out) + '\n'


def render_module(p, imported, st):
    """the imported module: the functions as `pub fn`, each with a (true) shadow block of its own -- which nanoc does not run
    when the module is imported"""
    byname = {f['name']: f for f in p['fns']}
    out = []
    for n in imported:
        out += render_fn(byname[n], st, pub=True)
        out += render_block(n, [('assert', ('bool', True))], st)
    return '\n'.join(out) + '\n'


def calls_in(x, acc):
    if isinstance(x, tuple):
        if x and x[0] == 'call':
            acc.add(x[1])
        for y in x:
            calls_in(y, acc)
    elif isinstance(x, list):
        for y in x:
            calls_in(y, acc)
    return acc


def vars_in(x, acc):
    if isinstance(x, tuple):
        if x and x[0] == 'var':
            acc.add(x[1])
        for y in x:
            vars_in(y, acc)
    elif isinstance(x, list):
        for y in x:
            vars_in(y, acc)
    return acc


def choose_imported(rng, p, prob=0.6):
    """functions that can live in a module of their own: they read no top-level constant and call only functions of the module"""
    gn = {g for (g, _, _) in p['globals']}
    imp = []
    for f in p['fns']:
        if f['name'] == 0:
            continue
        if vars_in(f['body'], set()) & gn:
            continue
        if not (calls_in(f['body'], set()) <= set(imp) | {f['name']}):
            continue
        if rng.random() < prob:
            imp.append(f['name'])
    return imp


PLACEMENTS = ['after', 'after', 'after', 'before', 'end', 'top']


def layout(rng, p, blocks_of, imported=(), vary=True):
    """blocks_of: fn name -> list of block ids (in the order they must run relative to each other).  Returns items: the source
    order of the LOCAL functions and of every shadow block.  A block stands right after its function (the usual layout), right
    before it, at the top of the file or at its end (far from the function); blocks of imported functions stand anywhere."""
    items = [('fn', f['name']) for f in p['fns'] if f['name'] not in imported]
    top, end = [], []
    for f in p['fns']:
        n = f['name']
        for k, b in enumerate(blocks_of.get(n, [])):
            pl = rng.choice(PLACEMENTS) if vary else 'after'
            if n in imported and pl in ('after', 'before'):
                pl = rng.choice(['top', 'end', 'mid'])
            if pl == 'top':
                top.append(('sh', b))
            elif pl == 'end':
                end.append(('sh', b))
            elif pl == 'mid':
                items.insert(rng.randrange(len(items) + 1), ('sh', b))
            else:
                i = items.index(('fn', n))
                if pl == 'before':
                    items.insert(i, ('sh', b))
                else:
                    j = i + 1
                    while j < len(items) and items[j][0] == 'sh' and bname(items[j][1]) == n:
                        j += 1
                    items.insert(j, ('sh', b))
    return top + items + end


def order_of(items):
    return [x for k, x in items if k == 'sh']


def split_a_output(out):
    """native / reference output of A(p) -> per test (text, [truth values])"""
    segs = out.split(MARK_T + b'\n')
    res = []
    for s in segs[1:]:
        truths = []
        def rep(m):
            truths.append(m.group(1) == b'true')
            return b''
        txt = re.sub(rb'#A (true|false)\n', rep, s)
        res.append((txt, truths))
    return segs[0], res


# ------------------------------------------------------------------------------------------ real nanoc, verbose
def run_nanoc_verbose(b, src_path, out_path, workdir, timeout=40):
    env = dict(os.environ, TMPDIR=workdir)
    # cwd = the scratch directory: nanoc drops obj/nano_modules/... into its working directory
    rc, o, e = langlib.run_cmd([b.bin('nanoc'), src_path, '-o', out_path, '--verbose'], timeout, env, cwd=workdir)
    return rc, o, e


def parse_verbose(stdout, order_names):
    """stdout of `nanoc --verbose` -> dict(tests=[(name, text, 'PASSED'|'FAILED'|'SKIPPED', nfail)], reached=bool, passed_line=bool)"""
    o = stdout
    i = o.find(b'Running shadow tests...\n')
    if i < 0:
        return dict(reached=False, tests=[], pre=b'')
    pos = i + len(b'Running shadow tests...\n')
    tests = []
    pre = None
    for k, name in enumerate(order_names):
        head = b'Testing ' + name.encode() + b'... '
        j = o.find(head, pos)
        if j < 0:
            return dict(reached=True, tests=tests, pre=pre or b'', broken='no "%s" line' % head.decode())
        if pre is None:
            pre = o[pos:j]
        st = j + len(head)
        # the segment ends where the next test starts (or the summary)
        nxt = len(o)
        if k + 1 < len(order_names):
            h2 = b'Testing ' + order_names[k + 1].encode() + b'... '
            q = o.find(h2, st)
            if q >= 0:
                nxt = q
        else:
            for endmark in (b'All shadow tests passed!', '✓ Shadow tests passed'.encode()):
                q = o.find(endmark, st)
                if q >= 0:
                    nxt = min(nxt, q)
        seg = o[st:nxt]
        m = re.search(rb"FAILED\n  Shadow test '([^']*)' FAILED: (\d+) assertion\(s\) failed\n(  First failure at line \d+, column \d+\n)?$", seg)
        if m:
            tests.append((name, seg[:m.start()], 'FAILED', int(m.group(2)), m.group(1).decode()))
        elif seg.endswith(b'PASSED\n'):
            tests.append((name, seg[:-7], 'PASSED', 0, name))
        elif seg.startswith(b'SKIPPED'):
            tests.append((name, b'', 'SKIPPED', 0, name))
        else:
            tests.append((name, seg, '?', -1, name))
        pos = nxt
    return dict(reached=True, tests=tests, pre=pre or b'', all_passed_line=b'All shadow tests passed!' in o)


def parse_model_run(line):
    """nvref_c03 interp line -> dict(cls, tests=[(name-int, passed, nfail, [bools], out-bytes)], skipped=[...])"""
    f = line.split(' ')
    if f[0] == 'oob':
        return dict(cls='oob', tests=[], skipped=[], raw=line, test=None if f[1] == '-' else int(f[1], 16),
                    out=b'' if f[2] == '-' else bytes.fromhex(f[2]))
    if f[0] != 'done':
        return dict(cls=f[0], tests=[], skipped=[], raw=line)
    tests = []
    body = f[1][len('tests='):]
    if body:
        for t in body.split(';'):
            n, pf, nf, bits, oh = t.split(':')
            tests.append((int(n, 16), pf == 'p', int(nf), [] if bits == '-' else [c == '1' for c in bits], b'' if oh == '-' else bytes.fromhex(oh)))
    sk = f[2][len('skipped='):]
    return dict(cls='done', tests=tests, skipped=[int(x, 16) for x in sk.split(',') if x])


def parse_reft(line):
    if not line.startswith('tests='):
        return None
    out = []
    body = line[len('tests='):]
    if body:
        for t in body.split(';'):
            n, cls, oh = t.split(':')
            out.append((int(n, 16), cls, b'' if oh == '-' else bytes.fromhex(oh)))
    return out


def parse_nanoc_model(line):
    f = line.split(' ')
    if f[0] != 'exit':
        return dict(cls=f[0])
    failed = []       # in source order; a function with several failing blocks appears several times
    fs = f[3][len('failed='):]
    for x in fs.split(','):
        if x:
            n, c = x.split(':'); failed.append((int(n, 16), int(c)))
    warn = [int(x, 16) for x in f[4][len('warn='):].split(',') if x]
    return dict(cls='exit', code=int(f[1], 16), binary=f[2] == '1', failed=failed, warn=warn, stderr_failed=f[5].endswith('1'))


# ------------------------------------------------------------------------------------------ iteration-dependent assertions
ITER_PATTERNS = ['false-first', 'false-middle', 'false-all-but-last', 'false-last-only', 'all-true']
ITER_PLACES = ['shadow', 'helper']
ITER_LOOPS = ['for', 'while']
ITER_EXITS = ['normal', 'break', 'return']
HELPER_RESULT = 7


def count_iter(ck, cases):
    """measured distribution of the iteration-dependent constructs of a batch"""
    d = ck.extra.setdefault('iteration_dependent', collections.Counter())
    for c in cases:
        it = getattr(c, 'iter', None)
        if not it:
            continue
        d['cases'] += 1
        d['pattern=' + it['pattern']] += 1
        d['place=' + it['place']] += 1
        d['loop=' + it['loop']] += 1
        d['exit=' + it['exit']] += 1
        if it['false'] and it['last_passes']:
            d['false-then-last-iteration-passes'] += 1
            if c.mode == 'none':
                d['false-then-last-iteration-passes, nothing else fails'] += 1
        if it['false'] and not it['last_passes']:
            d['true-then-last-iteration-fails'] += 1


def iter_construct(rng, g, place, loop, exit_, pattern):
    """A loop whose assertion's truth value depends on the iteration: false only in the first / a middle / every iteration but
    the last EXECUTED one (which passes), or true everywhere but in the last one, or true everywhere (control).  The loop is
    left normally, through break, or (helper only) through return.  Returns (statements, info)."""
    NUM = lambda z: ('num', z)
    n = rng.randrange(4, 6)
    lo = rng.choice([0, 0, -1, 2])
    e = n - 1 if exit_ == 'normal' else rng.randrange(2, n - 1)          # index of the last executed iteration
    m = rng.randrange(1, e)
    iv = g.fresh()
    V = ('var', iv)
    cond = {'false-first': ('bin', 'ne', V, NUM(lo)),
            'false-middle': ('bin', 'ne', V, NUM(lo + m)),
            'false-all-but-last': ('bin', 'ge', V, NUM(lo + e)),
            'false-last-only': ('bin', 'lt', V, NUM(lo + e)),
            'all-true': ('bin', 'ge', V, NUM(lo))}[pattern]
    nfalse = {'false-first': 1, 'false-middle': 1, 'false-all-but-last': e, 'false-last-only': 1, 'all-true': 0}[pattern]
    body = [('assert', cond)]
    if exit_ != 'normal':
        leave = ('break',) if exit_ == 'break' else ('ret', NUM(HELPER_RESULT))
        body.append(('if', ('bin', 'eq', V, NUM(lo + e)), leave, ('skip',)))
    if loop == 'for':
        stmts = [('for', iv, NUM(lo), NUM(lo + n), seq(body))]
    else:
        body.append(('set', iv, ('bin', 'add', V, NUM(1))))
        stmts = [('let', True, iv, 'int', NUM(lo)), ('while', ('bin', 'lt', V, NUM(lo + n)), seq(body))]
    info = dict(place=place, loop=loop, exit=exit_, pattern=pattern, executed=e + 1, false=nfalse,
                last_passes=pattern != 'false-last-only')
    return stmts, info


def add_iter_construct(rng, g, p, order, shadows, choice=None, items=None):
    """adds one iteration-dependent construct to the case: inside the shadow block of some function, or inside a new helper
    function that a new shadow block calls.  Returns info."""
    place, loop, exit_, pattern = choice or (rng.choice(ITER_PLACES), rng.choice(ITER_LOOPS), rng.choice(ITER_EXITS), rng.choice(ITER_PATTERNS))
    if place == 'shadow' and exit_ == 'return':
        exit_ = rng.choice(['normal', 'break'])
    stmts, info = iter_construct(rng, g, place, loop, exit_, pattern)
    if place == 'shadow':
        tgt = rng.choice(order)
        # before or after the statements already there
        shadows[tgt] = (stmts + shadows[tgt]) if rng.random() < 0.4 else (shadows[tgt] + stmts)
        info['test'] = tgt
    else:
        h = g.fresh()
        r = g.fresh()
        p['fns'].insert(len(p['fns']) - 1, dict(name=h, params=[], ret='int', body=seq(stmts + [('ret', ('num', HELPER_RESULT))]), effect=True))
        if items is not None:
            i = items.index(('fn', 0))
            items[i:i] = [('fn', h), ('sh', h)]
            order[:] = order_of(items)
        else:
            order.insert(len(order) - 1 if order and order[-1] == 0 else len(order), h)
        shadows[h] = [('let', False, r, 'int', ('call', h, [])), ('assert', ('bin', 'eq', ('var', r), ('num', HELPER_RESULT)))]
        info['test'] = h
    return info


class Names:
    """fresh-name source with the interface shadow_body needs"""
    def __init__(self, start=1):
        self.next_name = start
        self.feat = {}
    def fresh(self):
        n = self.next_name; self.next_name += 1; return n
    def f(self, k):
        self.feat[k] = self.feat.get(k, 0) + 1


def clash_program(seed):
    """Synthetic programs aimed at the evaluator's single symbol stack: callers whose parameter / let / for variable is
    spelled like a top-level constant that a callee reads; lets inside blocks that shadow a live name which is read again
    after the block (or in the next loop iteration); recursion through such frames.  Random constants and composition."""
    r = random.Random(seed * 2654435761 % (2 ** 32))
    g = Names()
    NUM = lambda z: ('num', z)
    VAR = lambda x: ('var', x)
    PR = lambda e: ('print', True, e)
    G1, G2 = g.fresh(), g.fresh()
    k1, k2 = r.randrange(2, 50), r.randrange(-9, 9)
    globals_ = [(G1, 'int', NUM(k1)), (G2, 'int', ('bin', 'add', VAR(G1), NUM(k2)))]
    fns = []
    def add(params, ret, body, feat):
        n = g.fresh()
        fns.append(dict(name=n, params=params, ret=ret, body=body, effect=True)); g.f(feat); return n
    # readers of free names
    rd1 = add([], 'int', ('ret', ('bin', r.choice(['add', 'mul', 'sub']), VAR(G1), NUM(r.randrange(1, 5)))), 'reader0')
    a = g.fresh()
    rd2 = add([(a, 'int')], 'int', seq([PR(VAR(G2)), ('ret', ('bin', 'add', VAR(a), ('bin', 'mul', VAR(G1), VAR(G2))))]), 'reader1')
    readers = [(rd1, 0), (rd2, 1)]
    def call_reader(arg):
        f, ar = r.choice(readers)
        return ('call', f, [arg] if ar else [])
    kinds = ['param', 'let', 'for', 'blockexit', 'while-let', 'forbody', 'recursive', 'clean', 'nested-call', 'set-free']
    r.shuffle(kinds)
    for kind in kinds[:r.randrange(3, 7)]:
        gx = r.choice([G1, G2])
        if kind == 'param':
            add([(gx, 'int')], 'int', seq([PR(VAR(gx)), ('ret', call_reader(VAR(gx)))]), 'clash-param')
        elif kind == 'let':
            b = g.fresh()
            add([(b, 'int')], 'int', seq([('let', False, gx, 'int', ('bin', 'add', VAR(b), NUM(r.randrange(1, 9)))), ('ret', ('bin', 'add', call_reader(VAR(b)), VAR(gx)))]), 'clash-let')
        elif kind == 'for':
            s_ = g.fresh()
            add([], 'int', seq([('let', True, s_, 'int', NUM(0)),
                                ('for', gx, NUM(0), NUM(r.randrange(1, 4)), ('set', s_, ('bin', 'add', VAR(s_), call_reader(VAR(gx))))),
                                ('ret', ('bin', 'add', VAR(s_), VAR(gx)))]), 'clash-for')
        elif kind == 'blockexit':
            b, x = g.fresh(), g.fresh()
            add([(b, 'int')], 'int', seq([('let', False, x, 'int', ('bin', 'mul', VAR(b), NUM(2))),
                                          ('if', ('bin', 'gt', VAR(b), NUM(r.randrange(-2, 3))), seq([('let', False, x, 'int', NUM(r.randrange(50, 60))), PR(VAR(x))]), PR(NUM(0))),
                                          PR(VAR(x)), ('ret', VAR(x))]), 'block-exit')
        elif kind == 'while-let':
            c_, x = g.fresh(), g.fresh()
            add([], 'int', seq([('let', False, x, 'int', NUM(r.randrange(1, 9))), ('let', True, c_, 'int', NUM(0)),
                                ('while', ('bin', 'lt', VAR(c_), NUM(r.randrange(1, 4))),
                                 seq([('set', c_, ('bin', 'add', VAR(c_), NUM(1))), PR(VAR(x)), ('let', False, x, 'int', ('bin', 'mul', VAR(c_), NUM(10)))])),
                                ('ret', VAR(x))]), 'while-let')
        elif kind == 'forbody':
            i_, s_ = g.fresh(), g.fresh()
            add([], 'int', seq([('let', True, s_, 'int', NUM(0)),
                                ('for', i_, NUM(0), NUM(r.randrange(2, 5)), seq([PR(VAR(i_)), ('set', s_, ('bin', 'add', VAR(s_), VAR(i_))), ('let', False, i_, 'int', NUM(r.randrange(7, 20)))])),
                                ('ret', VAR(s_))]), 'for-body-let')
        elif kind == 'recursive':
            n_ = g.fresh()
            me = g.next_name
            add([(n_, 'int')], 'int', seq([('if', ('bin', 'le', VAR(n_), NUM(0)), ('ret', call_reader(VAR(n_))), ('skip',)),
                                           ('if', ('bin', 'gt', VAR(n_), NUM(6)), ('ret', NUM(-1)), ('skip',)),
                                           ('let', False, gx, 'int', ('bin', 'mul', VAR(n_), NUM(100))),
                                           ('ret', ('bin', 'add', ('call', me, [('bin', 'sub', VAR(n_), NUM(1))]), VAR(gx)))]), 'clash-recursive')
        elif kind == 'clean':
            b, x = g.fresh(), g.fresh()
            add([(b, 'int')], 'int', seq([('let', False, x, 'int', call_reader(VAR(b))), PR(VAR(x)), ('ret', ('bin', 'sub', VAR(x), VAR(G1)))]), 'clean-caller')
        elif kind == 'nested-call':
            b = g.fresh()
            inner = add([(b, 'int')], 'int', ('ret', ('bin', 'add', call_reader(VAR(b)), NUM(1))), 'clean-caller')
            add([(gx, 'int')], 'int', ('ret', ('call', inner, [VAR(gx)])), 'clash-nested')
        elif kind == 'set-free':
            # `set` of the caller's variable through the shared stack cannot be written in a type-correct program (globals are
            # immutable); a mutable local named like a global, updated before the callee reads the global
            add([], 'int', seq([('let', True, gx, 'int', NUM(1)), ('set', gx, ('bin', 'add', VAR(gx), NUM(r.randrange(1, 9)))), ('ret', call_reader(VAR(gx)))]), 'clash-mut-let')
    fns.append(dict(name=0, params=[], ret='int', body=('ret', NUM(0)), effect=True))
    return g, dict(globals=globals_, fns=fns, main=0)


# ------------------------------------------------------------------------------------------ building a batch of cases
def build_cases(ck, nv_lang, seeds, cfg, modes, tag, drop_shadow_prob=0.0, genf=None, iter_prob=(0.0, 0.0), multi_prob=0.0, import_prob=0.0):
    """Generates programs, asks the reference semantics for the values the shadow assertions expect, builds S/A/sprog.
    Returns list of Case."""
    pre = []
    cfg = cfg or progen.Cfg()
    for i, seed in enumerate(seeds):
        g, p = genf(seed) if genf else gen_program(seed, cfg)
        rng = random.Random(seed ^ 0x5bd1e995)
        if not genf and cfg.strings and rng.random() < 0.45:
            p['fns'].insert(len(p['fns']) - 1, string_function(rng, g))
        calls = choose_calls(rng, g, p, cfg, many=modes[i % len(modes)].startswith('multi-'))
        pre.append((seed, g, p, rng, calls))
    probes = [progen.to_sexp(probe_program(g, p, calls)) for (_, g, p, _, calls) in pre]
    pref = langlib.model_many(nv_lang, 'ref', probes, fuel=FUEL)
    cases = []
    for k, ((seed, g, p, rng, calls), r) in enumerate(zip(pre, pref)):
        if r['cls'] != 'exit':
            ck.extra['dropped'][tag + ':probe-' + r['cls']] += 1
            continue
        raw = parse_probe(r['out'])
        ncalls = sum(len(v) for v in calls.values())
        tys = [f['ret'] if f['ret'] != 'void' else 'int' for f in p['fns'] if f['name'] != 0 for _ in calls[f['name']]]
        vals = [typed_value(x, t) for x, t in zip(raw, tys)]
        if len(raw) != ncalls or any(v is None for v in vals):
            ck.extra['dropped'][tag + ':probe-parse'] += 1
            continue
        c = Case()
        c.seed, c.p, c.g, c.tag = seed, p, g, tag
        c.id = '%s-%d' % (tag, seed)
        c.mode = modes[k % len(modes)]
        shadows = {}
        blocks_of = {}
        it = iter(vals)
        for f in p['fns']:
            n = f['name']
            if n == 0:
                shadows[0] = [('assert', ('bin', 'eq', ('num', 1), ('num', 1)))]
                blocks_of[0] = [0]
                continue
            exp = [next(it) for _ in calls[n]]
            groups = shadow_body(rng, g, f, calls[n], exp)
            # several shadow blocks for one function: the groups are dealt out, in order, over 1-3 blocks
            want = 1
            if multi_prob and len(groups) >= 2 and rng.random() < (0.9 if c.mode.startswith('multi-') else multi_prob):
                want = min(len(groups), rng.choice([2, 2, 3]))
            cuts = sorted(rng.sample(range(1, len(groups)), want - 1)) if want > 1 else []
            parts = [groups[i:j] for i, j in zip([0] + cuts, cuts + [len(groups)])]
            ids = [n] + [(n, q) for q in range(1, len(parts))]
            for bid, part in zip(ids, parts):
                shadows[bid] = [s_ for grp in part for s_ in grp]
            blocks_of[n] = ids
        # some functions live in an imported module (their shadow blocks stay in the compiled file)
        c.imported = []
        if import_prob and (c.mode == 'imported-block' or rng.random() < import_prob):
            c.imported = choose_imported(rng, p)
        items = layout(rng, p, blocks_of, c.imported, vary=bool(multi_prob))
        order = order_of(items)
        shadows, picked = mutate(rng, order, shadows, c.mode, c.imported)
        c.picked = picked
        if c.mode != 'none' and not picked:
            c.mode = 'none'
        # iteration-dependent assertions (after the mutation, so they stay as built); mostly where nothing else fails, so that
        # the gate's verdict hangs on them alone
        c.iter = None
        if rng.random() < (iter_prob[0] if c.mode == 'none' else iter_prob[1]):
            c.iter = add_iter_construct(rng, g, p, order, shadows, items=items)
        # a LOCAL function may lack its shadow block (C06: reported, does not gate)
        c.dropped_shadows = [n for n in blocks_of if n != 0 and n not in c.imported and rng.random() < drop_shadow_prob
                             and not any(bname(b) == n for (b, _) in picked)]
        if c.iter and c.iter['test'] in c.dropped_shadows:
            c.iter = None
        c.items = [(kd, x) for (kd, x) in items if not (kd == 'sh' and bname(x) in c.dropped_shadows)]
        c.order = order_of(c.items)
        c.shadows = {b: shadows[b] for b in c.order}
        c.feat = dict(g.feat)
        finish_case(c)
        cases.append(c)
    return cases


def count_layout(ck, cases):
    """measured distribution of the shadow-block layouts of a batch"""
    d = ck.extra.setdefault('block_layout', collections.Counter())
    for c in cases:
        per = collections.Counter(bname(b) for b in c.order)
        if any(v >= 2 for v in per.values()):
            d['cases with a function that has several shadow blocks'] += 1
        if any(v >= 3 for v in per.values()):
            d['cases with a function that has 3 shadow blocks'] += 1
        if getattr(c, 'imported', None):
            d['cases with an imported module'] += 1
            d['shadow blocks for imported functions'] += sum(1 for b in c.order if bname(b) in c.imported)
        items = getattr(c, 'items', [])
        pos = {x: i for i, (kd, x) in enumerate(items) if kd == 'fn'}
        for i, (kd, x) in enumerate(items):
            if kd == 'sh' and bname(x) in pos:
                d['blocks before their function' if i < pos[bname(x)] else 'blocks after their function'] += 1
        if c.mode in LAYOUT_MUTATIONS:
            d['mode=' + c.mode] += 1


def finish_case(c, style='prefix'):
    p = c.p
    st = progen.Style(style, random.Random(c.seed))
    imported = list(getattr(c, 'imported', None) or [])
    if not getattr(c, 'items', None):
        # the usual layout: every block right after its function
        c.items = []
        for f in p['fns']:
            c.items.append(('fn', f['name']))
            c.items += [('sh', b) for b in c.order if bname(b) == f['name']]
    c.s_src = render_main(p, c.items, c.shadows, st, imported)
    c.mod_src = render_module(p, imported, st) if imported else None
    c.order_names = [progen.fname(bname(n)) for n in c.order]
    ap = a_program(p, c.order, c.shadows)
    c.a_prog = ap
    c.a_src = progen.to_nano(ap, style, random.Random(c.seed))
    c.a_sexp = progen.to_sexp(ap)
    c.sprog = sprog_sexp(p, c.order, c.shadows, imported=imported)
    return c


def hand_case(cid, p, shadows, order=None, items=None, imported=()):
    """case from an explicit program + shadow statement lists (witnesses, corpus).  shadows: block id -> statements; items:
    explicit source order [('fn', n) | ('sh', block id)]"""
    c = Case()
    c.seed, c.p, c.g, c.tag, c.id, c.mode, c.picked, c.feat = 0, p, None, 'witness', cid, 'hand', [], {}
    c.imported = list(imported)
    c.items = items
    c.order = order_of(items) if items else (order or [f['name'] for f in p['fns']])
    c.shadows = {n: shadows.get(n, [('assert', ('bool', True))]) for n in c.order}
    c.dropped_shadows = []
    c.iter = None
    return finish_case(c)


# ------------------------------------------------------------------------------------------ running a batch
def run_models(nv03, nv_lang, cases):
    sx = [c.sprog for c in cases]
    interp = vlib.run_lines(nv03, ['interp %d %s' % (FUEL, s) for s in sx], timeout=900)
    reft = vlib.run_lines(nv03, ['reft %d %s' % (FUEL, s) for s in sx], timeout=900)
    apart = vlib.run_lines(nv03, ['apart ' + s for s in sx], timeout=900)
    gate = vlib.run_lines(nv03, ['nanoc %d 1 1 %s' % (FUEL, s) for s in sx], timeout=900)
    aref = langlib.model_many(nv_lang, 'ref', [c.a_sexp for c in cases], fuel=FUEL)
    for c, i, r, a, g, ar in zip(cases, interp, reft, apart, gate, aref):
        c.m_interp = parse_model_run(i)
        c.m_reft = parse_reft(r)
        c.m_apart = a.strip() == '1'
        c.m_gate = parse_nanoc_model(g)
        c.ref_a = ar


def run_real(b, cases, tag, want_native=True):
    with langlib.Work(tag) as wd:
        def one(c):
            h = hashlib.md5(c.id.encode()).hexdigest()[:10]
            d = os.path.join(wd, h); os.makedirs(d, exist_ok=True)
            sp = os.path.join(d, 's.nano'); open(sp, 'w').write(c.s_src)
            if getattr(c, 'mod_src', None):
                open(os.path.join(d, MODULE_FILE), 'w').write(c.mod_src)
            outp = os.path.join(d, 's.out')
            rc, o, e = run_nanoc_verbose(b, sp, outp, d, getattr(c, 'timeout', 40))
            if rc == -9 and getattr(c, 'm_interp', {}).get('cls') != 'nofuel':
                # the model says the evaluator terminates: a loaded machine, not a hang -- once more, generously
                if os.path.exists(outp):
                    os.unlink(outp)
                rc, o, e = run_nanoc_verbose(b, sp, outp, d, 200)
            c.r_rc, c.r_stdout, c.r_stderr = rc, o, e.decode('utf-8', 'replace')
            c.r_binary = os.path.exists(outp)
            c.r_verbose = parse_verbose(o, c.order_names)
            c.r_native = None
            if want_native:
                ap = os.path.join(d, 'a.nano'); open(ap, 'w').write(c.a_src)
                aout = os.path.join(d, 'a.out')
                env = dict(os.environ, TMPDIR=d)
                rc2, o2, e2 = langlib.run_cmd([b.bin('nanoc'), ap, '-o', aout], 200, env, cwd=d)
                if rc2 == 0 and os.path.exists(aout):
                    rc3, o3, e3 = langlib.run_cmd([aout], 20, cwd=d)
                    c.r_native = dict(cls='exit' if rc3 >= 0 else ('timeout' if rc3 == -9 else 'signal%d' % -rc3), rc=rc3, out=o3)
                else:
                    log = (o2 + e2).decode('utf-8', 'replace')
                    cls = 'cc-failed' if 'C compilation failed' in log else ('rejected' if ('ype check' in log or 'Parsing failed' in log) else 'compile-failed')
                    c.r_native = dict(cls=cls, rc=rc2, out=b'', log=log[-1500:])
            return c
        langlib.pmap(one, cases)


def front_rejected(c):
    e = c.r_stderr
    return (not c.r_verbose.get('reached')) and ('Type checking failed' in e or 'Parsing failed' in e or 'Lexing failed' in e or 'ype check' in e)


# ------------------------------------------------------------------------------------------ comparisons
def real_tests(c):
    """[(name, text, status, nfail)] as printed by the real nanoc"""
    return [(t[0], t[1], t[2], t[3]) for t in c.r_verbose.get('tests', [])]


def cmp_compile_vs_run(c, segs, who):
    """C03 oracle.  segs: per executed test (text, truths) from the native binary / the reference running A(p).
    Returns list of discrepancy strings (empty = agree)."""
    bad = []
    rt = [t for t in real_tests(c) if t[2] != 'SKIPPED']
    if len(rt) != len(segs):
        bad.append('%s: %d shadow blocks reported at compile time, %d run at run time; nanoc rc=%s, last block reported: %s, stderr tail %r' % (
            who, len(rt), len(segs), c.r_rc, rt[-1][0] if rt else None, c.r_stderr[-120:]))
        if len(rt) > len(segs):
            return bad
    for (name, text, status, nfail), (rtext, truths) in zip(rt, segs):
        if text != rtext:
            bad.append('%s: test %s prints %r at compile time, %r at run time' % (who, name, text[:200], rtext[:200]))
        nf = sum(1 for t in truths if not t)
        if nf != nfail:
            bad.append('%s: test %s: %d assertion(s) failed at compile time, %d false at run time (%s)' % (who, name, nfail, nf, ''.join('T' if t else 'F' for t in truths)))
        if (status == 'PASSED') != (nf == 0):
            bad.append('%s: test %s is %s at compile time but run time has %d false assertions' % (who, name, status, nf))
    return bad


def cmp_gate(c, truths_by_test):
    """C06 oracle.  truths_by_test: per executed test list of truth values (reference or native).  Returns discrepancies."""
    bad = []
    should_fail = [n for n, tr in zip([t[0] for t in real_tests(c) if t[2] != 'SKIPPED'], truths_by_test) if not all(tr)]
    failed_named = [t[0] for t in c.r_verbose.get('tests', []) if t[2] == 'FAILED' and t[4] == t[0]]
    if should_fail:
        if c.r_rc == 0:
            bad.append('a shadow assertion is false (tests %s) but nanoc exits 0' % should_fail)
        if c.r_binary:
            bad.append('a shadow assertion is false (tests %s) but an executable is left at the output path' % should_fail)
        if sorted(failed_named) != sorted(should_fail):
            bad.append('failing tests %s, named by nanoc: %s' % (should_fail, failed_named))
        if 'Shadow tests failed' not in c.r_stderr:
            bad.append('"Shadow tests failed" missing on stderr')
    else:
        if failed_named:
            bad.append('every shadow assertion holds but nanoc reports FAILED for %s' % failed_named)
        elif c.r_rc != 0 or not c.r_binary:
            if 'C compilation failed' in c.r_stderr or 'Transpilation failed' in c.r_stderr:
                bad.append('LATER-PHASE: all shadow tests pass, then transpile/cc fails (rc=%s)' % c.r_rc)
            else:
                bad.append('every shadow assertion holds but nanoc exits %s, binary=%s' % (c.r_rc, c.r_binary))
    return bad


def cmp_model(c):
    """tie: InterpSem/ShadowGate model vs the real nanoc.  Returns discrepancies."""
    bad = []
    m = c.m_interp
    if m['cls'] == 'oob':
        # an array index out of bounds inside the evaluator: nanoc prints "Runtime Error: Array index ..." and exits 1 at once
        if c.r_rc != 1:
            bad.append('model: the evaluator stops at an out-of-bounds index (nanoc exit 1); real rc=%s' % c.r_rc)
        if c.r_binary:
            bad.append('model: no executable after an out-of-bounds index in a shadow test; real: file at the output path')
        if 'out of bounds' not in c.r_stderr:
            bad.append('model: "Runtime Error: Array index ... out of bounds" on stderr; real stderr %r' % c.r_stderr[-200:])
        g = c.m_gate
        if g.get('cls') != 'exit' or g.get('code') != 1 or g.get('binary'):
            bad.append('gate model on an out-of-bounds index: %s' % g)
        return bad
    if m['cls'] == 'unmodelled':
        # the model itself says the program leaves its fragment (e.g. str_substring starting at or past the end of the string, where
        # the evaluator yields void: open finding c03:builtin:str_substring:...): no tie verdict; the property-level comparisons
        # against the reference and the native binary still apply to the case
        c.model_unmodelled = True
        return []
    if m['cls'] != 'done':
        return ['model outcome %s (real rc=%s)' % (m['cls'], c.r_rc)]
    rt = c.r_verbose.get('tests', [])
    ex = [t for t in rt if t[2] != 'SKIPPED']
    if len(ex) != len(m['tests']):
        return ['model ran %d tests, real %d' % (len(m['tests']), len(ex))]
    for (name, text, status, nfail, named), (mn, mp, mnf, mtr, mout) in zip(ex, m['tests']):
        if progen.fname(mn) != name:
            bad.append('test order: model %s real %s' % (progen.fname(mn), name))
        if mout != text:
            bad.append('test %s text: model %r real %r' % (name, mout[:200], text[:200]))
        if mp != (status == 'PASSED') or mnf != nfail:
            bad.append('test %s verdict: model %s/%d real %s/%d' % (name, 'PASSED' if mp else 'FAILED', mnf, status, nfail))
    g = c.m_gate
    if g['cls'] == 'exit':
        later_failed = 'C compilation failed' in c.r_stderr or 'Transpilation failed' in c.r_stderr
        if not later_failed:
            if (g['code'] == 0) != (c.r_rc == 0):
                bad.append('gate exit: model %s real %s' % (g['code'], c.r_rc))
            if g['binary'] != c.r_binary:
                bad.append('gate binary: model %s real %s' % (g['binary'], c.r_binary))
        realfailed = [(t[4], t[3]) for t in rt if t[2] == 'FAILED']
        modelfailed = [(progen.fname(n), k) for n, k in g['failed']]
        if realfailed != modelfailed:
            bad.append('FAILED lines: model %s real %s' % (modelfailed, realfailed))
        if g['stderr_failed'] != ('Shadow tests failed' in c.r_stderr):
            bad.append('"Shadow tests failed": model %s real stderr %s' % (g['stderr_failed'], 'Shadow tests failed' in c.r_stderr))
        realwarn = re.findall(r"Function '([^']+)' is missing a shadow test", c.r_stderr)
        if sorted(realwarn) != sorted(progen.fname(n) for n in g['warn']):
            bad.append('missing-shadow warnings: model %s real %s' % ([progen.fname(n) for n in g['warn']], realwarn))
    else:
        bad.append('model gate outcome %s' % g['cls'])
    return bad


def ref_segments(c):
    """reference semantics on A(p): per test (text, truths) or None when the reference run is not a normal exit"""
    if c.ref_a['cls'] != 'exit':
        return None
    return split_a_output(c.ref_a['out'])[1]


def native_segments(c):
    n = c.r_native
    if not n or n['cls'] != 'exit' or n['rc'] != 0:
        return None
    return split_a_output(n['out'])[1]


def ref_fault_test(c):
    """the reference run of A(p) stopped at a FALSE ASSERTION inside a called function (those stay real assertions): index of the
    test during which it happened, or None"""
    if c.ref_a['cls'] != 'fault-assert':
        return None
    k = c.ref_a['out'].count(MARK_T + b'\n')
    return k - 1 if k >= 1 else None


def cmp_gate_fault(c, k):
    """C06 oracle for that situation: an executed assertion is false, so no executable, non-zero exit, the test is named."""
    bad = []
    ex = [t for t in c.r_verbose.get('tests', []) if t[2] != 'SKIPPED']
    name = ex[k][0] if k < len(ex) else '?'
    if c.r_rc == 0:
        bad.append('an assertion executed by test %s (inside a called function) is false but nanoc exits 0' % name)
    if c.r_binary:
        bad.append('an assertion executed by test %s (inside a called function) is false but an executable is left at the output path' % name)
    if k < len(ex) and ex[k][2] != 'FAILED':
        bad.append('test %s executes a false assertion (reference) but nanoc reports it %s' % (name, ex[k][2]))
    if (c.r_rc != 0) and 'Shadow tests failed' not in c.r_stderr:
        bad.append('"Shadow tests failed" missing on stderr')
    return bad


def replay_dict(c, **kw):
    d = dict(case=c.id, mode=c.mode, iteration_dependent=getattr(c, 'iter', None), module_source=getattr(c, 'mod_src', None), source=c.s_src, a_source=c.a_src, sprog=c.sprog, a_sexp=c.a_sexp, order=c.order_names,
             real=dict(rc=c.r_rc, binary=c.r_binary, stdout=c.r_stdout.decode('latin1')[-3000:], stderr=c.r_stderr[-1500:]),
             names_apart=c.m_apart)
    if c.r_native:
        d['native'] = dict(cls=c.r_native['cls'], rc=c.r_native['rc'], out=c.r_native['out'].decode('latin1')[-3000:], log=c.r_native.get('log', '')[-800:])
    d.update(kw)
    return d


# ------------------------------------------------------------------------------------------ deterministic family: control-flag leaks
FLAG_LOOPS = ['while', 'for']
FLAG_ENDS = ['fall', 'continue', 'break', 'callret']          # how the distinguished iteration ends
FLAG_POS = ['first', 'middle', 'last']
FLAG_ENCL = ['fnbody', 'if', 'else', 'outer-while', 'outer-for', 'shadow']
FLAG_N = 3                                                     # iterations of the loop under test
FLAG_PER_PROGRAM = 30


def flag_construct(g, loop, end, pos, encl, acc, kparam, helper, tag):
    """statements: the enclosing construct, inside it the loop under test (FLAG_N iterations; the iteration at [pos] ends in the
    way [end]) followed IN THE SAME BLOCK by a print and an update of acc -- which only happen if no control flag of the loop
    leaked into the enclosing block.  Returns (statements, value acc must have afterwards when acc was 0 before)."""
    NUM = lambda z: ('num', z)
    V = lambda x: ('var', x)
    p = dict(first=0, middle=1, last=FLAG_N - 1)[pos]
    inc = ('set', acc, ('bin', 'add', V(acc), NUM(1)))
    iv = g.fresh()
    if loop == 'for':
        idx = V(iv)                                            # 0 .. N-1
        here = ('bin', 'eq', idx, NUM(p))
    else:
        idx = V(iv)                                            # the counter is incremented first: 1 .. N
        here = ('bin', 'eq', idx, NUM(p + 1))
    special = {'fall': [],
               'continue': [('if', here, ('continue',), ('skip',))],
               'break': [('if', here, ('break',), ('skip',))],
               'callret': [('if', here, ('set', acc, ('bin', 'add', V(acc), ('call', helper, [NUM(p)]))), ('skip',))]}[end]
    body = [('print', True, idx)] + special + [inc]
    if loop == 'for':
        lp = [('for', iv, NUM(0), NUM(FLAG_N), seq(body))]
    else:
        lp = [('let', True, iv, 'int', NUM(0)),
              ('while', ('bin', 'lt', V(iv), NUM(FLAG_N)), seq([('set', iv, ('bin', 'add', V(iv), NUM(1)))] + body))]
    per_loop = {'fall': FLAG_N, 'continue': FLAG_N - 1, 'break': p, 'callret': FLAG_N + p + 10}[end]
    after = [('print', True, NUM(1000 + tag)), ('set', acc, ('bin', 'add', V(acc), NUM(10)))]
    block = lp + after
    once = per_loop + 10
    if encl in ('fnbody', 'shadow'):
        return block, once
    if encl == 'if':
        return [('if', ('bin', 'gt', kparam, NUM(0)), seq(block), ('print', True, NUM(-1)))], once
    if encl == 'else':
        return [('if', ('bin', 'lt', kparam, NUM(0)), ('print', True, NUM(-1)), seq(block))], once
    if encl == 'outer-for':
        o = g.fresh()
        return [('for', o, NUM(0), NUM(2), seq(block + [('print', True, V(o))]))], 2 * once
    o = g.fresh()
    return [('let', True, o, 'int', NUM(0)),
            ('while', ('bin', 'lt', V(o), NUM(2)), seq([('set', o, ('bin', 'add', V(o), NUM(1)))] + block + [('print', True, V(o))]))], 2 * once


def flag_family():
    """deterministic (seed-independent) cases: every loop kind x way an iteration ends x position x enclosing construct, each with
    statements after the loop in the same block; the called helper returns from inside a loop of its own.  ~120 constructs in a
    few programs; every assertion is true in the language."""
    combos = []
    for encl in FLAG_ENCL:
        for loop in FLAG_LOOPS:
            combos.append((loop, 'fall', 'last', encl))
            for end in FLAG_ENDS[1:]:
                for pos in FLAG_POS:
                    combos.append((loop, end, pos, encl))
    cases = []
    for b0 in range(0, len(combos), FLAG_PER_PROGRAM):
        g = Names(1)
        NUM = lambda z: ('num', z)
        V = lambda x: ('var', x)
        hname, hv, hj = g.fresh(), g.fresh(), g.fresh()
        # returns from inside its own loop: the callee's return must not end the caller's loop or block
        helper = dict(name=hname, params=[(hv, 'int')], ret='int', effect=False,
                      body=seq([('for', hj, NUM(0), NUM(FLAG_N + 1), ('if', ('bin', 'eq', V(hj), V(hv)), ('ret', ('bin', 'add', V(hj), NUM(10))), ('skip',))),
                                ('ret', NUM(-1))]))
        fns, shadows, order, labels = [helper], {hname: [('assert', ('bin', 'eq', ('call', hname, [NUM(1)]), NUM(11)))]}, [hname], {}
        for k, (loop, end, pos, encl) in enumerate(combos[b0:b0 + FLAG_PER_PROGRAM]):
            f, kp, acc, r = g.fresh(), g.fresh(), g.fresh(), g.fresh()
            tag = b0 + k
            labels[f] = '%s/%s/%s/%s' % (loop, end, pos, encl)
            if encl == 'shadow':
                stmts, exp = flag_construct(g, loop, end, pos, encl, acc, NUM(1), hname, tag)
                fns.append(dict(name=f, params=[(kp, 'int')], ret='int', effect=False, body=('ret', V(kp))))
                shadows[f] = [('let', True, acc, 'int', NUM(0))] + stmts + [('print', True, V(acc)), ('assert', ('bin', 'eq', V(acc), NUM(exp)))]
            else:
                stmts, exp = flag_construct(g, loop, end, pos, encl, acc, V(kp), hname, tag)
                fns.append(dict(name=f, params=[(kp, 'int')], ret='int', effect=True,
                                body=seq([('let', True, acc, 'int', NUM(0))] + stmts + [('print', True, V(acc)), ('ret', V(acc))])))
                shadows[f] = [('let', False, r, 'int', ('call', f, [NUM(1)])), ('print', True, V(r)), ('assert', ('bin', 'eq', V(r), NUM(exp)))]
            order.append(f)
        fns.append(dict(name=0, params=[], ret='int', body=('ret', NUM(0)), effect=True))
        shadows[0] = [('assert', ('bool', True))]
        order.append(0)
        c = hand_case('flags-%d' % (b0 // FLAG_PER_PROGRAM), dict(globals=[], fns=fns, main=0), shadows, order=order)
        c.tag, c.flag_labels = 'flags', labels
        cases.append(c)
    return cases


# ------------------------------------------------------------------------------------------ deterministic family: operand evaluation
def order_family(open_keys=()):
    """deterministic (seed-independent) cases for the evaluation-order facts the specification fixes:
      * and / or evaluate the right operand only when the left one does not decide: right operands that print (helper), that recurse
        guarded by the left operand (eager evaluation never ends), that would stop the program if evaluated (out-of-range at, failing
        assert in a helper, division by zero -- the evaluator reports that one on stderr), in every position an and/or can stand (let
        initialiser, if / while condition, assert argument, call argument, return value, and-in-or / or-in-and, cond tests)
      * operands of a binary operator left to right with effects in both; call arguments in order; array literal elements in order
        (native: open finding lang:arg-order -- those constructs sit in a program of their own whose native comparison is exempt
        while the finding is open; the evaluator is judged against the reference); cond tests in order, only the chosen branch
    Every assertion is true in the language.  (A right operand that ASSIGNS cannot be written: `set` is a statement and a function
    cannot write its caller's variables.)"""
    NUM = lambda z: ('num', z)
    V = lambda x: ('var', x)
    B_ = lambda b: ('bool', b)
    P = lambda e: ('print', True, e)
    g = Names(1)
    # helpers
    side, sv = g.fresh(), g.fresh()          # prints v, returns true
    sidef, sfv = g.fresh(), g.fresh()        # prints v, returns false
    sidei, siv = g.fresh(), g.fresh()        # prints v, returns v
    hfail, hv = g.fresh(), g.fresh()         # failing assertion inside, returns true
    rec_or, rn = g.fresh(), g.fresh()
    rec_and, rn2 = g.fresh(), g.fresh()
    add3, a1, a2, a3 = g.fresh(), g.fresh(), g.fresh(), g.fresh()
    idb, ib = g.fresh(), g.fresh()
    H = [dict(name=side, params=[(sv, 'int')], ret='bool', effect=True, body=seq([P(V(sv)), ('ret', B_(True))])),
         dict(name=sidef, params=[(sfv, 'int')], ret='bool', effect=True, body=seq([P(V(sfv)), ('ret', B_(False))])),
         dict(name=sidei, params=[(siv, 'int')], ret='int', effect=True, body=seq([P(V(siv)), ('ret', V(siv))])),
         dict(name=hfail, params=[(hv, 'int')], ret='bool', effect=True, body=seq([('assert', ('bin', 'eq', V(hv), NUM(0))), ('ret', B_(True))])),
         # the recursion is guarded by the LEFT operand: evaluating the right one eagerly never ends
         dict(name=rec_or, params=[(rn, 'int')], ret='bool', effect=True,
              body=seq([P(V(rn)), ('ret', ('bin', 'or', ('bin', 'eq', V(rn), NUM(0)), ('call', rec_or, [('bin', 'sub', V(rn), NUM(1))])))])),
         dict(name=rec_and, params=[(rn2, 'int')], ret='bool', effect=True,
              body=seq([P(V(rn2)), ('ret', ('bin', 'and', ('bin', 'ne', V(rn2), NUM(0)), ('call', rec_and, [('bin', 'sub', V(rn2), NUM(1))])))])),
         dict(name=add3, params=[(a1, 'int'), (a2, 'int'), (a3, 'int')], ret='int', effect=False,
              body=('ret', ('bin', 'add', V(a1), ('bin', 'add', ('bin', 'mul', V(a2), NUM(10)), ('bin', 'mul', V(a3), NUM(100)))))),
         dict(name=idb, params=[(ib, 'bool')], ret='bool', effect=False, body=('ret', V(ib)))]
    HS = {side: [('assert', ('call', side, [NUM(1)]))], sidef: [('assert', ('un', 'not', ('call', sidef, [NUM(1)])))],
          sidei: [('assert', ('bin', 'eq', ('call', sidei, [NUM(1)]), NUM(1)))], hfail: [('assert', ('call', hfail, [NUM(0)]))],
          rec_or: [('assert', ('call', rec_or, [NUM(3)]))], rec_and: [('assert', ('un', 'not', ('call', rec_and, [NUM(3)])))],
          add3: [('assert', ('bin', 'eq', ('call', add3, [NUM(1), NUM(2), NUM(3)]), NUM(321)))], idb: [('assert', ('call', idb, [B_(True)]))]}

    def truth(op, l, r):
        return (l and r) if op == 'and' else (l or r)

    constructs = []      # (label, params, ret, body builder(param vars) , shadow stmts builder(fname, r))
    tagc = [0]

    def right_of(kind, l, op, lp, zp, ap):
        """right operand expression and its value (None: must not be evaluated)"""
        tagc[0] += 1
        t = 500 + tagc[0]
        if kind == 'print-true':
            return ('call', side, [NUM(t)]), True
        if kind == 'print-false':
            return ('call', sidef, [NUM(t)]), False
        if kind == 'oob':
            return ('bin', 'eq', ('at', V(ap), NUM(5)), NUM(0)), None
        if kind == 'assert-helper':
            return ('call', hfail, [NUM(1)]), None
        if kind == 'div-zero':
            return ('bin', 'eq', ('bin', 'div', NUM(10), V(zp)), NUM(0)), None
        raise ValueError(kind)

    def mk(label, op, l, kind, position):
        f, lp, zp, ap, x, c_ = g.fresh(), g.fresh(), g.fresh(), g.fresh(), g.fresh(), g.fresh()
        R, rv = right_of(kind, l, op, lp, zp, ap)
        E = ('bin', op, V(lp), R)
        decided = (op == 'and' and not l) or (op == 'or' and l)
        val = truth(op, l, True if rv is None else rv)
        params = [(lp, 'bool'), (zp, 'int'), (ap, 'arr')]
        args = [B_(l), NUM(0), ('arr', [NUM(1), NUM(2), NUM(3)])]
        ret = 'int'
        if position == 'let':
            body = [('let', False, x, 'bool', E), P(V(x)), ('ret', NUM(1))]
        elif position == 'if':
            body = [('if', E, P(NUM(1)), P(NUM(0))), ('ret', NUM(1))]
        elif position == 'while':
            # the left operand is the loop test: true for c = 0, 1 (the right one runs, once each), false at c = 2 (it must not)
            if op == 'and':
                cond = ('bin', 'and', ('bin', 'lt', V(c_), NUM(2)), ('call', side, [V(c_)]))
            else:
                cond = ('un', 'not', ('bin', 'or', ('bin', 'ge', V(c_), NUM(2)), ('call', sidef, [V(c_)])))
            body = [('let', True, c_, 'int', NUM(0)), ('while', cond, ('set', c_, ('bin', 'add', V(c_), NUM(1)))), P(V(c_)), ('ret', NUM(1))]
        elif position == 'assert':
            body = [('assert', ('bin', 'eq', E, B_(val))), P(NUM(7)), ('ret', NUM(1))]
        elif position == 'call-arg':
            body = [P(('call', idb, [E])), ('ret', NUM(1))]
        elif position == 'return':
            ret = 'bool'
            body = [('ret', E)]
        elif position == 'and-in-or':
            body = [P(('bin', 'or', ('bin', 'and', V(lp), R), ('call', side, [NUM(900 + tagc[0])]))), ('ret', NUM(1))]
        elif position == 'or-in-and':
            body = [P(('bin', 'and', ('bin', 'or', V(lp), R), ('call', side, [NUM(900 + tagc[0])]))), ('ret', NUM(1))]
        elif position == 'cond-test':
            body = [P(('cond', E, NUM(10), ('cond', ('call', sidef, [NUM(900 + tagc[0])]), NUM(20), NUM(30)))), ('ret', NUM(1))]
        else:
            raise ValueError(position)
        r = g.fresh()
        exp = B_(val) if ret == 'bool' else NUM(1)
        sh = [('let', False, r, ret, ('call', f, args)), P(V(r)), ('assert', ('bin', 'eq', V(r), exp))]
        constructs.append((label, dict(name=f, params=params, ret=ret, body=seq(body), effect=True), sh, False))

    POS = ['let', 'if', 'while', 'assert', 'call-arg', 'return', 'and-in-or', 'or-in-and', 'cond-test']
    for op in ('and', 'or'):
        for l in (True, False):
            for position in POS:
                kind = 'print-true' if (len(constructs) % 2 == 0) else 'print-false'
                mk('%s/left-%s/%s/%s' % (op, l, kind, position), op, l, kind, position)
        ldec = (op == 'or')            # the left value that decides
        for kind in ('oob', 'assert-helper', 'div-zero'):
            for position in ('let', 'if', 'return', 'call-arg'):
                mk('%s/left-decides/%s/%s' % (op, kind, position), op, ldec, kind, position)
    # guarded recursion, called from a shadow block
    for nm, fnm, val in (('rec-or', rec_or, True), ('rec-and', rec_and, False)):
        f, r = g.fresh(), g.fresh()
        constructs.append(('%s/guarded-recursion' % nm, dict(name=f, params=[], ret='bool', effect=True, body=('ret', ('call', fnm, [NUM(4)]))),
                           [('let', False, r, 'bool', ('call', f, [])), P(V(r)), ('assert', ('bin', 'eq', V(r), B_(val)))], False))
    # cond: tests in order, only the chosen branch
    f, r = g.fresh(), g.fresh()
    constructs.append(('cond/tests-in-order', dict(name=f, params=[], ret='int', effect=True,
                       body=('ret', ('cond', ('call', sidef, [NUM(1)]), ('call', sidei, [NUM(10)]),
                                     ('cond', ('call', side, [NUM(2)]), ('call', sidei, [NUM(20)]), ('call', sidei, [NUM(30)]))))),
                       [('let', False, r, 'int', ('call', f, [])), P(V(r)), ('assert', ('bin', 'eq', V(r), NUM(20)))], False))
    # several effects in one expression: left to right (native comparison exempt while lang:arg-order is open)
    for nm, e, val in (
            ('binop-add/effects-in-both', ('bin', 'add', ('call', sidei, [NUM(1)]), ('call', sidei, [NUM(2)])), 3),
            ('binop-sub/effects-in-both', ('bin', 'sub', ('call', sidei, [NUM(5)]), ('call', sidei, [NUM(2)])), 3),
            ('binop-mul-nested/effects', ('bin', 'mul', ('bin', 'add', ('call', sidei, [NUM(1)]), ('call', sidei, [NUM(2)])), ('call', sidei, [NUM(3)])), 9),
            ('call-args/in-order', ('call', add3, [('call', sidei, [NUM(1)]), ('call', sidei, [NUM(2)]), ('call', sidei, [NUM(3)])]), 321),
            ('call-args/nested-calls', ('call', add3, [('call', sidei, [NUM(1)]), ('call', add3, [('call', sidei, [NUM(2)]), ('call', sidei, [NUM(3)]), NUM(0)]), ('call', sidei, [NUM(4)])]), 1 + 320 + 400),
            ('array-literal/elements-in-order', ('len', ('arr', [('call', sidei, [NUM(1)]), ('call', sidei, [NUM(2)]), ('call', sidei, [NUM(3)])])), 3)):
        f, r = g.fresh(), g.fresh()
        constructs.append((nm, dict(name=f, params=[], ret='int', effect=True, body=('ret', e)),
                           [('let', False, r, 'int', ('call', f, [])), P(V(r)), ('assert', ('bin', 'eq', V(r), NUM(val)))], True))
    cmpl = ('bin', 'lt', ('call', sidei, [NUM(1)]), ('call', sidei, [NUM(2)]))
    f, r = g.fresh(), g.fresh()
    constructs.append(('binop-lt/effects-in-both', dict(name=f, params=[], ret='bool', effect=True, body=('ret', cmpl)),
                       [('let', False, r, 'bool', ('call', f, [])), P(V(r)), ('assert', ('bin', 'eq', V(r), B_(True)))], True))

    def build(cid, items, exempt, with_rec=False):
        # the guarded-recursion helpers live in a program of their own: evaluated eagerly they never return, which would hide every
        # other construct of the program behind one crash
        hs = [h for h in H if with_rec or h['name'] not in (rec_or, rec_and)]
        fns = hs + [fd for (_, fd, _, _) in items] + [dict(name=0, params=[], ret='int', body=('ret', NUM(0)), effect=True)]
        shadows = {h['name']: HS[h['name']] for h in hs}
        order = [h['name'] for h in hs]
        labels = {}
        for (label, fd, sh, _) in items:
            shadows[fd['name']] = sh
            order.append(fd['name'])
            labels[fd['name']] = label
        shadows[0] = [('assert', B_(True))]
        order.append(0)
        c = hand_case(cid, dict(globals=[], fns=fns, main=0), shadows, order=order)
        c.tag, c.order_labels, c.native_exempt, c.timeout = 'order', labels, exempt, 25
        return c

    recs = [x for x in constructs if x[0].endswith('/guarded-recursion')]
    plain = [x for x in constructs if not x[3] and x not in recs]
    multi = [x for x in constructs if x[3]]
    cases = [build('order-guarded-recursion', recs, False, with_rec=True)]
    for i in range(0, len(plain), 32):
        cases.append(build('order-%d' % (i // 32), plain[i:i + 32], False))
    cases.append(build('order-multi-effect', multi, 'lang:arg-order' in open_keys))
    return cases
